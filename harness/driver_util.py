"""Run the real driver (/repo/fullSimulation.py main) on simulated ranks with the h5py 'mpio' shim.
Used by C05 / C18.  Each run happens in its own scratch working directory (the driver writes out<N>.txt, timing/)."""
import contextlib
import io
import json
import os
import sys

import numpy as np

import common

common.use_repo(h5=True)
from mpi4py import MPI  # noqa: E402
import h5py  # noqa: E402


def write_constants(path, npts=(8, 8, 8, 8), dt=2, iotaVal=0.0, **kw):
    d = {"npts": list(npts), "dt": dt, "iotaVal": iotaVal, "m": 2, "n": 1, "eps": 1e-3}
    d.update(kw)
    json.dump(d, open(path, 'w'))
    return path


def run_driver(nranks, workdir, tEnd, folder, constfile=None, saveStep=5, tMax=100000, policy='inorder', seed=0):
    """returns ('ok', RunResult) or ('err', message, RunResult)"""
    import importlib
    import fullSimulation
    importlib.reload(fullSimulation)
    old_argv, old_cwd = sys.argv, os.getcwd()
    sys.argv = ['fullSimulation.py', str(tEnd), str(tMax), '-f', folder, '-s', str(saveStep)] + (['-c', constfile] if constfile else [])
    os.chdir(workdir)
    try:
        buf = io.StringIO()
        with contextlib.redirect_stdout(buf):
            res = MPI.run(nranks, fullSimulation.main, policy=policy, seed=seed)
    finally:
        sys.argv = old_argv
        os.chdir(old_cwd)
    if res.ok:
        return ('ok', res)
    tb = res.traceback() or ''
    return ('err', (res.first_error() or '') + ' @ ' + ' | '.join(l.strip() for l in tb.splitlines() if 'fullSimulation' in l)[-200:], res)


def read_dset(path):
    f = h5py.File(path, 'r')
    a = np.array(f['/dset'])
    lay = np.array(f['/dset'].attrs['Layout'])
    f.close()
    return a, lay
