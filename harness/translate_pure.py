#!/usr/bin/env python3
"""AST translator for small, pure, integer-valued Python functions of /repo  ->  Lean 4 definitions (shallow embedding).

Targets (each regenerated on every run of the checks that use them; the output directory is git-ignored):

  pygyro/model/process_grid.py      -> lean/PygyroVerif/Generated/ProcGridGen.lean
        both functions, statement by statement: every `while` becomes a fuel-recursive function over a record of all
        local variables, `break` / `raise` / `return` become constructors of the result type.
  pygyro/model/layout.py  Layout.__init__ (the block arithmetic of the loop over the process axes)
                                    -> lean/PygyroVerif/Generated/BlocksGen.lean
        the scalar expressions for the start index of rank r, the block length and the maximum block length.

  pygyro/splines/spline_eval_funcs.py   (targets findspan | basisfuns | eval1d)
        nu_find_span                -> lean/PygyroVerif/Generated/FindSpanGen.lean      (part 1 machinery, Props/C07Gen.lean)
        nu_basis_funs               -> lean/PygyroVerif/Generated/BasisFunsGen.lean     (part 4: float arrays that are written =
        nu_find_span, nu_basis_funs_1st_der, nu_eval_spline_1d_scalar                    functional update of `Nat → Rat`, `for .. in
                                    -> lean/PygyroVerif/Generated/EvalSplineGen.lean     range`, `empty(n)` = arbitrary contents `U`,
        calls between the kernels; Props/C07Gen2.lean proves the generated functions equal Model/BSpline.lean)

  pygyro/splines/cubic_uniform_spline_eval_funcs.py   (target cueval)
        cu_find_span, cu_basis_funs, cu_basis_funs_1st_der, cu_eval_spline_1d_scalar
                                    -> lean/PygyroVerif/Generated/CubicUniformGen.lean  (part 4 + every `int` is a Lean `Int`, `int(x)` of a
        float = `pyInt x` = TRUNCATION TOWARD ZERO, tuple assignment / tuple returns; Props/C07Gen3.lean: generated = Model/CubicUniform.lean)
  pygyro/advection/accelerated_advection_steps.py     (targets vpar | flux)
        general_v_parallel_advection_eval_step
                                    -> lean/PygyroVerif/Generated/VParGen.lean          (`for i, v in enumerate(a)`, two `while` loops with
        fuel, `f_eq` and the function parameter `eval_spline_1d_scalar` as UNINTERPRETED pure functions; Props/C11Gen.lean: generated =
        Model/VParAdv.lean `evalNode`, fuel and termination of the periodic mode)
        flux_advection              -> lean/PygyroVerif/Generated/FluxGen.lean          (2-D / 3-D arrays `a[i, j]`, `a[i, j, k]` as curried
        functions, `a[i, j] += v`, `len(coeffs)`; Props/C10Gen.lean: generated = Model/FluxAdv.lean `fluxAdvection` = Σ_k coeffs[k]·vals[i,j,k])
        general_poloidal_advection_step_expl   (target polexpl)
                                    -> lean/PygyroVerif/Generated/PolExplGen.lean       (float `a % b` = `pyMod a b` = a - b*floor(a/b), which is
        Python's value for b > 0 [and for every b ≠ 0]; `from numpy import pi` in the body: `pi` a leading parameter; `bool` parameters;
        `a.shape[0]`; 2-D arrays handed to function parameters as (contents, extent 0, extent 1); the procedure parameter `eval_spline_2d_cross`
        `()(…)` as "its one non-Final array := g(arguments)"; Props/C12Gen.lean: generated = Model/PolAdv.lean `finalVal ∘ explFoot`)
  pygyro/poisson/poisson_tools.py   (target density)
        get_rho, get_perturbed_rho  -> lean/PygyroVerif/Generated/DensityGen.lean       (4-D arrays, `n, m, p = rho.shape` / `nc, = quad_coeffs.shape`
        = extent parameters `rho_len0..2`, `quad_coeffs_len`; the annotation `T` (a module-level TypeVar over complex128[:,:,:] / float[:,:,:]):
        the REAL instance is translated, the header says so; Props/C16Gen.lean: generated = Model/Density.lean `getRhoKernel`,
        `getPerturbedRhoKernel` inside the box, untouched outside)
  the vector entry points   (target evalvec)
        nu_eval_spline_1d_vector (spline_eval_funcs.py), cu_eval_spline_1d_vector (cubic_uniform_spline_eval_funcs.py)
                                    -> lean/PygyroVerif/Generated/EvalVectorGen.lean    (numeric default values of parameters; calls of kernels
        inside `for i, xi in enumerate(x)`; imports EvalSplineGen / CubicUniformGen; Props/C07Gen4.lean: y[k] = what the generated scalar
        evaluation returns at x[k], k < len(x), nothing beyond)

  the 2-D scalar kernels   (target eval2d)
        nu_eval_spline_2d_scalar (spline_eval_funcs.py), cu_eval_spline_2d_scalar (cubic_uniform_spline_eval_funcs.py)
                                    -> lean/PygyroVerif/Generated/Eval2DGen.lean        (`a = empty((n, m))` = a local 2-D array, element (k, l) = word
        `k*m + l` of `U`; the ONE slice statement `a[:, :] = b[lo1:hi1, lo2:hi2]` with numpy's shape check / broadcasting for in-bounds slices [ValueError
        otherwise; clipping and negative bounds not modelled]; Props/C07Gen5.lean: generated = Model `evalSpline2D` / `cuEvalSpline2D`, all (der1, der2))
  pygyro/advection/accelerated_advection_steps.py     (targets lagvals | polimpl)
        general_get_lagrange_vals   -> lean/PygyroVerif/Generated/LagValsGen.lean       (`int[:]` = `Nat → Int`, read only; `for j, s in enumerate(<int
        array>)`; `(i - s) % nz` with a natural modulus = Lean's `%` on `Int`, the NON-NEGATIVE remainder = Python's value for nz > 0; `empty_like`; the ONE slice
        statement `a[:] = (b + s) % c` = the element-wise loop in closed form under numpy's shape check; a function parameter the body never mentions is not
        translated; Props/C10Gen2.lean: generated = Model/FluxAdv.lean `getLagrangeVals` on the len(qVals) theta indices, untouched elsewhere)
        general_poloidal_advection_step_impl
                                    -> lean/PygyroVerif/Generated/PolImplGen.lean       (`from numpy import pi, abs`: `abs(x)` = `pyAbs x`; an `if` whose branches
        only assign = `let σ := if c then … else …` [the statements after it are NOT copied into the branches]; a `for` whose body only assigns applies
        `body_of_<loop>` = the composition of `part<k>_of_<loop>`, the body cut at every `if`; `while (norm > tol)` with fuel = number of TESTS;
        Props/C12Gen2.lean: one pass of the while body = Model/PolAdv.lean `sweep` incl. the norm, the while = `implLoop` (fuel N+1 vs N), the call = `implStep`)

  the 2-D cross and vector entry points   (targets cross2d | vec2d)
        nu_eval_spline_2d_cross, cu_eval_spline_2d_cross    -> lean/PygyroVerif/Generated/Cross2DGen.lean   (nested `enumerate` loops, kernel calls and the slice copy
        inside them, a written 2-D array parameter `z[i, j]`; Props/C07Gen6.lean: z[i, j] = what the generated scalar 2-D kernel returns at (X[i], Y[j]), nothing
        outside len(X) x len(Y); Props/C12Gen3.lean: the table contract of C12Gen / C12Gen2 discharged with these functions)
        nu_eval_spline_2d_vector, cu_eval_spline_2d_vector  -> lean/PygyroVerif/Generated/Vec2DGen.lean     (`for i in range(len(x))`, array parameters without `Final`;
        Props/C07Gen7.lean: z[k] = the scalar kernel at (x[k], y[k]), nothing beyond len(x))
  pygyro/initialisation/initialiser_funcs.py   (target initfuncs)
        n0, Ti, Te, perturbation, f_eq, n0deriv_normalised, init_f, init_f_flux, init_f_pol, init_f_vpar, feq_vector
                                    -> lean/PygyroVerif/Generated/InitFuncsGen.lean      (part 5: scalar functions whose body is one `return <expression>` = plain
        definitions over `Rat`; the numpy names imported in the bodies (`exp`, `tanh`, `cos`, `sqrt`, `pi`) = fields of the UNINTERPRETED record `Np`, `real(x) = x`,
        `e ** n` with a literal n; the fillers as kernels with `f_eq` / `perturbation` bound to the translations of the same module; Props/C05Gen.lean: closed
        formulas, and every entry of a filled array is the scalar function at that entry's own coordinates)

Props/C20Gen.lean and Props/C02Gen.lean prove that the generated definitions equal the hand-written models the other
theorems are about (so those theorems hold of what the source says *now*).  The translator REFUSES (exit status 3, no Lean
file left behind) on any construct outside its subset (subtraction on naturals, float functions, unknown calls, other
statement kinds, a changed loop skeleton in Layout.__init__ ...): a refusal is a broken proof obligation for the caller.

Semantics chosen (recorded in the header of every generated file):
  * Python `int` values that are only ever built with + * // % min max from non-negative inputs are Lean `Nat`
    (`//` -> `/`, `%` -> `%`; both agree with Python for a positive divisor; division by zero raises in Python and is 0 in
    Lean: the theorems state the guard).
  * `/` (true division, binary64 in Python) is exact division in `Rat`; variables that receive such values are `Rat`.
  * `lst[i]` on a list parameter is `lst.getD i 0` (Python raises IndexError when too short).

Standard library only.   usage: translate_pure.py [--repo /repo] [--out DIR] [--quiet] [--only TARGET]
"""
import argparse
import ast
import hashlib
import os
import sys

HERE = os.path.dirname(os.path.abspath(__file__))
DEFAULT_OUT = os.path.join(os.path.dirname(HERE), 'lean', 'PygyroVerif', 'Generated')


class Refuse(Exception):
    def __init__(self, node, why, fname='?'):
        super().__init__('%s:%s: %s' % (fname, getattr(node, 'lineno', '?'), why))


# =====================================================================================================================
# part 1: imperative integer functions (process_grid.py)

class FuncTranslator:
    """One module of plain functions -> Lean.  All functions share the result type `Res`."""

    def __init__(self, fname, namespace, allow_sub=False):
        self.allow_sub = allow_sub
        self.fname = fname
        self.ns = namespace
        self.out = []
        self.funcs = {}

    def refuse(self, node, why):
        raise Refuse(node, why, self.fname)

    # ---- typing: which locals are Rat -------------------------------------------------------------------------
    def infer_types(self, fn):
        params = [a.arg for a in fn.args.args]
        types = {}
        for a in fn.args.args:
            ann = a.annotation.id if isinstance(a.annotation, ast.Name) else (
                a.annotation.value if isinstance(a.annotation, ast.Constant) and isinstance(a.annotation.value, str) else None)
            if ann == 'int':
                types[a.arg] = 'Nat'
            elif ann == 'list':
                types[a.arg] = 'List Nat'
            elif ann == 'float':
                types[a.arg] = 'Rat'
            elif ann in ('Final[float[:]]', 'float[:]'):
                types[a.arg] = 'Nat → Rat'          # a 1-D float array read through its index; its length is a separate field
                types[a.arg + '_len'] = 'Nat'
            else:
                self.refuse(a, 'parameter %s: annotation must be int, float, list or a 1-D float array' % a.arg)
        changed = True
        assigned = []
        for n in ast.walk(fn):
            if isinstance(n, (ast.Assign, ast.AugAssign)):
                tg = n.targets[0] if isinstance(n, ast.Assign) else n.target
                if isinstance(n, ast.Assign) and len(n.targets) != 1:
                    self.refuse(n, 'chained assignment')
                if not isinstance(tg, ast.Name):
                    self.refuse(n, 'only plain names may be assigned')
                assigned.append((tg.id, n))
        for v, _ in assigned:
            types.setdefault(v, 'Nat')
        while changed:
            changed = False
            for v, n in assigned:
                if types[v] == 'Nat' and self.is_rat(n.value, types):
                    types[v] = 'Rat'
                    changed = True
        params = [q for p_ in params for q in ([p_, p_ + '_len'] if types[p_] == 'Nat → Rat' else [p_])]
        order = params + [v for v, _ in assigned if v not in params]
        seen, ordered = set(), []
        for v in order:
            if v not in seen:
                seen.add(v)
                ordered.append(v)
        return params, ordered, types

    def is_rat(self, e, types):
        for n in ast.walk(e):
            if isinstance(n, ast.BinOp) and isinstance(n.op, ast.Div):
                return True
            if isinstance(n, ast.Name) and types.get(n.id) == 'Rat':
                return True
            if isinstance(n, ast.Subscript) and isinstance(n.value, ast.Name) and types.get(n.value.id) == 'Nat → Rat':
                return True
        return False

    # ---- expressions ------------------------------------------------------------------------------------------
    def expr(self, e, types, want):
        """Lean text of expression `e` at type `want` ('Nat' or 'Rat')"""
        if isinstance(e, ast.Constant) and isinstance(e.value, int) and not isinstance(e.value, bool):
            if e.value < 0:
                self.refuse(e, 'negative literal')
            return '(%d : %s)' % (e.value, want)
        if isinstance(e, ast.Name):
            t = types.get(e.id)
            if t is None:
                self.refuse(e, 'unknown name %s' % e.id)
            if t == 'List Nat':
                self.refuse(e, 'list used as a number')
            if t == want:
                return 'σ.%s' % e.id
            if t == 'Nat' and want == 'Rat':
                return '(σ.%s : Rat)' % e.id
            self.refuse(e, 'Rat value %s used where an integer is needed' % e.id)
        if isinstance(e, ast.Subscript) and isinstance(e.value, ast.Name) and types.get(e.value.id) == 'Nat → Rat':
            if want != 'Rat':
                self.refuse(e, 'array element used as an integer')
            return '(σ.%s %s)' % (e.value.id, self.expr(e.slice, types, 'Nat'))
        if isinstance(e, ast.Call) and isinstance(e.func, ast.Name) and e.func.id == 'len' and len(e.args) == 1 \
                and isinstance(e.args[0], ast.Name) and types.get(e.args[0].id) == 'Nat → Rat':
            return 'σ.%s_len' % e.args[0].id if want == 'Nat' else '(σ.%s_len : Rat)' % e.args[0].id
        if isinstance(e, ast.Subscript):
            if not (isinstance(e.value, ast.Name) and types.get(e.value.id) == 'List Nat'
                    and isinstance(e.slice, ast.Constant) and isinstance(e.slice.value, int) and e.slice.value >= 0):
                self.refuse(e, 'only list_parameter[non-negative literal]')
            s = '(σ.%s.getD %d 0)' % (e.value.id, e.slice.value)
            return s if want == 'Nat' else '(%s : Rat)' % s
        if isinstance(e, ast.BinOp):
            if isinstance(e.op, ast.Div):
                if want != 'Rat':
                    self.refuse(e, 'true division used as an integer')
                return '(%s / %s)' % (self.expr(e.left, types, 'Rat'), self.expr(e.right, types, 'Rat'))
            ops = {ast.Add: '+', ast.Mult: '*', ast.FloorDiv: '/', ast.Mod: '%'}
            if self.allow_sub:
                ops[ast.Sub] = '-'                     # truncated subtraction on naturals: recorded in the header of the generated file
            if type(e.op) not in ops:
                self.refuse(e, 'operator %s is outside the subset (naturals: + * // %% only)' % type(e.op).__name__)
            if want == 'Rat' and type(e.op) in (ast.FloorDiv, ast.Mod):
                if self.is_rat(e, types):
                    self.refuse(e, '// or % on a float')
                return '((%s %s %s : Nat) : Rat)' % (self.expr(e.left, types, 'Nat'), ops[type(e.op)],
                                                    self.expr(e.right, types, 'Nat'))
            if want == 'Rat' and not self.is_rat(e, types):
                return '((%s %s %s : Nat) : Rat)' % (self.expr(e.left, types, 'Nat'), ops[type(e.op)],
                                                    self.expr(e.right, types, 'Nat'))
            return '(%s %s %s)' % (self.expr(e.left, types, want), ops[type(e.op)], self.expr(e.right, types, want))
        if isinstance(e, ast.Call) and isinstance(e.func, ast.Name) and e.func.id in ('min', 'max'):
            if len(e.args) != 2 or e.keywords:
                self.refuse(e, 'min/max take two positional arguments here')
            if want == 'Rat' and not self.is_rat(e, types):
                return '((%s %s %s : Nat) : Rat)' % (e.func.id, self.expr(e.args[0], types, 'Nat'),
                                                    self.expr(e.args[1], types, 'Nat'))
            return '(%s %s %s)' % (e.func.id, self.expr(e.args[0], types, want), self.expr(e.args[1], types, want))
        self.refuse(e, 'expression %s is outside the subset' % type(e).__name__)

    def cond(self, e, types):
        """Lean Prop (decidable) of a Python condition"""
        if isinstance(e, ast.Constant) and e.value is True:
            return 'True'
        if isinstance(e, ast.BoolOp):
            op = ' ∧ ' if isinstance(e.op, ast.And) else ' ∨ '
            return '(' + op.join(self.cond(v, types) for v in e.values) + ')'
        if isinstance(e, ast.UnaryOp) and isinstance(e.op, ast.Not):
            return '(¬ %s)' % self.cond(e.operand, types)
        if isinstance(e, ast.Compare):
            if len(e.ops) != 1:
                self.refuse(e, 'chained comparison')
            ops = {ast.Lt: '<', ast.LtE: '≤', ast.Gt: '>', ast.GtE: '≥', ast.Eq: '=', ast.NotEq: '≠'}
            if type(e.ops[0]) not in ops:
                self.refuse(e, 'comparison operator')
            rat = self.is_rat(e.left, types) or self.is_rat(e.comparators[0], types)
            t = 'Rat' if rat else self.int_kind(e, types)
            return '(%s %s %s)' % (self.expr(e.left, types, t), ops[type(e.ops[0])], self.expr(e.comparators[0], types, t))
        self.refuse(e, 'condition %s is outside the subset' % type(e).__name__)

    def int_kind(self, e, types):
        """the type at which a comparison between integers is made"""
        return 'Nat'

    # ---- statements (continuation passing) --------------------------------------------------------------------
    def block(self, stmts, types, k_end, k_break, ind, fuel):
        """Lean term of type `Res St` for the statement list, given the current state `σ`.
        k_end: term to use when the list is exhausted; k_break: term for `break` (None outside loops);
        fuel: the Lean term holding the fuel to hand to loops started here"""
        pad = '  ' * ind
        if not stmts:
            return pad + k_end
        s, rest = stmts[0], stmts[1:]
        if isinstance(s, ast.Expr) and isinstance(s.value, ast.Constant) and isinstance(s.value.value, str):
            return self.block(rest, types, k_end, k_break, ind, fuel)
        if isinstance(s, ast.Pass):
            return self.block(rest, types, k_end, k_break, ind, fuel)
        if isinstance(s, ast.Assign):
            v = s.targets[0].id
            return '%slet σ : St := { σ with %s := %s }\n%s' % (
                pad, v, self.expr(s.value, types, types[v]), self.block(rest, types, k_end, k_break, ind, fuel))
        if isinstance(s, ast.AugAssign):
            v = s.target.id
            new = ast.BinOp(left=ast.Name(id=v, ctx=ast.Load()), op=s.op, right=s.value)
            ast.copy_location(new, s)
            return '%slet σ : St := { σ with %s := %s }\n%s' % (
                pad, v, self.expr(new, types, types[v]), self.block(rest, types, k_end, k_break, ind, fuel))
        if isinstance(s, ast.Break):
            if k_break is None:
                self.refuse(s, 'break outside a loop')
            return pad + k_break
        if isinstance(s, ast.Raise):
            exc = s.exc
            name = exc.func.id if isinstance(exc, ast.Call) and isinstance(exc.func, ast.Name) else (
                exc.id if isinstance(exc, ast.Name) else None)
            if name is None:
                self.refuse(s, 'raise of something that is not a plain exception class')
            return pad + self.wrap('.raised "%s"' % name)
        if isinstance(s, ast.Return):
            v = s.value
            if isinstance(v, ast.Tuple):
                return pad + self.wrap('.ret [%s]' % ', '.join(self.expr(x, types, 'Nat') for x in v.elts))
            if isinstance(v, ast.Name) and types.get(v.id) == 'Nat':
                return pad + self.wrap('.ret [σ.%s]' % v.id)
            if isinstance(v, ast.Call) and isinstance(v.func, ast.Name) and v.func.id in self.funcs:
                if v.keywords:
                    self.refuse(s, 'keyword arguments')
                want = self.funcs[v.func.id]
                if len(want) != len(v.args):
                    self.refuse(s, 'wrong number of arguments')
                args = ' '.join(self.expr(a, types, 'Nat') for a in v.args)
                return pad + self.wrap('%s F %s' % (v.func.id, args))
            self.refuse(s, 'return of this form')
        if isinstance(s, ast.If):
            after = self.block(rest, types, k_end, k_break, ind + 1, fuel)
            # the continuation is duplicated into both branches (small functions only)
            thn = self.block(s.body + rest, types, k_end, k_break, ind + 1, fuel)
            els = self.block(s.orelse + rest, types, k_end, k_break, ind + 1, fuel) if s.orelse else after
            return '%sif %s then\n%s\n%selse\n%s' % (pad, self.cond(s.test, types), thn, pad, els)
        if isinstance(s, ast.While):
            if s.orelse:
                self.refuse(s, 'while-else')
            name = 'loop%d' % (len(self.loops) + 1)
            self.loops.append(None)
            slot = len(self.loops) - 1
            was_top, self.top = self.top, False
            body = self.block(s.body, types, '%s F f σ' % name, '.ok σ', 3, 'F')
            self.top = was_top
            self.loops[slot] = (
                '/-- %s:%d  `while %s:` — carried state: all locals; `F` is the fuel handed to loops started in the body -/\n'
                'def %s (F : Nat) : Nat → St → Res St\n'
                '  | 0, _ => .done .outOfFuel\n'
                '  | f+1, σ =>\n'
                '    if %s then\n%s\n'
                '    else .ok σ\n' % (self.fname, s.lineno, ast.unparse(s.test), name, self.cond(s.test, types), body))
            after = self.block(rest, types, k_end, k_break, ind + 1, fuel)
            return '%smatch %s F %s σ with\n%s| .ok σ =>\n%s\n%s| .done o => %s' % (pad, name, fuel, pad, after, pad,
                                                                                    self.wrap('o', paren=False))
        self.refuse(s, 'statement %s is outside the subset' % type(s).__name__)

    def wrap(self, o, paren=True):
        """a final outcome `o : Out` at the current position: the function body has type `Out`, a loop body `Res St`"""
        if self.top:
            return o
        return '.done (%s)' % o if paren else '.done o'

    def function(self, fn):
        params, order, types = self.infer_types(fn)
        self.loops = []
        self.top = True
        # functions that contain loops get their own state record; loop names are made unique per function
        body = self.block(fn.body, types, '.ret []', None, 1, 'F')
        base = len(self.all_loops)
        ren = {}
        for i, txt in enumerate(self.loops):
            ren['loop%d' % (i + 1)] = '%s_loop%d' % (fn.name, i + 1)
        for i in range(len(self.loops) - 1, -1, -1):  # replace longer names first (loop10 before loop1)
            old, new = 'loop%d' % (i + 1), ren['loop%d' % (i + 1)]
            body = body.replace(old + ' ', new + ' ')
            self.loops = [t.replace(old + ' ', new + ' ') for t in self.loops]
        self.loops = self.loops[::-1]      # inner loops are created after the loop that contains them: define them first
        self.all_loops += self.loops
        dflt = {'List Nat': '[]', 'Nat → Rat': 'fun _ => 0'}
        fields = '\n'.join('  %s : %s := %s' % (v, types[v], dflt.get(types[v], '0')) for v in order)
        self.has_fun = any(types[v] == 'Nat → Rat' for v in order)
        init = ', '.join('%s := %s' % (p, p) for p in params)
        sig = ' '.join('(%s : %s)' % (p, types[p]) for p in params)
        self.funcs[fn.name] = params
        tmpl = ('namespace %s_\n/-- all local variables of `%s` (%s:%d) -/\nstructure St where\n%s\n' +
                ('' if self.has_fun else 'deriving Repr\n') + '\n%s\n'
                '/-- `%s(%s)` with fuel `F` for every loop -/\ndef run (F : Nat) %s : Out :=\n  let σ : St := { %s }\n%s\nend %s_\n')
        return tmpl % (fn.name, fn.name, self.fname, fn.lineno, fields, '\n'.join(self.loops), fn.name, ', '.join(params), sig,
                       init, body, fn.name)

    def module(self, src):
        tree = ast.parse(src)
        fns = [n for n in tree.body if isinstance(n, ast.FunctionDef)]
        other = [n for n in tree.body if not isinstance(n, ast.FunctionDef)
                 and not (isinstance(n, ast.Expr) and isinstance(n.value, ast.Constant))]
        if other:
            self.refuse(other[0], 'module-level statement outside the subset')
        self.all_loops = []
        # callees first: a function may only call functions defined in this module
        calls = {f.name: {n.func.id for n in ast.walk(f) if isinstance(n, ast.Call) and isinstance(n.func, ast.Name)}
                 for f in fns}
        names = {f.name for f in fns}
        done, parts = [], []
        pending = list(fns)
        while pending:
            progress = False
            for f in list(pending):
                if (calls[f.name] & names) <= set(done):
                    parts.append((f.name, self.function_wrapped(f)))
                    done.append(f.name)
                    pending.remove(f)
                    progress = True
            if not progress:
                self.refuse(pending[0], 'recursive functions')
        return parts

    def function_wrapped(self, fn):
        # inside a function body calls to earlier functions are `<callee> F args`; give them that name
        txt = self.function(fn)
        for callee in self.funcs:
            if callee != fn.name:
                txt = txt.replace('  %s F ' % callee, '  %s_.run F ' % callee)
        return txt


def translate_process_grid(repo):
    rel = 'pygyro/model/process_grid.py'
    src = open(os.path.join(repo, rel)).read()
    tr = FuncTranslator(rel, 'PygyroVerif.Gen.ProcGrid')
    parts = tr.module(src)
    head = ('/-\nGENERATED by harness/translate_pure.py from %s (sha256 %s) — do not edit.\n'
            'Shallow embedding: every `while` is a fuel-recursive function over the record `St` of all locals; `//`,`%%` on\n'
            'naturals; `/` is exact division in `Rat` (binary64 in Python); `lst[i]` is `getD i 0`.  Core Lean only.\n-/\n'
            'namespace PygyroVerif.Gen.ProcGrid\n\n'
            '/-- outcome of a call: `return`, `raise`, or the model artefact `outOfFuel` -/\n'
            'inductive Out where\n  | ret (v : List Nat)\n  | raised (exc : String)\n  | outOfFuel\nderiving Repr, DecidableEq\n\n'
            '/-- outcome of a loop: left normally with state `s` (also by `break`), or the call is over -/\n'
            'inductive Res (α : Type) where\n  | ok (s : α)\n  | done (o : Out)\nderiving Repr\n\n'
            % (rel, hashlib.sha256(src.encode()).hexdigest()[:16]))
    body = '\n'.join(p for _, p in parts)
    # a callee's result has its own state type: re-wrap
    body = body.replace('_.run F ', '_.run F ')
    return head + body + '\nend PygyroVerif.Gen.ProcGrid\n', [n for n, _ in parts]


# =====================================================================================================================
# part 2: the block arithmetic of Layout.__init__

def translate_layout_blocks(repo):
    rel = 'pygyro/model/layout.py'
    src = open(os.path.join(repo, rel)).read()
    tree = ast.parse(src)

    def refuse(node, why):
        raise Refuse(node, why, rel)

    cls = [n for n in tree.body if isinstance(n, ast.ClassDef) and n.name == 'Layout']
    if len(cls) != 1:
        refuse(tree, 'class Layout not found')
    init = [n for n in cls[0].body if isinstance(n, ast.FunctionDef) and n.name == '__init__']
    if len(init) != 1:
        refuse(cls[0], 'Layout.__init__ not found')
    init = init[0]
    loops = [n for n in init.body if isinstance(n, ast.For) and isinstance(n.iter, ast.Call)
             and ast.unparse(n.iter) == 'enumerate(self._nprocs)']
    if len(loops) != 1:
        refuse(init, 'the loop `for i, nRanks in enumerate(self._nprocs)` was not found exactly once')
    loop = loops[0]
    if ast.unparse(loop.target) != '(i, nRanks)':
        refuse(loop, 'loop target is not (i, nRanks)')
    # what the loop must look like: scalar assignments to locals, `ranks = np.arange(0, nRanks+1)`,
    # `n = len(eta_grids[dims_order[i]])`, one vector expression `starts`, and the stores listed below
    env = {}          # local scalar -> Lean text over (n nRanks r : Nat)
    vec = {}          # local vector (function of r) -> Lean text
    stores = {}

    def ex(e, r):
        """scalar expression, with the vector `ranks` read at index r (a Lean term)"""
        if isinstance(e, ast.Constant) and isinstance(e.value, int) and not isinstance(e.value, bool) and e.value >= 0:
            return str(e.value)
        if isinstance(e, ast.Name):
            if e.id == 'nRanks':
                return 'nRanks'
            if e.id in env:
                return env[e.id]
            if e.id in vec:
                if r is None:
                    refuse(e, 'vector %s used as a scalar' % e.id)
                return vec[e.id](r)
            refuse(e, 'unknown name %s' % e.id)
        if isinstance(e, ast.BinOp):
            ops = {ast.Add: '+', ast.Mult: '*', ast.FloorDiv: '/', ast.Mod: '%'}
            if type(e.op) not in ops:
                refuse(e, 'operator %s is outside the subset (naturals: + * // %% only)' % type(e.op).__name__)
            return '(%s %s %s)' % (ex(e.left, r), ops[type(e.op)], ex(e.right, r))
        if isinstance(e, ast.IfExp):
            t = e.test
            ops = {ast.Lt: '<', ast.LtE: '≤', ast.Gt: '>', ast.GtE: '≥', ast.Eq: '=', ast.NotEq: '≠'}
            if not (isinstance(t, ast.Compare) and len(t.ops) == 1 and type(t.ops[0]) in ops):
                refuse(e, 'conditional expression test')
            return '(if %s %s %s then %s else %s)' % (ex(t.left, r), ops[type(t.ops[0])], ex(t.comparators[0], r),
                                                     ex(e.body, r), ex(e.orelse, r))
        refuse(e, 'expression %s is outside the subset' % type(e).__name__)

    for s in loop.body:
        if not isinstance(s, (ast.Assign, ast.Expr)):
            refuse(s, 'statement %s in the block loop' % type(s).__name__)
        txt = ast.unparse(s)
        if isinstance(s, ast.Expr):
            c = s.value
            if txt == 'self._mpi_starts.append(starts[:-1])':
                stores['mpi_starts'] = lambda r: vec['starts'](r)
            elif txt == 'self._mpi_lengths.append(starts[1:] - starts[:-1])':
                if 'starts' not in vec:
                    refuse(s, 'starts not defined yet')
                # natural subtraction is safe only if starts is monotone: proved in Props/C02Gen for the generated text
                stores['mpi_lengths'] = lambda r: '(%s - %s)' % (vec['starts']('(%s + 1)' % r), vec['starts'](r))
            elif isinstance(c, ast.Constant) and isinstance(c.value, str):
                continue
            else:
                refuse(s, 'unrecognised call `%s`' % txt)
            continue
        tg = s.targets[0]
        if len(s.targets) != 1:
            refuse(s, 'chained assignment')
        ttxt = ast.unparse(tg)
        if isinstance(tg, ast.Name):
            if txt == 'ranks = np.arange(0, nRanks + 1)':
                vec['ranks'] = lambda r: r
            elif txt == 'n = len(eta_grids[dims_order[i]])':
                env['n'] = 'n'
            elif tg.id in ('ranks', 'n'):
                refuse(s, '`%s` has changed' % tg.id)
            else:
                uses_vec = any(isinstance(x, ast.Name) and x.id in vec for x in ast.walk(s.value))
                if uses_vec:
                    val = s.value
                    vec[tg.id] = (lambda v: (lambda r: ex(v, r)))(val)
                    ex(val, 'r')  # refuse now if outside the subset
                else:
                    env[tg.id] = ex(s.value, None)
        elif ttxt == 'self._starts[i]':
            if ast.unparse(s.value) != 'starts[myRanks[i]]':
                refuse(s, 'store to _starts')
            stores['starts'] = lambda r: vec['starts'](r)
        elif ttxt == 'self._ends[i]':
            if ast.unparse(s.value) != 'starts[myRanks[i] + 1]':
                refuse(s, 'store to _ends')
            stores['ends'] = lambda r: vec['starts']('(%s + 1)' % r)
        elif ttxt == 'self._shape[i]':
            if ast.unparse(s.value) != 'self._ends[i] - self._starts[i]':
                refuse(s, 'store to _shape')
            stores['shape'] = lambda r: '(%s - %s)' % (vec['starts']('(%s + 1)' % r), vec['starts'](r))
        elif ttxt == 'self._max_shape[i]':
            stores['max_shape'] = (lambda v: (lambda r: ex(v, None)))(s.value)
            ex(s.value, None)
        else:
            refuse(s, 'assignment to `%s`' % ttxt)
    need = {'mpi_starts', 'mpi_lengths', 'starts', 'ends', 'shape', 'max_shape'}
    if set(stores) != need:
        refuse(loop, 'the loop no longer stores exactly %s (found %s)' % (sorted(need), sorted(stores)))
    out = ('/-\nGENERATED by harness/translate_pure.py from %s (sha256 %s), Layout.__init__ lines %d-%d — do not edit.\n'
           'For one process axis with `nRanks` processes over a dimension of `n` points; `r` is a rank (or nRanks for the end of\n'
           'the last block).  `//`,`%%` on naturals (nRanks ≥ 1 in every use).  Core Lean only.\n-/\n'
           'set_option linter.unusedVariables false\nnamespace PygyroVerif.Gen.Blocks\n\n' % (rel, hashlib.sha256(src.encode()).hexdigest()[:16], loop.lineno,
                                                      loop.end_lineno))
    doc = {'mpi_starts': 'self._mpi_starts[i][r]', 'mpi_lengths': 'self._mpi_lengths[i][r]',
           'starts': 'self._starts[i] for myRanks[i] = r', 'ends': 'self._ends[i] for myRanks[i] = r',
           'shape': 'self._shape[i] for myRanks[i] = r', 'max_shape': 'self._max_shape[i]'}
    for k in ['mpi_starts', 'mpi_lengths', 'starts', 'ends', 'shape', 'max_shape']:
        out += '/-- `%s` -/\ndef %s (n nRanks r : Nat) : Nat := %s\n\n' % (doc[k], k, stores[k]('r'))
    out += 'end PygyroVerif.Gen.Blocks\n'
    return out


# =====================================================================================================================
# part 3: the buffer-rotation state machine of Grid (grid.py: setLayout / saveGridValues / freeGridSave / restoreGridValues)

def translate_grid(repo):
    """Every statement of the four methods must match one of the shapes below; the statements are emitted IN SOURCE ORDER as
    successive updates of a state record, so that a reordering or a changed operand changes the generated function."""
    import re
    rel = 'pygyro/model/grid.py'
    src = open(os.path.join(repo, rel)).read()
    tree = ast.parse(src)

    def refuse(node, why):
        raise Refuse(node, why, rel)

    cls = [n for n in tree.body if isinstance(n, ast.ClassDef) and n.name == 'Grid']
    if len(cls) != 1:
        refuse(tree, 'class Grid not found')
    meth = {n.name: n for n in cls[0].body if isinstance(n, ast.FunctionDef)}
    for m in ('__init__', 'setLayout', 'saveGridValues', 'freeGridSave', 'restoreGridValues', 'getAllData'):
        if m not in meth:
            refuse(cls[0], 'method %s not found' % m)
    IDX = {'data': 'dataIdx', 'buff': 'buffIdx', 'save': 'saveIdx'}
    TR = re.compile(r'^self\._layout_manager\.transpose\(self\._my_data\[self\._(data|buff|save)Idx\], '
                    r'self\._my_data\[self\._(data|buff|save)Idx\], self\._current_layout_name, new_layout'
                    r'(?:, self\._my_data\[self\._(data|buff|save)Idx\])?\)$')
    VIEW = 'self._f = np.split(self._my_data[self._dataIdx], [self._layout.size])[0].reshape(self._layout.shape)'

    def stmt(s, lines, ind):
        pad = '  ' * ind
        txt = ast.unparse(s)
        if isinstance(s, ast.Expr) and isinstance(s.value, ast.Constant) and isinstance(s.value.value, str):
            return
        if txt == 'assert self.hasSaveMemory':
            lines.append(pad + 'if !s.g.hasSave then none else')
            return
        if txt == 'assert self.notSaved':
            lines.append(pad + 'if !s.g.notSaved then none else')
            return
        if txt == 'assert not self.notSaved':
            lines.append(pad + 'if s.g.notSaved then none else')
            return
        m = TR.match(txt)
        if m:
            a, b, c = m.groups()
            buf = '(some s.g.%s)' % IDX[c] if c else 'none'
            lines.append(pad + 'let s : St := { s with g := { s.g with cells := transposeCells s.g.cells s.g.%s s.g.%s %s l } }'
                         % (IDX[a], IDX[b], buf))
            return
        if isinstance(s, ast.Assign) and len(s.targets) == 1 and isinstance(s.targets[0], ast.Tuple):
            m2 = re.match(r'^self\._(data|buff|save)Idx, self\._(data|buff|save)Idx = \(self\._(data|buff|save)Idx, self\._(data|buff|save)Idx\)$', txt)
            if not m2:
                refuse(s, 'tuple assignment `%s`' % txt)
            t1, t2, v1, v2 = m2.groups()
            if t1 == t2:
                refuse(s, 'tuple assignment to the same name twice')
            lines.append(pad + 'let s : St := { s with g := { s.g with %s := s.g.%s, %s := s.g.%s } }' % (IDX[t1], IDX[v1], IDX[t2], IDX[v2]))
            return
        if txt == 'self._layout = self._layout_manager.getLayout(new_layout)':
            lines.append(pad + 'let s : St := { s with layoutName := l }')
            return
        if txt == 'self._layout = self._layout_manager.getLayout(self._current_layout_name)':
            lines.append(pad + 'let s : St := { s with layoutName := s.g.current }')
            return
        if txt == VIEW:
            lines.append(pad + 'let s : St := { s with fBuf := s.g.dataIdx, fLayout := s.layoutName }')
            return
        if txt == 'self._current_layout_name = new_layout':
            lines.append(pad + 'let s : St := { s with g := { s.g with current := l } }')
            return
        if txt == 'self._current_layout_name = self._savedLayout':
            lines.append(pad + 'let s : St := { s with g := { s.g with current := s.g.savedLayout } }')
            return
        if txt == 'self._my_data[self._saveIdx][:self._layout.size] = self._f[:].flatten()':
            # the first `_layout.size` entries of the save block receive the values seen through `_f`; if `_f` does not view
            # the layout `_layout` names, the sizes differ and the copy raises or is partial: modelled as garbage
            lines.append(pad + 'let s : St := { s with g := { s.g with cells := s.g.cells.set s.g.saveIdx '
                               '(if s.fLayout = s.layoutName then viewCell s else .garbage) } }')
            return
        if txt == 'self._savedLayout = self._current_layout_name':
            lines.append(pad + 'let s : St := { s with g := { s.g with savedLayout := s.g.current } }')
            return
        if txt in ('self.notSaved = True', 'self.notSaved = False'):
            lines.append(pad + 'let s : St := { s with g := { s.g with notSaved := %s } }' % ('true' if txt.endswith('True') else 'false'))
            return
        if isinstance(s, ast.If):
            if ast.unparse(s.test) != 'self.hasSaveMemory and self.notSaved':
                refuse(s, 'condition `%s`' % ast.unparse(s.test))
            lines.append(pad + 'let s : St := if s.g.hasSave && s.g.notSaved then')
            sub = []
            for t in s.body:
                stmt(t, sub, ind + 2)
            lines.extend(sub)
            lines.append(pad + '    s')
            lines.append(pad + '  else')
            sub = []
            for t in s.orelse:
                stmt(t, sub, ind + 2)
            lines.extend(sub)
            lines.append(pad + '    s')
            return
        refuse(s, 'statement `%s` is outside the recognised shapes' % txt[:120])

    def method(name):
        lines = []
        mutated = False
        for t in meth[name].body:
            if isinstance(t, ast.Assert):
                if mutated:
                    # `assert` is translated as a refusal that leaves the state unchanged: only sound before any update
                    refuse(t, 'assert after a state-changing statement in %s (a refused call would leave side effects)' % name)
            elif not (isinstance(t, ast.Expr) and isinstance(t.value, ast.Constant)):
                mutated = True
            stmt(t, lines, 1)
        return '\n'.join(lines + ['  some s'])

    # __init__: the index triple, the flag, the view
    init_txt = [ast.unparse(t) for t in meth['__init__'].body]
    for need in ('self._dataIdx = 0', 'self._buffIdx = 1', 'self._saveIdx = 2', 'self._current_layout_name = chosenLayout',
                 'self._layout = layouts.getLayout(chosenLayout)', VIEW):
        if need not in init_txt:
            refuse(meth['__init__'], '__init__ no longer contains `%s`' % need)
    if init_txt.index(VIEW) < max(init_txt.index('self._dataIdx = 0'), init_txt.index('self._layout = layouts.getLayout(chosenLayout)')):
        refuse(meth['__init__'], 'the view is taken before the index / layout are set')
    has = [t for t in meth['__init__'].body if isinstance(t, ast.If) and ast.unparse(t.test) == 'self.hasSaveMemory']
    if len(has) != 1 or 'self.notSaved = True' not in [ast.unparse(x) for x in has[0].body]:
        refuse(meth['__init__'], 'the `if self.hasSaveMemory:` block that sets notSaved = True was not found')
    nb = [len(x.value.elts) for blk in (has[0].body, has[0].orelse) for x in blk
          if isinstance(x, ast.Assign) and ast.unparse(x.targets[0]) == 'self._my_data' and isinstance(x.value, ast.List)]
    if nb != [3, 2]:
        refuse(meth['__init__'], 'expected 3 memory blocks with save memory and 2 without, found %s' % nb)
    if [ast.unparse(t) for t in meth['getAllData'].body if not (isinstance(t, ast.Expr) and isinstance(t.value, ast.Constant))] != ['return self._f']:
        refuse(meth['getAllData'], 'getAllData no longer returns self._f')
    out = ('/-\nGENERATED by harness/translate_pure.py from %s (sha256 %s) — do not edit.\n'
           'The statements of Grid.setLayout / saveGridValues / freeGridSave / restoreGridValues in SOURCE ORDER, as successive updates of\n'
           'the state `St` = the index/flag state `GState` of Model/GridSM.lean + which layout object `self._layout` is (`layoutName`) and which\n'
           'block / layout the view `self._f` shows (`fBuf`, `fLayout`).  `assert` = refusal (`none`).  The layout manager enters through\n'
           'its contract `transposeCells`.  Core Lean only.\n-/\nimport PygyroVerif.Model.GridSM\n\n'
           'namespace PygyroVerif.Gen.Grid\nopen PygyroVerif.GridSM\n\n'
           'structure St where\n  g : GState\n  layoutName : Nat\n  fBuf : Nat\n  fLayout : Nat\nderiving Repr, DecidableEq\n\n'
           '/-- what is seen through `self._f`: the block it views, if that block holds a field in the layout whose shape the view uses -/\n'
           'def viewCell (s : St) : Cell :=\n  match s.g.cells.getD s.fBuf .garbage with\n  | .holds f lay => if lay = s.fLayout then .holds f lay else .garbage\n  | .garbage => .garbage\n\n'
           '/-- `Grid.__init__` (%s:%d) followed by the user filling the grid with field `f` -/\n'
           'def init (hasSave : Bool) (layout f : Nat) : St :=\n  { g := GridSM.init hasSave layout f, layoutName := layout, fBuf := 0, fLayout := layout }\n\n'
           % (rel, hashlib.sha256(src.encode()).hexdigest()[:16], rel, meth['__init__'].lineno))
    out += '/-- `Grid.setLayout(new_layout)` (%s:%d) -/\ndef setLayout (s : St) (l : Nat) : Option St :=\n%s\n\n' % (rel, meth['setLayout'].lineno, method('setLayout'))
    for name in ('saveGridValues', 'freeGridSave', 'restoreGridValues'):
        out += '/-- `Grid.%s()` (%s:%d) -/\ndef %s (s : St) : Option St :=\n%s\n\n' % (name, rel, meth[name].lineno, name, method(name))
    out += ('/-- the user overwrites the values through `getAllData()` (= `self._f`) -/\n'
            'def write (s : St) (v : Nat) : Option St :=\n  some { s with g := { s.g with cells := s.g.cells.set s.fBuf (.holds v s.fLayout) } }\n\n'
            'def step (s : St) : Op → Option St\n  | .setLayout l => setLayout s l\n  | .write v => write s v\n  | .save => saveGridValues s\n'
            '  | .free => freeGridSave s\n  | .restore => restoreGridValues s\n\nend PygyroVerif.Gen.Grid\n')
    return out


def translate_find_span(repo):
    """pygyro/splines/spline_eval_funcs.py: `nu_find_span` only (the other kernels write into arrays)"""
    rel = 'pygyro/splines/spline_eval_funcs.py'
    src = open(os.path.join(repo, rel)).read()
    tree = ast.parse(src)
    fns = [n for n in tree.body if isinstance(n, ast.FunctionDef) and n.name == 'nu_find_span']
    if len(fns) != 1:
        raise Refuse(tree, 'nu_find_span not found', rel)
    tr = FuncTranslator(rel, 'PygyroVerif.Gen.FindSpan', allow_sub=True)
    tr.all_loops = []
    body = tr.function(fns[0])
    fsrc = ast.get_source_segment(src, fns[0]) or ''
    head = ('/-\nGENERATED by harness/translate_pure.py from %s, function nu_find_span (sha256 of its source %s) — do not edit.\n'
            'Shallow embedding: the `while` is a fuel-recursive function over the record `St` of all locals; the float array `knots` is read\n'
            'through `Nat → Rat` with its length in `knots_len`; floats are exact rationals (only comparisons are made); `-` on naturals is\n'
            'truncated subtraction (`len(knots)-1-degree` underflows in Python only for arrays shorter than degree+1).  Core Lean only.\n-/\n'
            'namespace PygyroVerif.Gen.FindSpan\n\n'
            '/-- outcome of a call: `return`, `raise`, or the model artefact `outOfFuel` -/\n'
            'inductive Out where\n  | ret (v : List Nat)\n  | raised (exc : String)\n  | outOfFuel\nderiving Repr, DecidableEq\n\n'
            '/-- outcome of a loop: left normally with state `s` (also by `break`), or the call is over -/\n'
            'inductive Res (α : Type) where\n  | ok (s : α)\n  | done (o : Out)\n\n'
            % (rel, hashlib.sha256(fsrc.encode()).hexdigest()[:16]))
    return head + body + '\nend PygyroVerif.Gen.FindSpan\n'


# =====================================================================================================================
# part 4: the general (non-uniform) spline kernels: float arrays that are written, `for ... in range`, calls between kernels

ARR_TYPES = {'Nat → Rat': 1, 'Nat → Nat → Rat': 2, 'Nat → Nat → Nat → Rat': 3, 'Nat → Nat → Nat → Nat → Rat': 4}
ARR_OF_DIM = {v: k for k, v in ARR_TYPES.items()}
ARR_ANN = {'float[:]': 1, 'float[:,:]': 2, 'float[:,:,:]': 3, 'float[:,:,:,:]': 4}
IDX_NAMES = ('k_', 'l_', 'm_', 'n_')


def split_top(txt):
    """split at the commas that are not inside brackets"""
    out, depth, cur = [], 0, ''
    for ch in txt:
        if ch in '([':
            depth += 1
        elif ch in ')]':
            depth -= 1
        if ch == ',' and depth == 0:
            out.append(cur.strip())
            cur = ''
        else:
            cur += ch
    if cur.strip():
        out.append(cur.strip())
    return out


class ArrayFuncTranslator(FuncTranslator):
    """FuncTranslator + writes to float arrays (`a[i] = v` is a functional update of `Nat → Rat`), `for v in range(..)` (a
    structurally recursive function over the number of iterations left), local arrays `a = empty(n)` (contents = the parameter `U`,
    'whatever the memory holds'), float literals, unary minus and `-` on floats, calls of earlier kernels (as a statement or as
    `v = f(..)`; array arguments are passed by reference: written arrays are copied back from the callee's final state).
    The outcome of a call carries the final record of locals: `.ret σ` (`σ.ret_` is the returned value, if any).

    Further constructs (targets cueval / vpar / flux):
      * 2-D / 3-D float arrays `float[:,:]`, `float[:,:,:]` = `Nat → Nat → Rat`, `Nat → Nat → Nat → Rat`, read and written with a full
        index tuple `a[i, j]`; augmented assignment to an array element `a[i] += v` = `a[i] = a[i] + v`;
      * `for i, v in enumerate(a)` over a 1-D float array (`len(a)` iterations, `v = a[i]` read at the start of each iteration);
      * uninterpreted PURE float/int functions: a parameter with a pyccel function-type annotation whose array arguments are all
        `Final`, or a module-level name in `externals` (a `@pure` function of another module): they are fields of the record of
        locals and leading parameters of `run`; a call is an application;
      * with `int_type='Int'` every `int` parameter is a Lean `Int`; `int(q)` of a float is `pyInt q` (truncation toward zero);
        locals that receive such values are `Int`; an `Int` used as an array index or a loop bound is `Int.toNat`;
      * tuple assignment `a, b = e1, e2` (simultaneous), tuple returns `return e1, e2` (fields `ret0_`, `ret1_`, types inferred when
        there is no annotation) and `a, b = f(..)` for an earlier kernel `f` that returns a tuple.

    Further constructs (targets density / evalvec / polexpl):
      * 4-D float arrays; `n, m, p = a.shape`, `nc, = a.shape`, `a.shape[k]` (literal k): the extents of a parameter array are the extra
        parameters `a_len0`, `a_len1`, … of `run` (1-D: `a_len`); a parameter annotated with a module-level `TypeVar` whose constraints are
        the float and the complex128 array of the same dimensions: the REAL instance (`typevars`, set by kernel_functions);
      * numeric default values of parameters (they concern callers only);
      * with `procedures = True`: `bool` parameters (`if (b):` tests `b = true`); `a % b` on floats = `pyMod a b`; `from numpy import pi` at the
        top of the body (`pi` a leading parameter); function parameters with `Final[float[:,:]]` arguments (passed as contents and the two
        extents) and procedure parameters `()(…)` with exactly one non-Final `float[:,:]` argument: the statement `g(args)` is
        `that array := g(args)` with `g` an uninterpreted function of ALL arguments (assumption: no hidden state, no other effect)."""

    DECORATORS = ('pure', 'stack_array')

    def __init__(self, fname, namespace, int_type='Nat', externals=None):
        super().__init__(fname, namespace, allow_sub=True)
        self.sigs = {}            # function name -> (list of (param, type), return type or None)
        self.final = set()
        self.ret_type = None
        self.all_loops = []
        self.int_type = int_type
        self.externals = dict(externals or {})   # module-level pure functions: name -> (argument types, return type)
        self.ext = {}                            # the uninterpreted functions of the function being translated
        self.int_builtin = False                 # is `int` the builtin in this module? (set by kernel_functions)
        self.typevars = {}                       # module-level TypeVar name -> the array annotation of its REAL instance (kernel_functions)
        self.shaped = set()                      # arrays of 2 or more dimensions whose `.shape` the function reads
        self.procedures = False                  # function parameters `()(…)` that write one array, 2-D array arguments, `bool` parameters,
        #                                          `from numpy import pi` in the body, `%` on floats (target polexpl)
        self.slices = False                      # `a = empty((n, m))`, `a[:, :] = b[lo:hi, lo2:hi2]` (target eval2d), `a[:] = (b + s) % c` (lagvals)
        self.int_arrays = False                  # `int[:]` parameters (read only), `for j, s in enumerate(<int array>)`, `(i - s) % n` on a possibly
        #                                          negative integer with a natural-number modulus, `empty_like`, unused function parameters (lagvals)
        self.unused_params = []                  # function-typed parameters outside the subset that the body never mentions (int_arrays only)
        self.if_state = False                    # an `if` whose branches only assign (names, array elements; nested such `if`s) is the state
        #                                          transformer `let σ := if c then … else …`: the statements after it are NOT copied into the branches;
        #                                          `from numpy import pi, abs`, `abs(x)` of a float = `pyAbs x` (target polimpl)
        self.tree = None                         # the module (set by kernel_functions)

    # ---- typing -----------------------------------------------------------------------------------------------
    def fun_annotation(self, a, ann):
        """pyccel function type `(ret)(arg, ...)` of a parameter -> (argument types, return type); the function must be pure for the
        translation as an uninterpreted function to be sound: every array argument `Final`, a scalar result"""
        import re
        m = re.match(r'^\((\w*)\)\((.*)\)$', ann)
        if not m:
            return None
        base = {'int': self.int_type, 'float': 'Rat'}
        if m.group(1) not in base and not (m.group(1) == '' and self.procedures):
            self.refuse(a, 'function parameter %s must return int or float' % a.arg)
        args, outs = [], []
        for t in split_top(m.group(2)):
            if t in base:
                args.append(base[t])
            elif t == 'Final[float[:]]':
                args.append('Nat → Rat')
            elif self.procedures and t == 'Final[float[:,:]]':
                args.append('Nat → Nat → Rat')
            elif self.procedures and m.group(1) == '' and t == 'float[:,:]':
                args.append('out:Nat → Nat → Rat')          # the array the procedure writes
                outs.append(t)
            else:
                self.refuse(a, 'function parameter %s: argument type %s (only int, float, Final[float[:]]%s)' % (
                    a.arg, t, ', Final[float[:,:]], and one float[:,:] of a procedure' if self.procedures else ''))
        if m.group(1) == '':
            # a procedure `()(…)`: exactly one array argument that is not Final; the call is modelled as `that array := g(all arguments)`
            if len(outs) != 1:
                self.refuse(a, 'procedure parameter %s must have exactly one array argument that is not Final' % a.arg)
            return args, 'Nat → Nat → Rat'
        return args, base[m.group(1)]

    def lean_type(self, v, types):
        if types[v] != 'ext':
            return types[v]
        args, ret = self.ext[v]
        as_arg = {'Nat → Rat': '(Nat → Rat) → Nat', 'Nat → Nat → Rat': '(Nat → Nat → Rat) → Nat → Nat',
                  'out:Nat → Nat → Rat': '(Nat → Nat → Rat) → Nat → Nat'}
        return ' → '.join([as_arg.get(t, t) for t in args] + [ret])

    def lean_default(self, v, types):
        if types[v] == 'ext':
            n = sum(2 if t == 'Nat → Rat' else (3 if t.endswith('Nat → Nat → Rat') else 1) for t in self.ext[v][0])
            return 'fun %s=> 0' % ('_ ' * (n + ARR_TYPES.get(self.ext[v][1], 0)))
        if types[v] == 'Bool':
            return 'false'
        if types[v] in ARR_TYPES:
            return 'fun %s=> 0' % ('_ ' * ARR_TYPES[types[v]])
        if types[v] == 'Nat → Int':
            return 'fun _ => 0'
        return '0'

    def infer_types(self, fn):
        types, params, self.final, self.ext, self.shaped = {}, [], set(), {}, set()
        self.unused_params, self.numpy_empty_like, self.numpy_abs = [], False, False
        # `a.shape` of a parameter array: its extents are extra parameters `a_len0`, `a_len1`, … (1-D: `a_len`, as for `len(a)`)
        shaped = {n.value.id for n in ast.walk(fn) if isinstance(n, ast.Attribute) and n.attr == 'shape' and isinstance(n.value, ast.Name)}
        if self.procedures:
            # an array of 2 dimensions handed to a function parameter is passed as (contents, extent 0, extent 1)
            fparams = {a.arg for a in fn.args.args if isinstance(a.annotation, ast.Constant) and isinstance(a.annotation.value, str)
                       and a.annotation.value.startswith('(')}
            shaped |= {x.id for n in ast.walk(fn) if isinstance(n, ast.Call) and isinstance(n.func, ast.Name) and n.func.id in fparams
                       for x in n.args if isinstance(x, ast.Name)}
            for n in ast.walk(fn):
                if isinstance(n, (ast.Import, ast.ImportFrom)):
                    names = [x.name for x in n.names] if isinstance(n, ast.ImportFrom) else []
                    if self.int_arrays and names == ['pi', 'empty_like'] and n in fn.body and n.module == 'numpy' and n.level == 0 \
                            and all(x.asname is None for x in n.names) and 'pi' not in types:
                        # `empty_like` must be numpy's everywhere in the module: every binding of the name is such an import
                        if self.tree is None or any(not (isinstance(b, ast.ImportFrom) and b.module == 'numpy' and b.level == 0
                                                         and al.name == 'empty_like') for b, al in module_bindings(self.tree, 'empty_like')):
                            self.refuse(n, '`empty_like` is not numpy.empty_like everywhere in the module')
                        self.numpy_empty_like = True
                    elif self.if_state and names == ['pi', 'abs'] and n in fn.body and n.module == 'numpy' and n.level == 0 \
                            and all(x.asname is None for x in n.names) and 'pi' not in types:
                        # `abs` must be numpy's (or the builtin: the same value on a float) everywhere in the module
                        if self.tree is None or any(not (isinstance(b, ast.ImportFrom) and b.module == 'numpy' and b.level == 0
                                                         and al.name == 'abs') for b, al in module_bindings(self.tree, 'abs')):
                            self.refuse(n, '`abs` is re-bound to something that is not numpy.abs somewhere in the module')
                        self.numpy_abs = True
                    elif not (isinstance(n, ast.ImportFrom) and n in fn.body and n.module == 'numpy' and n.level == 0 and len(n.names) == 1
                              and n.names[0].name == 'pi' and n.names[0].asname is None) or 'pi' in types:
                        self.refuse(n, 'import inside the function (only `from numpy import pi`, once, at the top level of the body)')
                    types['pi'] = 'Rat'            # the constant is a leading parameter of `run`
                    params.append('pi')
        if fn.args.vararg or fn.args.kwarg or fn.args.kwonlyargs or fn.args.posonlyargs:
            self.refuse(fn, 'only plain positional parameters')
        for d in fn.args.defaults:                # a default value concerns callers only: `run` takes every parameter explicitly
            if not (isinstance(d, ast.Constant) and type(d.value) in (int, float)):
                self.refuse(d, 'default value of a parameter that is not a number')
        for d in fn.decorator_list:
            name = d.id if isinstance(d, ast.Name) else (d.func.id if isinstance(d, ast.Call) and isinstance(d.func, ast.Name) else None)
            if name not in self.DECORATORS:
                self.refuse(d, 'decorator outside the subset')
        used = {n.func.id for n in ast.walk(fn) if isinstance(n, ast.Call) and isinstance(n.func, ast.Name)}
        for name in self.externals:               # module-level pure functions the body calls: leading parameters
            if name in used:
                types[name] = 'ext'
                self.ext[name] = self.externals[name]
                params.append(name)
        for a in fn.args.args:
            ann = a.annotation.id if isinstance(a.annotation, ast.Name) else (
                a.annotation.value if isinstance(a.annotation, ast.Constant) and isinstance(a.annotation.value, str) else None)
            if isinstance(a.annotation, ast.Name) and ann in self.typevars:
                ann = self.typevars[ann]          # a constrained TypeVar: the real instance (recorded in the header of the file)
            core = ann[6:-1] if isinstance(ann, str) and ann.startswith('Final[') and ann.endswith(']') else ann
            if a.arg in types:
                self.refuse(a, 'parameter %s has the name of a function the body calls' % a.arg)
            if ann == 'int':
                types[a.arg] = self.int_type
            elif ann == 'float':
                types[a.arg] = 'Rat'
            elif ann == 'bool' and self.procedures:
                types[a.arg] = 'Bool'
            elif core in ARR_ANN:
                types[a.arg] = ARR_OF_DIM[ARR_ANN[core]]
                if ARR_ANN[core] == 1:
                    types[a.arg + '_len'] = 'Nat'
                elif a.arg in shaped:
                    for d_ in range(ARR_ANN[core]):
                        types['%s_len%d' % (a.arg, d_)] = 'Nat'
                    self.shaped.add(a.arg)
                if ann.startswith('Final'):
                    self.final.add(a.arg)
            elif self.int_arrays and core == 'int[:]':
                types[a.arg] = 'Nat → Int'         # read only: element assignment is for float arrays
                types[a.arg + '_len'] = 'Nat'
                self.final.add(a.arg)
            elif self.int_arrays and isinstance(ann, str) and ann.startswith('(') and not any(
                    isinstance(n, ast.Name) and n.id == a.arg for n in ast.walk(fn)):
                # a function parameter the body never mentions: not translated (no field, no parameter of `run`); the header says so
                types[a.arg] = 'unused'
                self.unused_params.append(a.arg)
                continue
            elif isinstance(ann, str) and self.fun_annotation(a, ann):
                types[a.arg] = 'ext'
                self.ext[a.arg] = self.fun_annotation(a, ann)
            else:
                self.refuse(a, 'parameter %s: annotation must be int, float or a 1-D float array' % a.arg)
            params.append(a.arg)
        r = fn.returns
        rann = None if r is None else (r.id if isinstance(r, ast.Name) else (r.value if isinstance(r, ast.Constant) else '?'))
        if rann not in (None, 'int', 'float'):
            self.refuse(fn, 'return annotation must be int or float')
        self.ret_type = {None: None, 'int': self.int_type, 'float': 'Rat'}[rann]
        assigned, order = [], []
        nodes = [n for n in ast.walk(fn) if isinstance(n, (ast.Assign, ast.AugAssign, ast.For))]
        nodes.sort(key=lambda n: (n.lineno, n.col_offset))

        def local(v, n):
            if types.get(v) in ARR_TYPES:
                self.refuse(n, 'array %s re-bound to a value' % v)
            if v in params:
                self.refuse(n, 'assignment to the parameter %s' % v)
            types.setdefault(v, 'Nat')
            order.append(v)

        for n in nodes:
            if isinstance(n, ast.For):
                if self.is_enumerate(n):
                    vi, vv = n.target.elts[0].id, n.target.elts[1].id
                    over = n.iter.args[0].id if len(n.iter.args) == 1 and isinstance(n.iter.args[0], ast.Name) else None
                    vt = 'Int' if types.get(over) == 'Nat → Int' else 'Rat'
                    if vi == vv or vi in params or vv in params or types.setdefault(vi, 'Nat') != 'Nat' \
                            or types.setdefault(vv, vt) != vt:
                        self.refuse(n, 'loop variables of enumerate: two fresh names, an integer and a %s' % ('float' if vt == 'Rat' else 'second integer'))
                    order += [vi, vv]
                    continue
                if not isinstance(n.target, ast.Name):
                    self.refuse(n, 'the loop variable must be a plain name')
                v = n.target.id
                if types.setdefault(v, 'Nat') != 'Nat' or v in params:
                    self.refuse(n, 'loop variable %s is also a parameter or a non-integer' % v)
                order.append(v)
                continue
            if isinstance(n, ast.Assign) and len(n.targets) != 1:
                self.refuse(n, 'chained assignment')
            tg = n.targets[0] if isinstance(n, ast.Assign) else n.target
            if isinstance(tg, ast.Subscript):
                continue                                    # checked where the statement is translated
            if isinstance(tg, ast.Tuple) and isinstance(n, ast.Assign) and all(isinstance(x, ast.Name) for x in tg.elts):
                names = [x.id for x in tg.elts]
                if len(set(names)) != len(names):
                    self.refuse(n, 'the same name twice in a tuple target')
                if isinstance(n.value, ast.Tuple) and len(n.value.elts) == len(names):
                    vals = list(n.value.elts)
                elif self.shape_of(n.value, types) is not None:
                    if len(self.shape_of(n.value, types)) != len(names):
                        self.refuse(n, '%s unpacked into %d names' % (ast.unparse(n.value), len(names)))
                    vals = [('ret', 'Nat')] * len(names)
                elif isinstance(n.value, ast.Call) and isinstance(n.value.func, ast.Name) and n.value.func.id in self.sigs \
                        and isinstance(self.sigs[n.value.func.id][1], list) and len(self.sigs[n.value.func.id][1]) == len(names):
                    vals = [('ret', t) for t in self.sigs[n.value.func.id][1]]
                else:
                    self.refuse(n, 'tuple assignment: only from a tuple of the same length or a kernel that returns one')
                for v, val in zip(names, vals):
                    local(v, n)
                    assigned.append((v, val))
                continue
            if not isinstance(tg, ast.Name):
                self.refuse(n, 'only plain names and array elements may be assigned')
            v = tg.id
            if isinstance(n, ast.Assign) and self.is_empty_call(n.value) and self.slices and len(n.value.args) == 1 \
                    and isinstance(n.value.args[0], ast.Tuple) and len(n.value.args[0].elts) == 2:
                # `a = empty((n, m))`: a local 2-D array; its extents are the locals `a_len0`, `a_len1`
                if v in types and types[v] != 'Nat → Nat → Rat' or v in params:
                    self.refuse(n, '%s is both a 2-D array and something else' % v)
                types[v] = 'Nat → Nat → Rat'
                types[v + '_len0'] = types[v + '_len1'] = 'Nat'
                self.shaped.add(v)
                order += [v, v + '_len0', v + '_len1']
                continue
            if isinstance(n, ast.Assign) and self.is_empty_like_call(n.value):
                if v in types and types[v] != 'Nat → Rat' or v in params:
                    self.refuse(n, '%s is both an array and something else' % v)
                types[v] = 'Nat → Rat'
                types[v + '_len'] = 'Nat'
                order += [v, v + '_len']
                continue
            if isinstance(n, ast.Assign) and self.is_empty_call(n.value):
                if v in types and types[v] != 'Nat → Rat' or v in params:
                    self.refuse(n, '%s is both an array and something else' % v)
                types[v] = 'Nat → Rat'
                types[v + '_len'] = 'Nat'
                order += [v, v + '_len']
                continue
            local(v, n)
            assigned.append((v, n.value))
        changed = True
        while changed:
            changed = False
            for v, val in assigned:
                if isinstance(val, tuple):
                    rat, integer = val[1] == 'Rat', val[1] == 'Int'
                else:
                    rat = self.is_rat(val, types)
                    integer = not rat and self.is_int(val, types)
                if types[v] in ('Nat', 'Int') and rat:
                    types[v] = 'Rat'
                    changed = True
                elif types[v] == 'Nat' and integer:
                    types[v] = 'Int'
                    changed = True
        for n in nodes:
            if isinstance(n, ast.For) and not self.is_enumerate(n) and types[n.target.id] != 'Nat':
                self.refuse(n, 'loop variable %s also receives a float' % n.target.id)
            if isinstance(n, ast.For) and self.is_enumerate(n) and types[n.target.elts[0].id] != 'Nat':
                self.refuse(n, 'loop variable %s also receives a float' % n.target.elts[0].id)
        for v in list(types):
            if v.endswith('_') or v in ('U', 'F', 'σ', 'τ', 'pyInt'):
                self.refuse(fn, 'local name %s clashes with the names the translation uses' % v)
        rets = [n for n in ast.walk(fn) if isinstance(n, ast.Return)]
        if any(isinstance(n.value, ast.Tuple) for n in rets):
            if rann is not None or not all(isinstance(n.value, ast.Tuple) and len(n.value.elts) == len(rets[0].value.elts) for n in rets):
                self.refuse(fn, 'tuple returns: every return must give a tuple of the same length, without a return annotation')
            self.ret_type = []
            for k in range(len(rets[0].value.elts)):
                comp = [n.value.elts[k] for n in rets]
                if any(self.is_rat(c, types) for c in comp):
                    self.ret_type.append('Rat')
                elif self.int_type == 'Int' or any(self.is_int(c, types) for c in comp):
                    self.ret_type.append('Int')
                else:
                    self.ret_type.append('Nat')
        params = [q for p_ in params for q in ([p_, p_ + '_len'] if types[p_] in ('Nat → Rat', 'Nat → Int') else (
            [p_] + ['%s_len%d' % (p_, d_) for d_ in range(ARR_TYPES[types[p_]])] if p_ in self.shaped else [p_]))]
        seen, ordered = set(), []
        for v in params + order:
            if v not in seen:
                seen.add(v)
                ordered.append(v)
        if isinstance(self.ret_type, list):
            for k, t in enumerate(self.ret_type):
                types['ret%d_' % k] = t
                ordered.append('ret%d_' % k)
        elif self.ret_type:
            types['ret_'] = self.ret_type
            ordered.append('ret_')
        return params, ordered, types

    def shape_of(self, e, types):
        """`a.shape` of an array whose extents are known to the translation -> the Lean fields holding them (else None)"""
        if not (isinstance(e, ast.Attribute) and e.attr == 'shape' and isinstance(e.value, ast.Name)):
            return None
        a = e.value.id
        if types.get(a) == 'Nat → Rat':
            return ['%s_len' % a]
        if a in self.shaped:
            return ['%s_len%d' % (a, d_) for d_ in range(ARR_TYPES[types[a]])]
        return None

    def is_empty_call(self, e):
        return isinstance(e, ast.Call) and isinstance(e.func, ast.Name) and e.func.id == 'empty'

    def is_empty_like_call(self, e):
        return self.int_arrays and isinstance(e, ast.Call) and isinstance(e.func, ast.Name) and e.func.id == 'empty_like'

    def is_enumerate(self, n):
        it = n.iter
        return (isinstance(it, ast.Call) and isinstance(it.func, ast.Name) and it.func.id == 'enumerate' and isinstance(n.target, ast.Tuple)
                and len(n.target.elts) == 2 and all(isinstance(x, ast.Name) for x in n.target.elts))

    def is_rat(self, e, types):
        """does the expression denote a float?  (does not look inside calls and index expressions)"""
        if isinstance(e, ast.Constant):
            return isinstance(e.value, float)
        if isinstance(e, ast.Name):
            return types.get(e.id) == 'Rat'
        if isinstance(e, ast.Subscript):
            return isinstance(e.value, ast.Name) and types.get(e.value.id) in ARR_TYPES
        if isinstance(e, ast.Call):
            if isinstance(e.func, ast.Name) and e.func.id in ('min', 'max'):
                return any(self.is_rat(a, types) for a in e.args)
            if self.if_state and isinstance(e.func, ast.Name) and e.func.id == 'abs' and 'abs' not in types and len(e.args) == 1:
                return self.is_rat(e.args[0], types)
            if isinstance(e.func, ast.Name) and types.get(e.func.id) == 'ext':
                return self.ext[e.func.id][1] == 'Rat'
            return isinstance(e.func, ast.Name) and self.sigs.get(e.func.id, (None, None))[1] == 'Rat'
        if isinstance(e, ast.BinOp):
            return isinstance(e.op, ast.Div) or self.is_rat(e.left, types) or self.is_rat(e.right, types)
        if isinstance(e, ast.UnaryOp):
            return self.is_rat(e.operand, types)
        return False

    def is_int(self, e, types):
        """does the expression denote a (possibly negative) integer that is translated as a Lean `Int`?"""
        if self.is_rat(e, types):
            return False
        if isinstance(e, ast.Name):
            return types.get(e.id) == 'Int'
        if isinstance(e, ast.Subscript):
            return isinstance(e.value, ast.Name) and types.get(e.value.id) == 'Nat → Int'
        if isinstance(e, ast.Call) and isinstance(e.func, ast.Name):
            if e.func.id == 'int' and 'int' not in types:
                return True
            if e.func.id in ('min', 'max'):
                return any(self.is_int(a, types) for a in e.args)
            if types.get(e.func.id) == 'ext':
                return self.ext[e.func.id][1] == 'Int'
            return self.sigs.get(e.func.id, (None, None))[1] == 'Int'
        if isinstance(e, ast.BinOp):
            return self.is_int(e.left, types) or self.is_int(e.right, types)
        if isinstance(e, ast.UnaryOp):
            return self.is_int(e.operand, types)
        return False

    def int_kind(self, e, types):
        return 'Int' if self.is_int(e.left, types) or self.is_int(e.comparators[0], types) else 'Nat'

    def cond(self, e, types):
        if isinstance(e, ast.Name) and types.get(e.id) == 'Bool':
            return '(σ.%s = true)' % e.id
        return super().cond(e, types)

    # ---- expressions ------------------------------------------------------------------------------------------
    def expr_int(self, e, types):
        """Lean text of an integer-valued expression at type `Int`"""
        if self.is_rat(e, types):
            self.refuse(e, 'float used where an integer is needed')
        if isinstance(e, ast.Constant) and isinstance(e.value, int) and not isinstance(e.value, bool) and e.value >= 0:
            return '(%d : Int)' % e.value
        if isinstance(e, ast.Name) and types.get(e.id) == 'Int':
            return 'σ.%s' % e.id
        if isinstance(e, ast.Name) and types.get(e.id) == 'Nat':
            return '(σ.%s : Int)' % e.id
        if isinstance(e, ast.Call) and isinstance(e.func, ast.Name) and e.func.id == 'int' and 'int' not in types:
            if not self.int_builtin:
                self.refuse(e, '`int` is not the builtin here')
            if len(e.args) != 1 or e.keywords or not self.is_rat(e.args[0], types):
                self.refuse(e, 'int(x) with one float argument only')
            return '(pyInt %s)' % self.expr(e.args[0], types, 'Rat')
        if isinstance(e, ast.BinOp) and type(e.op) in (ast.Add, ast.Sub, ast.Mult):
            op = {ast.Add: '+', ast.Sub: '-', ast.Mult: '*'}[type(e.op)]
            return '(%s %s %s)' % (self.expr_int(e.left, types), op, self.expr_int(e.right, types))
        if isinstance(e, ast.Subscript) and isinstance(e.value, ast.Name) and types.get(e.value.id) == 'Nat → Int':
            return '(σ.%s %s)' % (e.value.id, self.expr(e.slice, types, 'Nat'))
        if self.int_arrays and isinstance(e, ast.BinOp) and isinstance(e.op, ast.Mod) and self.is_int(e.left, types) \
                and not self.is_int(e.right, types) and not self.is_rat(e.right, types):
            # `a % n` with `a` possibly negative and `n` a natural number: Python's result for n > 0 is the NON-NEGATIVE remainder, which is
            # Lean's `%` on `Int` (`Int.emod`); n = 0 raises ZeroDivisionError in Python and gives `a` here (the theorems state 0 < n)
            return '(%s %% %s)' % (self.expr_int(e.left, types), self.expr_int(e.right, types))
        if isinstance(e, ast.BinOp) and type(e.op) in (ast.FloorDiv, ast.Mod) and self.is_int(e, types):
            self.refuse(e, '// or % on an integer that may be negative')
        if isinstance(e, ast.UnaryOp) and isinstance(e.op, ast.USub):
            return '(-%s)' % self.expr_int(e.operand, types)
        if isinstance(e, ast.Call) and isinstance(e.func, ast.Name) and e.func.id in ('min', 'max') and len(e.args) == 2 and not e.keywords:
            return '(%s %s %s)' % (e.func.id, self.expr_int(e.args[0], types), self.expr_int(e.args[1], types))
        if self.is_int(e, types):
            self.refuse(e, 'integer expression %s is outside the subset' % type(e).__name__)
        return '((%s : Nat) : Int)' % self.expr(e, types, 'Nat')

    def expr(self, e, types, want):
        if want == 'Int':
            return self.expr_int(e, types)
        if self.is_int(e, types):
            if want == 'Rat':
                return '((%s : Int) : Rat)' % self.expr_int(e, types)
            return '(Int.toNat %s)' % self.expr_int(e, types)          # an index or a loop bound
        if isinstance(e, ast.Constant) and isinstance(e.value, float):
            import fractions
            import math
            if want != 'Rat':
                self.refuse(e, 'float literal used as an integer')
            if not math.isfinite(e.value) or e.value < 0:
                self.refuse(e, 'float literal outside the subset')
            q = fractions.Fraction(e.value)              # the exact value of the binary64 literal
            return '(%d : Rat)' % q.numerator if q.denominator == 1 else '((%d : Rat) / (%d : Rat))' % (q.numerator, q.denominator)
        if isinstance(e, ast.UnaryOp) and isinstance(e.op, ast.USub):
            if want != 'Rat' or not self.is_rat(e.operand, types):
                self.refuse(e, 'unary minus on an integer')
            return '(-%s)' % self.expr(e.operand, types, 'Rat')
        if isinstance(e, ast.BinOp) and isinstance(e.op, ast.Sub) and want == 'Nat' and self.is_rat(e, types):
            self.refuse(e, 'float used where an integer is needed')
        if isinstance(e, ast.Name) and types.get(e.id) in ARR_TYPES:
            self.refuse(e, 'array %s used as a number' % e.id)
        if isinstance(e, ast.Name) and types.get(e.id) == 'ext':
            self.refuse(e, 'function %s used as a number' % e.id)
        if isinstance(e, ast.Subscript) and isinstance(e.value, ast.Name) and ARR_TYPES.get(types.get(e.value.id), 0) >= 2:
            if want != 'Rat':
                self.refuse(e, 'array element used as an integer')
            return '(σ.%s %s)' % (e.value.id, ' '.join(self.index(e, types)))
        if isinstance(e, ast.Subscript) and self.shape_of(e.value, types) is not None:
            # `a.shape[k]` with a literal k: an extent parameter
            flds = self.shape_of(e.value, types)
            if not (isinstance(e.slice, ast.Constant) and type(e.slice.value) is int and 0 <= e.slice.value < len(flds)):
                self.refuse(e, '%s indexed by something that is not a literal below the number of dimensions' % ast.unparse(e.value))
            return 'σ.%s' % flds[e.slice.value] if want == 'Nat' else '(σ.%s : %s)' % (flds[e.slice.value], want)
        if isinstance(e, ast.BinOp) and isinstance(e.op, ast.Mod) and want == 'Rat' and self.is_rat(e, types):
            if not self.procedures:
                self.refuse(e, '// or % on a float')
            # Python's `a % b` on floats: a - b*floor(a/b) (the sign of the divisor); `pyMod` is defined in the generated file
            return '(pyMod %s %s)' % (self.expr(e.left, types, 'Rat'), self.expr(e.right, types, 'Rat'))
        if self.if_state and isinstance(e, ast.Call) and isinstance(e.func, ast.Name) and e.func.id == 'abs' and 'abs' not in types:
            # `abs(x)` of a float (numpy.abs imported in the body; the builtin gives the same value): `pyAbs x`, defined in the generated file
            if not self.numpy_abs or len(e.args) != 1 or e.keywords or not self.is_rat(e.args[0], types) or want != 'Rat':
                self.refuse(e, 'abs(x) with one float argument only, after `from numpy import pi, abs` in the body')
            return '(pyAbs %s)' % self.expr(e.args[0], types, 'Rat')
        if isinstance(e, ast.Call) and isinstance(e.func, ast.Name) and types.get(e.func.id) == 'ext':
            argt, ret = self.ext[e.func.id]
            if ret in ARR_TYPES and want != 'proc':
                self.refuse(e, 'the procedure %s used as a value' % e.func.id)
            if e.keywords or len(e.args) != len(argt):
                self.refuse(e, 'call of %s: positional arguments, as many as its type says' % e.func.id)
            parts = []
            for a, t in zip(e.args, argt):
                if t == 'Nat → Rat':
                    if not (isinstance(a, ast.Name) and types.get(a.id) == 'Nat → Rat'):
                        self.refuse(e, 'an array argument must be the name of a 1-D array')
                    parts.append('σ.%s σ.%s_len' % (a.id, a.id))
                elif t.endswith('Nat → Nat → Rat'):
                    if not (isinstance(a, ast.Name) and types.get(a.id) == 'Nat → Nat → Rat' and a.id in self.shaped):
                        self.refuse(e, 'a 2-D array argument must be the name of a 2-D parameter array')
                    parts.append('σ.%s σ.%s_len0 σ.%s_len1' % (a.id, a.id, a.id))
                else:
                    if t == 'Nat' and self.is_int(a, types):
                        self.refuse(e, 'a possibly negative integer passed to a parameter translated as a natural number')
                    parts.append(self.expr(a, types, t))
            txt = '(σ.%s %s)' % (e.func.id, ' '.join(parts))
            if want == 'proc':
                return txt
            if ret == want:
                return txt
            if ret == 'Nat' and want == 'Rat':
                return '(%s : Rat)' % txt
            self.refuse(e, 'result of %s used at another type' % e.func.id)
        return super().expr(e, types, want)

    def index(self, sub, types):
        """the index expressions of `a[i, j(, k)]` on a 2-D / 3-D array (a full tuple of integers: no slices, no partial indexing)"""
        dim = ARR_TYPES[types[sub.value.id]]
        idx = list(sub.slice.elts) if isinstance(sub.slice, ast.Tuple) else [sub.slice]
        if len(idx) != dim:
            self.refuse(sub, '%d indices on the %d-dimensional array %s' % (len(idx), dim, sub.value.id))
        return [self.expr(i, types, 'Nat') for i in idx]

    # ---- statements -------------------------------------------------------------------------------------------
    @staticmethod
    def has_slice(sub):
        idx = list(sub.slice.elts) if isinstance(sub.slice, ast.Tuple) else [sub.slice]
        return any(isinstance(i, ast.Slice) for i in idx)

    def assign_only(self, s, is_known):
        """an `if` all of whose statements (in both branches, recursively through nested `if`s) are assignments `x = e`, `x op= e`,
        `a[i, j] = e`, `a[i, j] op= e` or `pass`, none of them from a kernel call or `empty`"""
        for t in s.body + s.orelse:
            if isinstance(t, ast.If):
                if not self.assign_only(t, is_known):
                    return False
            elif isinstance(t, ast.Assign):
                if len(t.targets) != 1 or not isinstance(t.targets[0], (ast.Name, ast.Subscript)) or is_known(t.value) \
                        or self.is_empty_call(t.value) or self.is_empty_like_call(t.value) \
                        or (isinstance(t.targets[0], ast.Subscript) and self.has_slice(t.targets[0])):
                    return False
            elif isinstance(t, ast.AugAssign):
                if not isinstance(t.target, (ast.Name, ast.Subscript)):
                    return False
            elif not isinstance(t, ast.Pass):
                return False
        return True

    def slice_assign(self, s, types, rest, k_end, k_break, ind, fuel):
        """whole-array assignments (exactly these two shapes; everything else with a slice is refused):
          `a[:, :] = b[lo1:hi1, lo2:hi2]`   a: local 2-D array of known extents, b: another 2-D array
          `a[:] = (b + s) % c`              (see slice_assign_1d)"""
        pad = '  ' * ind
        tg = s.targets[0]
        full = lambda i: isinstance(i, ast.Slice) and i.lower is None and i.upper is None and i.step is None  # noqa: E731
        if not (isinstance(tg.value, ast.Name) and types.get(tg.value.id) in ARR_TYPES):
            self.refuse(s, 'slice assignment to something that is not a float array')
        a = tg.value.id
        if a in self.final:
            self.refuse(s, 'write to the Final array %s' % a)
        idx = list(tg.slice.elts) if isinstance(tg.slice, ast.Tuple) else [tg.slice]
        if not all(full(i) for i in idx) or len(idx) != ARR_TYPES[types[a]]:
            self.refuse(s, 'slice assignment: only the whole array `%s[%s]` may be the target' % (a, ', '.join(':' * ARR_TYPES[types[a]])))
        if len(idx) == 1:
            return self.slice_assign_1d(s, a, types, rest, k_end, k_break, ind, fuel)
        v = s.value
        if not (len(idx) == 2 and a in self.shaped and isinstance(v, ast.Subscript) and isinstance(v.value, ast.Name)
                and types.get(v.value.id) == 'Nat → Nat → Rat' and v.value.id != a and isinstance(v.slice, ast.Tuple)
                and len(v.slice.elts) == 2
                and all(isinstance(i, ast.Slice) and i.lower is not None and i.upper is not None and i.step is None for i in v.slice.elts)):
            self.refuse(s, 'slice assignment: only `a[:, :] = b[lo1:hi1, lo2:hi2]` with a local 2-D array a and another 2-D array b')
        b = v.value.id
        los, ns = [], []
        for sl in v.slice.elts:
            for e in (sl.lower, sl.upper):
                if self.is_rat(e, types):
                    self.refuse(s, 'float in a slice bound')
            ext = ast.BinOp(left=sl.upper, op=ast.Sub(), right=sl.lower)
            ast.copy_location(ext, s)
            los.append(self.expr(sl.lower, types, 'Nat'))
            ns.append(self.expr(ext, types, 'Nat'))
        after = self.block(rest, types, k_end, k_break, ind + 1, fuel)
        return ('%sif ((%s = σ.%s_len0 ∨ %s = 1) ∧ (%s = σ.%s_len1 ∨ %s = 1)) then\n'
                '%s  let σ : St := { σ with %s := fun k_ l_ => if k_ < σ.%s_len0 ∧ l_ < σ.%s_len1 then '
                'σ.%s (%s + (if %s = 1 then 0 else k_)) (%s + (if %s = 1 then 0 else l_)) else σ.%s k_ l_ }\n%s\n%selse\n%s  %s'
                % (pad, ns[0], a, ns[0], ns[1], a, ns[1], pad, a, a, a, b, los[0], ns[0], los[1], ns[1], a, after, pad, pad,
                   self.wrap('.raised "ValueError"')))

    def slice_assign_1d(self, s, a, types, rest, k_end, k_break, ind, fuel):
        """`a[:] = (b + s) % c` — a, b 1-D float arrays, s and c float scalars (no array names in them except as `x[i]`).  numpy evaluates the
        right-hand side into a temporary first (so everything on the right is read in the state BEFORE the statement), checks the shapes
        (len(b) = len(a), or len(b) = 1: broadcasting; ValueError otherwise) and copies: the element-wise loop
        `for k in range(len(a)): a[k] = (b[k] + s) % c`, given in closed form"""
        pad = '  ' * ind
        v = s.value
        if not (self.procedures and isinstance(v, ast.BinOp) and isinstance(v.op, ast.Mod) and isinstance(v.left, ast.BinOp)
                and isinstance(v.left.op, ast.Add) and isinstance(v.left.left, ast.Name) and types.get(v.left.left.id) == 'Nat → Rat'):
            self.refuse(s, 'slice assignment to a 1-D array: only `a[:] = (b + scalar) % scalar` with a 1-D float array b')
        b = v.left.left.id
        for e in (v.left.right, v.right):
            if not self.is_rat(e, types) or any(isinstance(n, ast.Name) and types.get(n.id) in ARR_TYPES
                                                  and not any(isinstance(p_, ast.Subscript) and p_.value is n for p_ in ast.walk(e))
                                                  for n in ast.walk(e)):
                self.refuse(s, 'slice assignment to a 1-D array: the addend and the modulus must be float scalars')
        add, mod = self.expr(v.left.right, types, 'Rat'), self.expr(v.right, types, 'Rat')
        after = self.block(rest, types, k_end, k_break, ind + 1, fuel)
        return ('%sif (σ.%s_len = σ.%s_len ∨ σ.%s_len = 1) then\n'
                '%s  let σ : St := { σ with %s := fun k_ => if k_ < σ.%s_len then (pyMod ((σ.%s (if σ.%s_len = 1 then 0 else k_)) + %s) %s) else σ.%s k_ }\n'
                '%s\n%selse\n%s  %s' % (pad, b, a, b, pad, a, a, b, b, add, mod, a, after, pad, pad, self.wrap('.raised "ValueError"')))

    def call_stmt(self, s, c, target, types, rest, k_end, k_break, ind, fuel):
        pad = '  ' * ind
        if c.keywords:
            self.refuse(s, 'keyword arguments')
        sig, rty = self.sigs[c.func.id]
        if len(sig) != len(c.args):
            self.refuse(s, 'wrong number of arguments')
        args, back = [], []
        for (pn, pt, pfinal), a in zip(sig, c.args):
            if pt in ('ext', 'unused', 'Nat → Int') or ARR_TYPES.get(pt, 1) != 1:
                self.refuse(s, 'call of a kernel with a function, an int array or a multi-dimensional array parameter')
            if pt == 'Nat → Rat':
                if not (isinstance(a, ast.Name) and types.get(a.id) == 'Nat → Rat'):
                    self.refuse(s, 'an array argument must be the name of an array')
                if not pfinal:
                    if a.id in self.final:
                        self.refuse(s, 'Final array %s passed to a parameter that is written' % a.id)
                    if a.id in [b for b, _ in back]:
                        self.refuse(s, 'the same array passed twice to parameters that are written')
                    back.append((a.id, pn))
                args.append('σ.%s σ.%s_len' % (a.id, a.id))
            else:
                if pt == 'Nat' and self.is_int(a, types):
                    self.refuse(s, 'a possibly negative integer passed to a parameter translated as a natural number')
                args.append(self.expr(a, types, pt))
        # aliasing: a written array must not also be passed as another argument
        names = [a.id for a in c.args if isinstance(a, ast.Name) and types.get(a.id) == 'Nat → Rat']
        for b, _ in back:
            if names.count(b) > 1:
                self.refuse(s, 'array %s passed twice, once to a parameter that is written' % b)
        upd = ['%s := τ.%s' % (b, pn) for b, pn in back]
        if isinstance(target, list):
            if not isinstance(rty, list) or len(rty) != len(target):
                self.refuse(s, '%s does not return %d values' % (c.func.id, len(target)))
            for k, (t, ty) in enumerate(zip(target, rty)):
                if types.get(t) != ty:
                    self.refuse(s, '%s receives a value of another type' % t)
                upd.append('%s := τ.ret%d_' % (t, k))
        elif target is not None:
            if rty is None or isinstance(rty, list):
                self.refuse(s, '%s does not return one value' % c.func.id)
            if types.get(target) != rty:
                self.refuse(s, '%s receives a value of another type' % target)
            upd.append('%s := τ.ret_' % target)
        after = self.block(rest, types, k_end, k_break, ind + 1, fuel)
        if upd:
            after = '%s  let σ : St := { σ with %s }\n%s' % (pad, ', '.join(upd), after)
        return '%smatch %s_.run U F %s with\n%s| .ret τ =>\n%s\n%s| .raised e => %s\n%s| .outOfFuel => %s' % (
            pad, c.func.id, ' '.join(args), pad, after, pad, self.wrap('.raised e'), pad, self.wrap('.outOfFuel'))

    def block(self, stmts, types, k_end, k_break, ind, fuel):
        pad = '  ' * ind
        if not stmts:
            return pad + k_end
        s, rest = stmts[0], stmts[1:]
        is_known = lambda v: isinstance(v, ast.Call) and isinstance(v.func, ast.Name) and v.func.id in self.sigs  # noqa: E731
        if isinstance(s, ast.Expr) and is_known(s.value):
            return self.call_stmt(s, s.value, None, types, rest, k_end, k_break, ind, fuel)
        if isinstance(s, ast.Assign) and isinstance(s.targets[0], ast.Name) and is_known(s.value):
            return self.call_stmt(s, s.value, s.targets[0].id, types, rest, k_end, k_break, ind, fuel)
        if isinstance(s, ast.Assign) and isinstance(s.targets[0], ast.Tuple) and is_known(s.value):
            return self.call_stmt(s, s.value, [x.id for x in s.targets[0].elts], types, rest, k_end, k_break, ind, fuel)
        if isinstance(s, ast.Expr) and isinstance(s.value, ast.Call) and isinstance(s.value.func, ast.Name) \
                and types.get(s.value.func.id) == 'ext' and self.ext[s.value.func.id][1] in ARR_TYPES:
            # a call of a procedure parameter `()(…)`: the one array it may write receives `g(all arguments)` (g uninterpreted)
            c = s.value
            argt = self.ext[c.func.id][0]
            if c.keywords or len(c.args) != len(argt):
                self.refuse(s, 'call of %s: positional arguments, as many as its type says' % c.func.id)
            out = c.args[[t.startswith('out:') for t in argt].index(True)]
            arrs = [a.id for a in c.args if isinstance(a, ast.Name) and types.get(a.id) in ARR_TYPES]
            if not isinstance(out, ast.Name) or out.id in self.final or arrs.count(out.id) != 1:
                self.refuse(s, 'the array written by %s must be a non-Final array that is not passed twice' % c.func.id)
            return '%slet σ : St := { σ with %s := %s }\n%s' % (
                pad, out.id, self.expr(c, types, 'proc'), self.block(rest, types, k_end, k_break, ind, fuel))
        if isinstance(s, ast.ImportFrom) and (self.procedures or self.int_arrays):
            return self.block(rest, types, k_end, k_break, ind, fuel)      # `from numpy import pi`: checked in infer_types
        if isinstance(s, ast.Assign) and isinstance(s.targets[0], ast.Tuple):
            # `a, b = e1, e2`: every right-hand side is evaluated in the state before the statement (one structure update)
            names = [x.id for x in s.targets[0].elts]
            if self.shape_of(s.value, types) is not None:
                # `n, m = a.shape`: the extents of the array are parameters of the translation
                flds = self.shape_of(s.value, types)
                if len(flds) != len(names) or any(types.get(v) != 'Nat' for v in names):
                    self.refuse(s, 'unpacking of %s' % ast.unparse(s.value))
                return '%slet σ : St := { σ with %s }\n%s' % (
                    pad, ', '.join('%s := σ.%s' % (v, f_) for v, f_ in zip(names, flds)),
                    self.block(rest, types, k_end, k_break, ind, fuel))
            if not isinstance(s.value, ast.Tuple):
                self.refuse(s, 'tuple assignment from %s' % type(s.value).__name__)
            vals = s.value.elts
            for v, val in zip(names, vals):
                if types.get(v) not in ('Nat', 'Int', 'Rat'):
                    self.refuse(s, 'assignment to %s' % v)
                if types[v] != 'Rat' and self.is_rat(val, types):
                    self.refuse(s, 'float assigned to the integer %s' % v)
            return '%slet σ : St := { σ with %s }\n%s' % (
                pad, ', '.join('%s := %s' % (v, self.expr(val, types, types[v])) for v, val in zip(names, vals)),
                self.block(rest, types, k_end, k_break, ind, fuel))
        if isinstance(s, ast.Assign) and isinstance(s.targets[0], ast.Name) and self.is_empty_call(s.value) \
                and types.get(s.targets[0].id) == 'Nat → Nat → Rat':
            # `a = empty((n, m))`: row-major memory with arbitrary contents: element (k, l) is word `k*m + l` of `U`
            if not self.numpy_empty:
                self.refuse(s, '`empty` is not numpy.empty here')
            c = s.value
            if len(c.args) != 1 or c.keywords or not (isinstance(c.args[0], ast.Tuple) and len(c.args[0].elts) == 2):
                self.refuse(s, 'empty((n, m)) with one positional argument only')
            v = s.targets[0].id
            e0, e1 = (self.expr(x, types, 'Nat') for x in c.args[0].elts)
            return '%slet σ : St := { σ with %s := fun k_ l_ => U (k_ * %s + l_), %s_len0 := %s, %s_len1 := %s }\n%s' % (
                pad, v, e1, v, e0, v, e1, self.block(rest, types, k_end, k_break, ind, fuel))
        if isinstance(s, ast.Assign) and isinstance(s.targets[0], ast.Name) and self.is_empty_like_call(s.value):
            # `a = empty_like(b)`, b a 1-D float array: a fresh array of the length of b with arbitrary contents
            c = s.value
            if not self.numpy_empty_like:
                self.refuse(s, '`empty_like` is not numpy.empty_like here')
            if len(c.args) != 1 or c.keywords or not (isinstance(c.args[0], ast.Name) and types.get(c.args[0].id) == 'Nat → Rat'):
                self.refuse(s, 'empty_like(b) with the name of a 1-D float array only')
            v = s.targets[0].id
            return '%slet σ : St := { σ with %s := U, %s_len := σ.%s_len }\n%s' % (
                pad, v, v, c.args[0].id, self.block(rest, types, k_end, k_break, ind, fuel))
        if isinstance(s, ast.Assign) and isinstance(s.targets[0], ast.Subscript) and self.slices and self.has_slice(s.targets[0]):
            return self.slice_assign(s, types, rest, k_end, k_break, ind, fuel)
        if isinstance(s, ast.Assign) and isinstance(s.targets[0], ast.Name) and self.is_empty_call(s.value):
            if not self.numpy_empty:
                self.refuse(s, '`empty` is not numpy.empty here')
            c = s.value
            if len(c.args) != 1 or c.keywords:
                self.refuse(s, 'empty(n) with one positional argument only')
            v = s.targets[0].id
            return '%slet σ : St := { σ with %s := U, %s_len := %s }\n%s' % (
                pad, v, v, self.expr(c.args[0], types, 'Nat'), self.block(rest, types, k_end, k_break, ind, fuel))
        if isinstance(s, ast.Assign) and isinstance(s.targets[0], ast.Subscript):
            tg = s.targets[0]
            if not (isinstance(tg.value, ast.Name) and types.get(tg.value.id) in ARR_TYPES):
                self.refuse(s, 'element assignment to something that is not a float array')
            if tg.value.id in self.final:
                self.refuse(s, 'write to the Final array %s' % tg.value.id)
            a = tg.value.id
            if types[a] == 'Nat → Rat':
                return '%slet σ : St := { σ with %s := fun k_ => if k_ = %s then %s else σ.%s k_ }\n%s' % (
                    pad, a, self.expr(tg.slice, types, 'Nat'), self.expr(s.value, types, 'Rat'), a,
                    self.block(rest, types, k_end, k_break, ind, fuel))
            idx = self.index(tg, types)
            ks = ' '.join(IDX_NAMES[:len(idx)])
            return '%slet σ : St := { σ with %s := fun %s => if %s then %s else σ.%s %s }\n%s' % (
                pad, a, ks, ' ∧ '.join('%s = %s' % (k, i) for k, i in zip(IDX_NAMES, idx)), self.expr(s.value, types, 'Rat'), a, ks,
                self.block(rest, types, k_end, k_break, ind, fuel))
        if isinstance(s, ast.AugAssign) and isinstance(s.target, ast.Subscript):
            # `a[i] op= v` is `a[i] = a[i] op v` (the index expressions have no side effects in this subset)
            import copy
            load = copy.deepcopy(s.target)
            load.ctx = ast.Load()
            new = ast.Assign(targets=[s.target], value=ast.BinOp(left=load, op=s.op, right=s.value))
            ast.copy_location(new, s)
            ast.copy_location(new.value, s)
            return self.block([new] + rest, types, k_end, k_break, ind, fuel)
        if isinstance(s, ast.AugAssign) and not isinstance(s.target, ast.Name):
            self.refuse(s, 'augmented assignment to something that is not a name or an array element')
        if isinstance(s, ast.If) and self.if_state and self.assign_only(s, is_known):
            # both branches only assign: the `if` is a function of the state, the statements after it are translated once
            thn = self.block(s.body, types, 'σ', None, ind + 2, fuel)
            els = self.block(s.orelse, types, 'σ', None, ind + 2, fuel)
            return '%slet σ : St :=\n%s  if %s then\n%s\n%s  else\n%s\n%s' % (
                pad, pad, self.cond(s.test, types), thn, pad, els, self.block(rest, types, k_end, k_break, ind, fuel))
        if isinstance(s, ast.If) and any(
                isinstance(n, (ast.For, ast.While)) or is_known(n) for t in rest for n in ast.walk(t)):
            # the statements after the `if` start loops or calls: do not copy them into both branches; the `if` yields the state
            # after it (or the outcome that ends the call) and the rest is translated once
            if any(isinstance(n, (ast.Break, ast.Continue)) for t in s.body + s.orelse for n in ast.walk(t)):
                self.refuse(s, '`if` containing break/continue and followed by a loop or a call')
            was_top, self.top = self.top, False
            thn = self.block(s.body, types, '.ok σ', None, ind + 2, fuel)
            els = self.block(s.orelse, types, '.ok σ', None, ind + 2, fuel)
            self.top = was_top
            after = self.block(rest, types, k_end, k_break, ind + 1, fuel)
            return ('%slet r_ : Res St :=\n%s  if %s then\n%s\n%s  else\n%s\n%smatch r_ with\n%s| .ok σ =>\n%s\n%s| .done o => %s'
                    % (pad, pad, self.cond(s.test, types), thn, pad, els, pad, pad, after, pad, self.wrap('o', paren=False)))
        if isinstance(s, ast.Return):
            if s.value is None:
                if self.ret_type:
                    self.refuse(s, 'bare return in a function that returns a value')
                return pad + self.wrap('.ret σ')
            if not self.ret_type:
                self.refuse(s, 'return of a value from a function without a return annotation')
            if isinstance(self.ret_type, list):
                for t, v in zip(self.ret_type, s.value.elts):
                    if t != 'Rat' and self.is_rat(v, types):
                        self.refuse(s, 'float returned as int')
                return pad + self.wrap('.ret { σ with %s }' % ', '.join(
                    'ret%d_ := %s' % (k, self.expr(v, types, t)) for k, (t, v) in enumerate(zip(self.ret_type, s.value.elts))))
            if self.ret_type != 'Rat' and self.is_rat(s.value, types):
                self.refuse(s, 'float returned as int')
            if self.ret_type == 'Nat' and self.is_int(s.value, types):
                self.refuse(s, 'a possibly negative integer returned from a function whose result is translated as a natural number')
            return pad + self.wrap('.ret { σ with ret_ := %s }' % self.expr(s.value, types, self.ret_type))
        if isinstance(s, ast.For):
            if s.orelse:
                self.refuse(s, 'for-else')
            it = s.iter
            if self.is_enumerate(s):
                if not (len(it.args) == 1 and not it.keywords and isinstance(it.args[0], ast.Name)
                        and types.get(it.args[0].id) in ('Nat → Rat', 'Nat → Int')):
                    self.refuse(s, 'only `for i, v in enumerate(a)` over a 1-D float array')
                arr, vi, vv = it.args[0].id, s.target.elts[0].id, s.target.elts[1].id
                for n in ast.walk(s):
                    tg = n.targets[0] if isinstance(n, ast.Assign) else (n.target if isinstance(n, ast.AugAssign) else None)
                    if isinstance(tg, ast.Subscript) and isinstance(tg.value, ast.Name) and tg.value.id == arr:
                        self.refuse(n, 'the array %s is written while it is iterated over' % arr)
                    if isinstance(n, ast.Call) and is_known(n) and arr in [a.id for a in n.args if isinstance(a, ast.Name)]:
                        self.refuse(n, 'the array %s is passed to a kernel while it is iterated over' % arr)
                start, count = '(0 : Nat)', 'σ.%s_len' % arr
                bind = '%s := i, %s := σ.%s i' % (vi, vv, arr)
                doc = '`for %s, %s in %s:` — `n` iterations are left, `i` is the next value of `%s` and `%s` is element `i`' % (vi, vv, ast.unparse(it), vi, vv)
            else:
                if not (isinstance(it, ast.Call) and isinstance(it.func, ast.Name) and it.func.id == 'range'
                        and not it.keywords and len(it.args) in (1, 2)):
                    self.refuse(s, 'only `for v in range(stop)` / `range(start, stop)`')
                start = '(0 : Nat)' if len(it.args) == 1 else self.expr(it.args[0], types, 'Nat')
                stop = self.expr(it.args[-1], types, 'Nat')
                for a in it.args:
                    if self.is_rat(a, types):
                        self.refuse(s, 'float in range()')
                if len(it.args) == 2 and self.is_int(it.args[0], types):
                    self.refuse(s, 'range() starting at a possibly negative integer')
                v = s.target.id
                count = '(%s - %s)' % (stop, start)
                bind = '%s := i' % v
                doc = '`for %s in %s:` — `n` iterations are left, `i` is the next value of `%s`' % (v, ast.unparse(it), v)
            name = 'loop%d' % (len(self.loops) + 1)
            self.loops.append(None)
            slot = len(self.loops) - 1
            straight = self.if_state and all(
                isinstance(t, ast.Pass) or (isinstance(t, ast.If) and self.assign_only(t, is_known))
                or (isinstance(t, (ast.Assign, ast.AugAssign)) and self.assign_only(ast.If(test=None, body=[t], orelse=[]), is_known))
                for t in s.body)
            if straight:
                # a body that only assigns (no loop, no call of a kernel, no break / return / raise) is a function of the state: it is emitted as
                # `body_of_<loop>`, cut at every `if` into the parts `part<k>_of_<loop>` (the same statements, in the same order)
                segs = []
                for t in s.body:
                    if isinstance(t, ast.Pass):
                        continue
                    if isinstance(t, ast.If) or not segs or isinstance(segs[-1][0], ast.If):
                        segs.append([t])
                    else:
                        segs[-1].append(t)
                was_top, self.top = self.top, False
                defs, calls = [], []
                for k, seg in enumerate(segs, 1):
                    last = max(getattr(n, 'end_lineno', seg[-1].lineno) or seg[-1].lineno for n in ast.walk(seg[-1]) if hasattr(n, 'lineno'))
                    defs.append('/-- %s:%d-%d  part %d of the body of the loop at line %d -/\ndef part%d_of_%s (σ : St) : St :=\n%s\n' % (
                        self.fname, seg[0].lineno, last, k, s.lineno, k, name, self.block(seg, types, 'σ', None, 1, 'F')))
                    calls.append('  let σ : St := part%d_of_%s σ\n' % (k, name))
                self.top = was_top
                self.loops[slot] = (
                    '%s\n/-- %s:%d  one iteration of %s: the parts in the order of the source -/\n'
                    'def body_of_%s (σ : St) (i : Nat) : St :=\n  let σ : St := { σ with %s }\n%s  σ\n\n'
                    '/-- %s:%d  %s; carried state: all locals -/\n'
                    'def %s (U : Nat → Rat) (F : Nat) : Nat → Nat → St → Res St\n'
                    '  | 0, _, σ => .ok σ\n'
                    '  | n+1, i, σ => %s U F n (i + 1) (body_of_%s σ i)\n' % (
                        '\n'.join(defs), self.fname, s.lineno, doc.split(' — ')[0], name, bind, ''.join(calls),
                        self.fname, s.lineno, doc, name, name, name))
            else:
                was_top, self.top = self.top, False
                body = self.block(s.body, types, '%s U F n (i + 1) σ' % name, '.ok σ', 3, 'F')
                self.top = was_top
                self.loops[slot] = (
                    '/-- %s:%d  %s; carried state: all locals -/\n'
                    'def %s (U : Nat → Rat) (F : Nat) : Nat → Nat → St → Res St\n'
                    '  | 0, _, σ => .ok σ\n'
                    '  | n+1, i, σ =>\n'
                    '      let σ : St := { σ with %s }\n%s\n' % (self.fname, s.lineno, doc, name, bind, body))
            after = self.block(rest, types, k_end, k_break, ind + 1, fuel)
            return '%smatch %s U F %s %s σ with\n%s| .ok σ =>\n%s\n%s| .done o => %s' % (
                pad, name, count, start, pad, after, pad, self.wrap('o', paren=False))
        if isinstance(s, ast.While):
            if s.orelse:
                self.refuse(s, 'while-else')
            name = 'loop%d' % (len(self.loops) + 1)
            self.loops.append(None)
            slot = len(self.loops) - 1
            was_top, self.top = self.top, False
            body = self.block(s.body, types, '%s U F f σ' % name, '.ok σ', 3, 'F')
            self.top = was_top
            self.loops[slot] = (
                '/-- %s:%d  `while %s:` — carried state: all locals; `F` is the fuel handed to loops started in the body -/\n'
                'def %s (U : Nat → Rat) (F : Nat) : Nat → St → Res St\n'
                '  | 0, _ => .done .outOfFuel\n'
                '  | f+1, σ =>\n'
                '    if %s then\n%s\n'
                '    else .ok σ\n' % (self.fname, s.lineno, ast.unparse(s.test), name, self.cond(s.test, types), body))
            after = self.block(rest, types, k_end, k_break, ind + 1, fuel)
            return '%smatch %s U F %s σ with\n%s| .ok σ =>\n%s\n%s| .done o => %s' % (
                pad, name, fuel, pad, after, pad, self.wrap('o', paren=False))
        if isinstance(s, ast.Assign) and not isinstance(s.targets[0], ast.Name):
            self.refuse(s, 'assignment target outside the subset')
        if isinstance(s, (ast.Assign, ast.AugAssign)):
            v = s.targets[0].id if isinstance(s, ast.Assign) else s.target.id
            if types.get(v) not in ('Nat', 'Int', 'Rat'):
                self.refuse(s, 'assignment to %s' % v)
            if types[v] != 'Rat' and self.is_rat(s.value, types):
                self.refuse(s, 'float assigned to the integer %s' % v)
        if isinstance(s, ast.Raise) and s.exc is None:
            self.refuse(s, 'bare raise')
        return super().block(stmts, types, k_end, k_break, ind, fuel)

    def function(self, fn):
        params, order, types = self.infer_types(fn)
        self.loops = []
        self.top = True
        body = self.block(fn.body, types, '.ret σ', None, 1, 'F')
        for i in range(len(self.loops) - 1, -1, -1):      # longer names first (loop10 before loop1)
            old, new = 'loop%d ' % (i + 1), '%s_loop%d ' % (fn.name, i + 1)
            body = body.replace(old, new)
            self.loops = [t.replace(old, new) for t in self.loops]
        loops = self.loops[::-1]                           # inner loops are created after the loop that contains them
        fields = '\n'.join('  %s : %s := %s' % (v, self.lean_type(v, types), self.lean_default(v, types)) for v in order)
        init = ', '.join('%s := %s' % (p, p) for p in params)
        sig = ' '.join('(%s : %s)' % (p, self.lean_type(p, types)) for p in params)
        self.sigs[fn.name] = ([(a.arg, types[a.arg], a.arg in self.final) for a in fn.args.args], self.ret_type)
        if isinstance(self.ret_type, list):
            retdoc = '; `ret0_`, … are the returned values'
        else:
            retdoc = '; `ret_` is the returned value' if self.ret_type else ''
        return ('namespace %s_\n/-- all local variables of `%s` (%s:%d)%s -/\nstructure St where\n%s\n\n%s\n'
                '/-- `%s(%s)`; `U` = contents of memory obtained with `empty`, `F` = fuel for every `while` -/\n'
                'def run (U : Nat → Rat) (F : Nat) %s : Out St :=\n  let σ : St := { %s }\n%s\nend %s_\n'
                % (fn.name, fn.name, self.fname, fn.lineno, retdoc, fields,
                   '\n'.join(loops), fn.name, ', '.join(params), sig, init, body, fn.name))


SPLINE_REL = 'pygyro/splines/spline_eval_funcs.py'
SPLINE_SEMANTICS = (
    'Shallow embedding: `for v in range(a, b)` is a structurally recursive function over the number `b - a` of iterations left (the bounds are\n'
    'evaluated once, as in Python), `while` a fuel-recursive one, both over the record `St` of all locals.  A float array is `Nat → Rat` with its\n'
    'length in `<name>_len`; `a[i] = v` is the functional update; index bounds and Python\'s negative indices are NOT modelled.  `empty(n)` is the\n'
    'parameter `U` (arbitrary contents).  Floats are exact rationals (`/` is exact division, x/0 = 0); ints are naturals and `-` on them is truncated\n'
    'subtraction.  A call passes arrays by reference: the arrays the callee may write are copied back from its final state.  Core Lean only.\n')
SPLINE_TYPES = ('/-- outcome of a call: `return` / end of the body with the final locals `s`, `raise`, or the model artefact `outOfFuel` -/\n'
                'inductive Out (α : Type) where\n  | ret (s : α)\n  | raised (exc : String)\n  | outOfFuel\n\n'
                '/-- outcome of a loop: left normally with state `s` (also by `break`), or the call is over -/\n'
                'inductive Res (α : Type) where\n  | ok (s : α)\n  | done (o : Out α)\n\n')


def module_bindings(tree, name):
    """everything that binds `name` anywhere in the module: (node, alias or None)"""
    bound = []
    for n in ast.walk(tree):
        if isinstance(n, (ast.Import, ast.ImportFrom)):
            bound += [(n, a) for a in n.names if (a.asname or a.name.split('.')[0]) == name]
        elif isinstance(n, (ast.FunctionDef, ast.ClassDef)) and n.name == name:
            bound.append((n, None))
        elif isinstance(n, ast.Name) and n.id == name and isinstance(n.ctx, (ast.Store, ast.Del)):
            bound.append((n, None))
        elif isinstance(n, ast.arg) and n.arg == name:
            bound.append((n, None))
    return bound


def typevar_real_instance(tree, rel, name):
    """`name = TypeVar('name', c1, c2, …)` at module level (bound exactly once, `TypeVar` being `typing.TypeVar`), every constraint a pyccel
    array annotation given as a string, all of the same number of dimensions, element types float / complex128 only, `float` among them:
    returns (the float annotation, all constraints).  The translation is that of the REAL instance."""
    b = module_bindings(tree, name)
    tv = module_bindings(tree, 'TypeVar')
    if not (len(tv) == 1 and isinstance(tv[0][0], ast.ImportFrom) and tv[0][0] in tree.body and tv[0][0].module == 'typing'
            and tv[0][0].level == 0 and tv[0][1].name == 'TypeVar'):
        raise Refuse(tree, '`TypeVar` is not typing.TypeVar, imported once at module level', rel)
    asg = [n for n in tree.body if isinstance(n, ast.Assign) and len(n.targets) == 1 and isinstance(n.targets[0], ast.Name)
           and n.targets[0].id == name]
    if len(b) != 1 or len(asg) != 1:
        raise Refuse(tree, 'the type variable %s is not bound exactly once, by a module-level assignment' % name, rel)
    c = asg[0].value
    if not (isinstance(c, ast.Call) and isinstance(c.func, ast.Name) and c.func.id == 'TypeVar' and not c.keywords and len(c.args) >= 2
            and all(isinstance(x, ast.Constant) and isinstance(x.value, str) for x in c.args) and c.args[0].value == name):
        raise Refuse(asg[0], '%s must be TypeVar(%r, <string constraints>)' % (name, name), rel)
    cons = [x.value for x in c.args[1:]]
    real = [x for x in cons if x in ARR_ANN]
    if len(real) != 1:
        raise Refuse(asg[0], 'the constraints of %s must contain exactly one float array type' % name, rel)
    for x in cons:
        if x != real[0] and x != 'complex128' + real[0][len('float'):]:
            raise Refuse(asg[0], 'constraint %s of %s: only the complex128 array of the same dimensions besides %s' % (x, name, real[0]), rel)
    return real[0], cons


def kernel_functions(repo, rel, names, int_type='Nat', pure_imports=(), typevars=()):
    """the source, the translator and the FunctionDef nodes of the requested kernels of the module `rel` (in the order given: callees
    first).  `pure_imports`: module-level names that must be bound exactly once, by a relative `from .. import`, to a `@pure` function
    whose parameters and result are all `float`; calls of them are translated as applications of an uninterpreted function."""
    src = open(os.path.join(repo, rel)).read()
    tree = ast.parse(src)
    externals = {}
    for nm in pure_imports:
        b = module_bindings(tree, nm)
        if not (len(b) == 1 and isinstance(b[0][0], ast.ImportFrom) and b[0][0] in tree.body and b[0][0].level >= 1
                and b[0][0].module and b[0][1].name == nm and b[0][1].asname is None):
            raise Refuse(tree, '%s is not bound exactly once by a relative `from … import %s` at module level' % (nm, nm), rel)
        base = os.path.dirname(rel)
        for _ in range(b[0][0].level - 1):
            base = os.path.dirname(base)
        mrel = os.path.join(base, *b[0][0].module.split('.')) + '.py'
        if not os.path.exists(os.path.join(repo, mrel)):
            raise Refuse(b[0][0], 'module %s of %s not found' % (mrel, nm), rel)
        mtree = ast.parse(open(os.path.join(repo, mrel)).read())
        defs = [n for n in mtree.body if isinstance(n, ast.FunctionDef) and n.name == nm]
        if len(defs) != 1 or len(module_bindings(mtree, nm)) != 1:
            raise Refuse(mtree, '%s not defined exactly once' % nm, mrel)
        d = defs[0]
        ann = lambda x: x.value if isinstance(x, ast.Constant) else (x.id if isinstance(x, ast.Name) else None)  # noqa: E731
        if d.args.vararg or d.args.kwarg or d.args.kwonlyargs or d.args.posonlyargs or d.args.defaults \
                or [ann(a.annotation) for a in d.args.args] != ['float'] * len(d.args.args) or ann(d.returns) != 'float' \
                or 'pure' not in [x.id for x in d.decorator_list if isinstance(x, ast.Name)]:
            raise Refuse(d, '%s must be a @pure function of floats that returns a float' % nm, mrel)
        externals[nm] = (['Rat'] * len(d.args.args), 'Rat')
    tr = ArrayFuncTranslator(rel, '', int_type=int_type, externals=externals)
    tr.tree = tree
    for nm in typevars:
        tr.typevars[nm], _ = typevar_real_instance(tree, rel, nm)
    bound = module_bindings(tree, 'empty')          # everything that binds the name `empty` anywhere in the module
    tr.numpy_empty = (len(bound) == 1 and isinstance(bound[0][0], ast.ImportFrom) and bound[0][0].module == 'numpy'
                      and bound[0][0].level == 0 and bound[0][1].name == 'empty' and bound[0][0] in tree.body)
    tr.int_builtin = not module_bindings(tree, 'int')
    fns = []
    for nm in names:
        f = [n for n in tree.body if isinstance(n, ast.FunctionDef) and n.name == nm]
        if len(f) != 1 or len(module_bindings(tree, nm)) != 1:
            raise Refuse(tree, '%s not found exactly once' % nm, rel)
        fns.append(f[0])
    sha = hashlib.sha256('\n'.join(ast.get_source_segment(src, f) or '' for f in fns).encode()).hexdigest()[:16]
    return tr, fns, sha


def spline_functions(repo, names):
    return kernel_functions(repo, SPLINE_REL, names)


def translate_basis_funs(repo):
    """pygyro/splines/spline_eval_funcs.py: `nu_basis_funs` (Algorithm A2.2 with the left/right arrays)"""
    tr, fns, sha = spline_functions(repo, ['nu_basis_funs'])
    body = tr.function(fns[0])
    head = ('/-\nGENERATED by harness/translate_pure.py from %s, function nu_basis_funs (sha256 of its source %s) — do not edit.\n%s-/\n'
            'set_option linter.unusedVariables false\nnamespace PygyroVerif.Gen.BasisFuns\n\n%s' % (SPLINE_REL, sha, SPLINE_SEMANTICS, SPLINE_TYPES))
    return head + body + '\nend PygyroVerif.Gen.BasisFuns\n'


def translate_eval1d(repo):
    """`nu_find_span`, `nu_basis_funs_1st_der`, `nu_eval_spline_1d_scalar`; `nu_basis_funs` is the one of BasisFunsGen.lean"""
    names = ['nu_basis_funs', 'nu_find_span', 'nu_basis_funs_1st_der', 'nu_eval_spline_1d_scalar']
    tr, fns, sha = spline_functions(repo, names)
    parts = [tr.function(f) for f in fns][1:]          # the first one only registers the signature of nu_basis_funs
    head = ('/-\nGENERATED by harness/translate_pure.py from %s, functions %s (calling nu_basis_funs of BasisFunsGen.lean;\n'
            'sha256 of the four sources %s) — do not edit.\n%s-/\nimport PygyroVerif.Generated.BasisFunsGen\n\n'
            'set_option linter.unusedVariables false\nnamespace PygyroVerif.Gen.EvalSpline\nopen PygyroVerif.Gen.BasisFuns\n\n'
            % (SPLINE_REL, ', '.join(names[1:]), sha, SPLINE_SEMANTICS))
    return head + '\n'.join(parts) + '\nend PygyroVerif.Gen.EvalSpline\n'


ADV_REL = 'pygyro/advection/accelerated_advection_steps.py'
ARRAY_SEMANTICS_ND = (
    'A 2-D / 3-D float array is `Nat → Nat → Rat` / `Nat → Nat → Nat → Rat`, read and written with a full index tuple (`a[i, j] = v` is the\n'
    'functional update at that one position; shapes, index bounds, negative indices and slices are NOT modelled); `a[i, j] += v` is\n'
    '`a[i, j] = a[i, j] + v`; `len(a)` of a 1-D array is the parameter `a_len`.\n')


def translate_flux(repo):
    """pygyro/advection/accelerated_advection_steps.py: `flux_advection` (triple loop, `+=` on an element of a 2-D array)"""
    tr, fns, sha = kernel_functions(repo, ADV_REL, ['flux_advection'])
    body = tr.function(fns[0])
    head = ('/-\nGENERATED by harness/translate_pure.py from %s, function flux_advection (sha256 of its source %s) — do not edit.\n%s%s-/\n'
            'set_option linter.unusedVariables false\nnamespace PygyroVerif.Gen.Flux\n\n%s' % (ADV_REL, sha, SPLINE_SEMANTICS, ARRAY_SEMANTICS_ND, SPLINE_TYPES))
    return head + body + '\nend PygyroVerif.Gen.Flux\n'


POISSON_REL = 'pygyro/poisson/poisson_tools.py'
DENSITY_SEMANTICS = (
    'A 4-D float array is `Nat → Nat → Nat → Nat → Rat`.  `n, m, p = rho.shape` / `nc, = quad_coeffs.shape`: the extents of a parameter array\n'
    'are the extra parameters `rho_len0`, `rho_len1`, `rho_len2` (1-D: `quad_coeffs_len`) of `run`; nothing relates them to the functions that\n'
    'hold the contents (reads outside the extents are not modelled as errors).  The parameter `rho` is annotated with the module-level\n'
    'type variable `T = TypeVar(\'T\', %s)`: this file is the translation of the REAL instance `%s` (floats = exact rationals); the complex128\n'
    'instance runs the same statements on complex numbers and is NOT translated here.\n')


def translate_density(repo):
    """pygyro/poisson/poisson_tools.py: `get_rho`, `get_perturbed_rho` (four nested loops, `rho[i, j, k] += …`), real instance of `T`"""
    names = ['get_rho', 'get_perturbed_rho']
    tr, fns, sha = kernel_functions(repo, POISSON_REL, names, typevars=('T',))
    real, cons = typevar_real_instance(ast.parse(open(os.path.join(repo, POISSON_REL)).read()), POISSON_REL, 'T')
    parts = [tr.function(f) for f in fns]
    head = ('/-\nGENERATED by harness/translate_pure.py from %s, functions %s\n(sha256 of the two sources %s) — do not edit.\n%s%s%s-/\n'
            'set_option linter.unusedVariables false\nnamespace PygyroVerif.Gen.Density\n\n%s'
            % (POISSON_REL, ', '.join(names), sha, SPLINE_SEMANTICS, ARRAY_SEMANTICS_ND,
               DENSITY_SEMANTICS % (', '.join(repr(x) for x in cons), real), SPLINE_TYPES))
    return head + '\n'.join(parts) + '\nend PygyroVerif.Gen.Density\n'


CU_REL = 'pygyro/splines/cubic_uniform_spline_eval_funcs.py'
INT_SEMANTICS = (
    'In this file every Python `int` parameter is a Lean `Int` (the span is negative left of the domain) and so is every local that receives such a\n'
    'value; loop variables of `range` stay naturals.  `int(q)` of a float is `pyInt q`, TRUNCATION TOWARD ZERO (`Int.tdiv q.num q.den`, what CPython\'s\n'
    '`float.__int__` does; the C cast pyccel generates truncates too).  An `Int` used as an array index or a loop bound is `Int.toNat` (negative indices\n'
    'are not modelled: the theorems state `3 ≤ span`).  `a, b = e1, e2` evaluates both right-hand sides in the state before the statement; a tuple\n'
    'return fills the fields `ret0_`, `ret1_`.\n')
PYINT_DEF = ('/-- Python\'s `int(x)` on a float: truncation toward zero -/\n'
             'def pyInt (q : Rat) : Int := Int.tdiv q.num q.den\n\n')


def translate_cueval(repo):
    """pygyro/splines/cubic_uniform_spline_eval_funcs.py: `cu_find_span`, `cu_basis_funs`, `cu_basis_funs_1st_der`, `cu_eval_spline_1d_scalar`"""
    names = ['cu_find_span', 'cu_basis_funs', 'cu_basis_funs_1st_der', 'cu_eval_spline_1d_scalar']
    tr, fns, sha = kernel_functions(repo, CU_REL, names, int_type='Int')
    parts = [tr.function(f) for f in fns]
    head = ('/-\nGENERATED by harness/translate_pure.py from %s, functions %s\n(sha256 of the four sources %s) — do not edit.\n%s%s-/\n'
            'set_option linter.unusedVariables false\nnamespace PygyroVerif.Gen.CubicUniform\n\n%s%s'
            % (CU_REL, ', '.join(names), sha, SPLINE_SEMANTICS, INT_SEMANTICS, SPLINE_TYPES, PYINT_DEF))
    return head + '\n'.join(parts) + '\nend PygyroVerif.Gen.CubicUniform\n'


VECTOR_SEMANTICS = (
    'The default value `der = 0` of the last parameter concerns callers only: `run` takes every parameter explicitly.  The local array `basis` is\n'
    'obtained ONCE with `empty` (contents `U`) and re-used by every iteration of the loop over `x`: iteration `i` hands the kernels what iteration `i-1` left in it.\n')


def translate_evalvec(repo):
    """the vector entry points `nu_eval_spline_1d_vector` (spline_eval_funcs.py) and `cu_eval_spline_1d_vector`
    (cubic_uniform_spline_eval_funcs.py); the kernels they call are those of EvalSplineGen.lean / BasisFunsGen.lean / CubicUniformGen.lean"""
    nu = ['nu_basis_funs', 'nu_find_span', 'nu_basis_funs_1st_der', 'nu_eval_spline_1d_vector']
    tr, fns, sha_nu = spline_functions(repo, nu)
    nu_part = [tr.function(f) for f in fns][-1]        # the first three only register the signatures of the callees
    cu = ['cu_find_span', 'cu_basis_funs', 'cu_basis_funs_1st_der', 'cu_eval_spline_1d_vector']
    tr, fns, sha_cu = kernel_functions(repo, CU_REL, cu, int_type='Int')
    cu_part = [tr.function(f) for f in fns][-1]
    head = ('/-\nGENERATED by harness/translate_pure.py from %s, function %s, and %s, function %s\n'
            '(calling the kernels of BasisFunsGen.lean, EvalSplineGen.lean and CubicUniformGen.lean; sha256 of the sources of the functions and their\n'
            'callees %s / %s) — do not edit.\n%s%s%s%s-/\n'
            'import PygyroVerif.Generated.EvalSplineGen\nimport PygyroVerif.Generated.CubicUniformGen\n\n'
            'set_option linter.unusedVariables false\n'
            % (SPLINE_REL, nu[-1], CU_REL, cu[-1], sha_nu, sha_cu, SPLINE_SEMANTICS, INT_SEMANTICS.replace('In this file', 'In the namespace EvalVectorCu'),
               EXT_SEMANTICS.split('Calls of')[0], VECTOR_SEMANTICS))
    return (head + 'namespace PygyroVerif.Gen.EvalVectorNu\nopen PygyroVerif.Gen.BasisFuns PygyroVerif.Gen.EvalSpline\n\n' + nu_part
            + '\nend PygyroVerif.Gen.EvalVectorNu\n\nnamespace PygyroVerif.Gen.EvalVectorCu\nopen PygyroVerif.Gen.CubicUniform\n\n' + cu_part
            + '\nend PygyroVerif.Gen.EvalVectorCu\n')


SLICE2D_SEMANTICS = (
    '`a = empty((n, m))` is a local 2-D array with the extents `a_len0 = n`, `a_len1 = m`; its contents are arbitrary: element (k, l) is word `k*m + l` of `U`\n'
    '(row-major memory).  ONE statement with slices is translated: the whole-array assignment `a[:, :] = b[lo1:hi1, lo2:hi2]`, as numpy defines it for IN-BOUNDS slices\n'
    '(0 ≤ lo ≤ hi ≤ extent of b; clipping of `hi`, negative bounds and the extents of `b` are NOT modelled, like index bounds elsewhere): the slice has\n'
    'the extents n_d = hi_d - lo_d; if every n_d is the extent of `a` in that direction or 1 (broadcasting), every element a[k, l] inside the extents of `a`\n'
    'becomes b[lo1 + k, lo2 + l] (index 0 instead of k / l in a direction that is broadcast) and nothing else changes; otherwise the call raises ValueError.\n'
    'The default values `der1 = 0`, `der2 = 0` concern callers only: `run` takes every parameter explicitly.\n')


def translate_eval2d(repo):
    """the 2-D scalar kernels `nu_eval_spline_2d_scalar` (spline_eval_funcs.py) and `cu_eval_spline_2d_scalar`
    (cubic_uniform_spline_eval_funcs.py); the kernels they call are those of EvalSplineGen.lean / BasisFunsGen.lean / CubicUniformGen.lean"""
    nu = ['nu_basis_funs', 'nu_find_span', 'nu_basis_funs_1st_der', 'nu_eval_spline_2d_scalar']
    tr, fns, sha_nu = spline_functions(repo, nu)
    tr.slices = True
    nu_part = [tr.function(f) for f in fns][-1]        # the first three only register the signatures of the callees
    cu = ['cu_find_span', 'cu_basis_funs', 'cu_basis_funs_1st_der', 'cu_eval_spline_2d_scalar']
    tr, fns, sha_cu = kernel_functions(repo, CU_REL, cu, int_type='Int')
    tr.slices = True
    cu_part = [tr.function(f) for f in fns][-1]
    head = ('/-\nGENERATED by harness/translate_pure.py from %s, function %s, and %s, function %s\n'
            '(calling the kernels of BasisFunsGen.lean, EvalSplineGen.lean and CubicUniformGen.lean; sha256 of the sources of the functions and their\n'
            'callees %s / %s) — do not edit.\n%s%s%s%s-/\n'
            'import PygyroVerif.Generated.EvalSplineGen\nimport PygyroVerif.Generated.CubicUniformGen\n\n'
            'set_option linter.unusedVariables false\n'
            % (SPLINE_REL, nu[-1], CU_REL, cu[-1], sha_nu, sha_cu, SPLINE_SEMANTICS, ARRAY_SEMANTICS_ND,
               INT_SEMANTICS.replace('In this file', 'In the namespace Eval2DCu'), SLICE2D_SEMANTICS))
    return (head + 'namespace PygyroVerif.Gen.Eval2DNu\nopen PygyroVerif.Gen.BasisFuns PygyroVerif.Gen.EvalSpline\n\n' + nu_part
            + '\nend PygyroVerif.Gen.Eval2DNu\n\nnamespace PygyroVerif.Gen.Eval2DCu\nopen PygyroVerif.Gen.CubicUniform\n\n' + cu_part
            + '\nend PygyroVerif.Gen.Eval2DCu\n')


EXT_SEMANTICS = (
    '`for i, v in enumerate(a)` over a 1-D float array makes `len(a)` iterations (evaluated once) and reads `v = a[i]` at the start of each one (the body\n'
    'does not write `a`).  Calls of `f_eq` (a `@pure` function of floats imported from another module) and of the function parameter\n'
    '`eval_spline_1d_scalar` (pyccel type: float result, every array argument `Final`) are applications of UNINTERPRETED total functions: they are\n'
    'fields of the record of locals and leading / ordinary parameters of `run`; an array argument is passed as the pair (contents, length).\n')


def translate_vpar(repo):
    """pygyro/advection/accelerated_advection_steps.py: `general_v_parallel_advection_eval_step` (three boundary modes)"""
    tr, fns, sha = kernel_functions(repo, ADV_REL, ['general_v_parallel_advection_eval_step'], pure_imports=('f_eq',))
    body = tr.function(fns[0])
    head = ('/-\nGENERATED by harness/translate_pure.py from %s, function general_v_parallel_advection_eval_step\n(sha256 of its source %s) — do not edit.\n%s%s-/\n'
            'set_option linter.unusedVariables false\nnamespace PygyroVerif.Gen.VPar\n\n%s' % (ADV_REL, sha, SPLINE_SEMANTICS, EXT_SEMANTICS, SPLINE_TYPES))
    return head + body + '\nend PygyroVerif.Gen.VPar\n'


POLEXPL_SEMANTICS = (
    '`from numpy import pi` in the body: `pi` is a leading parameter of `run` (an arbitrary rational; the theorems state `0 < pi` where they need it).\n'
    '`a % b` on floats is `pyMod a b = a - b*floor(a/b)` (Python: the result has the sign of the divisor; this is the value for every b ≠ 0, computed\n'
    'exactly; the kernel only uses b = 2*pi > 0; b = 0 raises in Python and gives `a` here).  A `bool` parameter is a Lean `Bool`, `if (b):` tests `b = true`.\n'
    'An array of 2 dimensions that is handed to a function parameter is passed as (contents, extent 0, extent 1): the extents `a_len0`, `a_len1` are extra\n'
    'parameters of `run`; `a.shape[0]` of a 1-D array is `a_len`.  Function parameters are UNINTERPRETED total functions of their arguments (no hidden state):\n'
    '`eval_spline_2d_scalar` (float result, every array argument `Final`) is applied; the procedure `eval_spline_2d_cross` (type `()(…)`, exactly one array argument\n'
    'that is not `Final`) is modelled as `that array := eval_spline_2d_cross(all arguments, including the previous contents of that array)`.  `f_eq` (a `@pure`\n'
    'function of floats imported from another module) is an uninterpreted function too.  Distinct array parameters are distinct arrays (no aliasing).\n')
PYMOD_DEF = ('/-- Python\'s `a % b` on floats, exact: `a - b*floor(a/b)` -/\n'
             'def pyMod (a b : Rat) : Rat := a - b * ((Rat.floor (a / b) : Int) : Rat)\n\n')


def translate_polexpl(repo):
    """pygyro/advection/accelerated_advection_steps.py: `general_poloidal_advection_step_expl` (Heun predictor / corrector on the (theta, r) nodes)"""
    tr, fns, sha = kernel_functions(repo, ADV_REL, ['general_poloidal_advection_step_expl'], pure_imports=('f_eq',))
    tr.procedures = True
    body = tr.function(fns[0])
    head = ('/-\nGENERATED by harness/translate_pure.py from %s, function general_poloidal_advection_step_expl\n(sha256 of its source %s) — do not edit.\n%s%s%s-/\n'
            'set_option linter.unusedVariables false\nnamespace PygyroVerif.Gen.PolExpl\n\n%s%s'
            % (ADV_REL, sha, SPLINE_SEMANTICS, ARRAY_SEMANTICS_ND, POLEXPL_SEMANTICS, SPLINE_TYPES, PYMOD_DEF))
    return head + body + '\nend PygyroVerif.Gen.PolExpl\n'


POLIMPL_SEMANTICS = (
    '`from numpy import pi, abs` in the body: `pi` is a leading parameter of `run`; `abs(x)` of a float is `pyAbs x = if x < 0 then -x else x`.\n'
    'An `if` whose branches only assign (names, array elements, nested such `if`s) is translated as a FUNCTION OF THE STATE, `let σ := if c then … else …`:\n'
    'the statements after it are translated once (they are not copied into the branches); other `if`s (those containing loops) as before.\n'
    'A `for` whose body only assigns (no inner loop, no call of a kernel, no break / return / raise) applies the state function `body_of_<loop>` once per iteration;\n'
    'that function is the composition, in the order of the source, of `part<k>_of_<loop>`: the body cut at every `if` (the same statements; nothing else changes).\n'
    '`while (norm > tol):` is a fuel-recursive function (`F` = number of TESTS of the condition allowed: a run that makes N sweeps needs F ≥ N + 1; out of\n'
    'fuel = the model artefact `.outOfFuel`).  `multFactor *= 0.5` multiplies by the exact rational 1/2.\n')
PYABS_DEF = ('/-- `abs(x)` on a float -/\n'
             'def pyAbs (x : Rat) : Rat := if x < 0 then -x else x\n\n')


def translate_polimpl(repo):
    """pygyro/advection/accelerated_advection_steps.py: `general_poloidal_advection_step_impl` (implicit trapezoidal rule: fixed-point sweeps over the
    (theta, r) nodes until the largest displacement between two sweeps is at most `tol`, then the value at the converged feet)"""
    tr, fns, sha = kernel_functions(repo, ADV_REL, ['general_poloidal_advection_step_impl'], pure_imports=('f_eq',))
    tr.procedures = tr.if_state = True
    body = tr.function(fns[0])
    head = ('/-\nGENERATED by harness/translate_pure.py from %s, function general_poloidal_advection_step_impl\n(sha256 of its source %s) — do not edit.\n%s%s%s%s-/\n'
            'set_option linter.unusedVariables false\nnamespace PygyroVerif.Gen.PolImpl\n\n%s%s%s'
            % (ADV_REL, sha, SPLINE_SEMANTICS, ARRAY_SEMANTICS_ND, POLEXPL_SEMANTICS, POLIMPL_SEMANTICS, SPLINE_TYPES, PYMOD_DEF, PYABS_DEF))
    return head + body + '\nend PygyroVerif.Gen.PolImpl\n'


LAGVALS_SEMANTICS = (
    '`shifts: int[:]` is a read-only array of integers `Nat → Int` (length `shifts_len`); `for j, s in enumerate(shifts)` makes `len(shifts)` iterations with\n'
    '`s = shifts[j]` an `Int`.  `idx = (i - s) %% nz`: the difference is an `Int`, the modulus `nz = vals.shape[0]` a natural number, and `%%` is Lean\'s `%%` on\n'
    '`Int` (`Int.emod`, the NON-NEGATIVE remainder), which is Python\'s value for nz > 0 (nz = 0 raises ZeroDivisionError in Python and gives `i - s` here; the\n'
    'theorems state 0 < nz); as an index it is `Int.toNat`.  `from numpy import pi, empty_like` in the body: `pi` is a leading parameter of `run` (an arbitrary\n'
    'rational), `new_q = empty_like(qVals)` a fresh 1-D array of the length of `qVals` with arbitrary contents `U`.  ONE statement with a slice is translated:\n'
    '`new_q[:] = (qVals + thetaShifts[j]) %% (2*pi)` — numpy evaluates the right-hand side into a temporary (everything on the right is read in the state before\n'
    'the statement), checks the shapes (len(qVals) = len(new_q), or len(qVals) = 1: broadcasting; ValueError otherwise) and copies: this is the element-wise\n'
    'loop `for k in range(len(new_q)): new_q[k] = (qVals[k] + thetaShifts[j]) %% (2*pi)`, given in closed form (entries beyond the length are not touched).\n'
    'The function parameter `eval_spline_1d_scalar` (float result, every array argument `Final`) is an UNINTERPRETED total function of its arguments.  The function\n'
    'parameter(s) %s: never mentioned in the body (only in a comment), NOT translated — no field, no parameter of `run`.\n'
    '`a %% b` on floats is `pyMod a b = a - b*floor(a/b)` (Python: the result has the sign of the divisor; this is the value for every b ≠ 0, computed exactly;\n'
    'the kernel only uses b = 2*pi; b = 0 raises in Python and gives `a` here).  Distinct array parameters are distinct arrays (no aliasing).\n')


def translate_lagvals(repo):
    """pygyro/advection/accelerated_advection_steps.py: `general_get_lagrange_vals` (the table of spline values on the shifted theta points that
    `flux_advection` contracts with the Lagrange coefficients)"""
    tr, fns, sha = kernel_functions(repo, ADV_REL, ['general_get_lagrange_vals'])
    tr.procedures = tr.slices = tr.int_arrays = True
    body = tr.function(fns[0])
    unused = ', '.join('`%s`' % u for u in tr.unused_params) or '(none)'
    head = ('/-\nGENERATED by harness/translate_pure.py from %s, function general_get_lagrange_vals\n(sha256 of its source %s) — do not edit.\n%s%s%s-/\n'
            'set_option linter.unusedVariables false\nnamespace PygyroVerif.Gen.LagVals\n\n%s%s'
            % (ADV_REL, sha, SPLINE_SEMANTICS, ARRAY_SEMANTICS_ND, LAGVALS_SEMANTICS % unused, SPLINE_TYPES, PYMOD_DEF))
    return head + body + '\nend PygyroVerif.Gen.LagVals\n'


# =====================================================================================================================
# part 5: pure scalar float functions whose body is one `return <expression>` over numpy's elementary functions (initialiser_funcs.py)

INIT_REL = 'pygyro/initialisation/initialiser_funcs.py'
NP_UNARY = ('exp', 'tanh', 'cos', 'sin', 'sqrt', 'log', 'cosh', 'sinh', 'tan')     # numpy functions kept as UNINTERPRETED `Rat → Rat`
NP_CONSTS = ('pi',)                                                                   # numpy constants kept as UNINTERPRETED `Rat`
NP_IDENTITY = ('real',)                                                               # numpy.real of a float is that float


class ScalarFuncTranslator:
    """`@pure def f(a: 'float', …, m: 'int', …) -> 'float':` whose body is an optional docstring, optional `from numpy import …` lines and ONE
    `return <expression>`  ->  `def f (np : Np) (a : Rat) … (m : Int) … : Rat := <expression>`.  Expressions: parameters, non-negative numeric literals,
    unary minus, `+ - * /`, `e ** <non-negative integer literal>`, calls of the numpy names imported IN THIS BODY (Python's scoping: a name imported in
    another function is not visible) and calls of functions of this module translated before."""

    def __init__(self, fname):
        self.fname = fname
        self.sigs = {}           # name -> list of (param, 'Rat' | 'Int')
        self.np_used = []        # numpy names used, in order of first use

    def refuse(self, node, why):
        raise Refuse(node, why, self.fname)

    def function(self, fn):
        if fn.args.vararg or fn.args.kwarg or fn.args.kwonlyargs or fn.args.posonlyargs or fn.args.defaults:
            self.refuse(fn, '%s: only plain positional parameters without default values' % fn.name)
        if [d.id if isinstance(d, ast.Name) else None for d in fn.decorator_list] != ['pure']:
            self.refuse(fn, '%s: the decorators must be exactly @pure' % fn.name)
        ann = lambda x: x.value if isinstance(x, ast.Constant) and isinstance(x.value, str) else (x.id if isinstance(x, ast.Name) else None)  # noqa: E731
        params = []
        for a in fn.args.args:
            t = {'float': 'Rat', 'int': 'Int'}.get(ann(a.annotation))
            if t is None:
                self.refuse(a, '%s: parameter %s must be annotated float or int' % (fn.name, a.arg))
            if a.arg in ('np', 'Np') or a.arg.endswith('_') or a.arg in [q for q, _ in params]:
                self.refuse(a, '%s: parameter name %s clashes' % (fn.name, a.arg))
            params.append((a.arg, t))
        if ann(fn.returns) != 'float':
            self.refuse(fn, '%s: the return annotation must be float' % fn.name)
        body = list(fn.body)
        if body and isinstance(body[0], ast.Expr) and isinstance(body[0].value, ast.Constant) and isinstance(body[0].value.value, str):
            body = body[1:]
        imported = []
        while body and isinstance(body[0], ast.ImportFrom):
            n = body[0]
            if n.module != 'numpy' or n.level != 0 or any(x.asname for x in n.names):
                self.refuse(n, '%s: only `from numpy import <names>` inside the body' % fn.name)
            for x in n.names:
                if x.name not in NP_UNARY + NP_CONSTS + NP_IDENTITY:
                    self.refuse(n, '%s: numpy name %s is outside the subset %s' % (fn.name, x.name, NP_UNARY + NP_CONSTS + NP_IDENTITY))
                imported.append(x.name)
            body = body[1:]
        if len(body) != 1 or not isinstance(body[0], ast.Return) or body[0].value is None:
            self.refuse(fn, '%s: the body must be [docstring] [from numpy import …] return <expression>' % fn.name)
        names = dict(params)
        for nm in imported:
            if nm in names or nm in self.sigs:
                self.refuse(fn, '%s: the imported name %s is also a parameter or a function of the module' % (fn.name, nm))
        for nm, _ in params:
            if nm in self.sigs or nm == fn.name:
                self.refuse(fn, '%s: the parameter %s has the name of a function of the module' % (fn.name, nm))
        txt = self.expr(body[0].value, names, imported, fn.name)
        self.sigs[fn.name] = params
        sig = ' '.join('(%s : %s)' % (q, t) for q, t in params)
        return ('/-- `%s(%s)` (%s:%d): `%s` -/\ndef %s (np : Np) %s : Rat :=\n  %s\n'
                % (fn.name, ', '.join(q for q, _ in params), self.fname, fn.lineno, ' '.join(ast.unparse(body[0]).split()), fn.name, sig, txt))

    def expr(self, e, names, imported, fname):
        if isinstance(e, ast.Constant) and type(e.value) is int:
            if e.value < 0:
                self.refuse(e, 'negative literal')
            return '(%d : Rat)' % e.value
        if isinstance(e, ast.Constant) and type(e.value) is float:
            import fractions
            import math
            if not math.isfinite(e.value) or e.value < 0:
                self.refuse(e, 'float literal outside the subset')
            q = fractions.Fraction(e.value)              # the exact value of the binary64 literal
            return '(%d : Rat)' % q.numerator if q.denominator == 1 else '((%d : Rat) / (%d : Rat))' % (q.numerator, q.denominator)
        if isinstance(e, ast.Name):
            if names.get(e.id) == 'Rat':
                return e.id
            if names.get(e.id) == 'Int':
                return '((%s : Int) : Rat)' % e.id
            if e.id in imported and e.id in NP_CONSTS:
                if e.id not in self.np_used:
                    self.np_used.append(e.id)
                return 'np.%s' % e.id
            self.refuse(e, '%s: name %s is not a parameter or a numpy constant imported in this body' % (fname, e.id))
        if isinstance(e, ast.UnaryOp) and isinstance(e.op, ast.USub):
            return '(-%s)' % self.expr(e.operand, names, imported, fname)
        if isinstance(e, ast.BinOp) and type(e.op) in (ast.Add, ast.Sub, ast.Mult, ast.Div):
            op = {ast.Add: '+', ast.Sub: '-', ast.Mult: '*', ast.Div: '/'}[type(e.op)]
            return '(%s %s %s)' % (self.expr(e.left, names, imported, fname), op, self.expr(e.right, names, imported, fname))
        if isinstance(e, ast.BinOp) and isinstance(e.op, ast.Pow):
            if not (isinstance(e.right, ast.Constant) and type(e.right.value) is int and e.right.value >= 0):
                self.refuse(e, '%s: `**` with an exponent that is not a non-negative integer literal' % fname)
            return '(%s ^ (%d : Nat))' % (self.expr(e.left, names, imported, fname), e.right.value)
        if isinstance(e, ast.Call) and isinstance(e.func, ast.Name) and not e.keywords:
            f = e.func.id
            if f in names:
                self.refuse(e, '%s: call of the parameter %s' % (fname, f))
            if f in imported and f in NP_IDENTITY and len(e.args) == 1:
                return self.expr(e.args[0], names, imported, fname)          # real(x) of a float x is x
            if f in imported and f in NP_UNARY and len(e.args) == 1:
                if f not in self.np_used:
                    self.np_used.append(f)
                return '(np.%s %s)' % (f, self.expr(e.args[0], names, imported, fname))
            if f in self.sigs and f not in imported and len(e.args) == len(self.sigs[f]):
                parts = []
                for a, (q, t) in zip(e.args, self.sigs[f]):
                    if t == 'Int':
                        if not (isinstance(a, ast.Name) and names.get(a.id) == 'Int'):
                            self.refuse(e, '%s: the argument for the int parameter %s of %s must be an int parameter' % (fname, q, f))
                        parts.append(a.id)
                    else:
                        parts.append(self.expr(a, names, imported, fname))
                return '(%s np %s)' % (f, ' '.join(parts))
        self.refuse(e, '%s: expression `%s` is outside the subset' % (fname, ast.unparse(e)[:80]))


INITFUNCS_SEMANTICS = (
    'Scalar functions (body = one `return <expression>`): a plain Lean definition over exact rationals.  Floats are exact rationals (`/` is exact division,\n'
    'x/0 = 0; a float literal is its exact binary64 value: `0.5` = 1/2, `2.0` = 2); an `int` parameter is a Lean `Int`, cast where it meets a float;\n'
    '`e ** n` with a non-negative integer literal `n` is `e ^ n`; unary minus binds as in Python (`-a * b` = `(-a) * b`, `-x**2` = `-(x**2)`).\n'
    'The numpy names a function imports in its body (`from numpy import …`; a name is visible only in the function that imports it) are NOT interpreted:\n'
    '%s are fields of the record `Np`, the first parameter `np` of every definition (arbitrary functions `Rat → Rat` / an arbitrary rational: the theorems\n'
    'hold for every choice).  `real(x)` of a float is `x` (numpy.real of a real number).  A call of a function of the module defined above is the call of its\n'
    'translation with the same `np`.  Overflow, NaN and the errors numpy reports for `sqrt` / division are not modelled.\n'
    'Array fillers: translated as the kernels of the other targets (below); inside them `f_eq` and `perturbation` are fields of the record of locals and leading\n'
    'parameters of `run`; the definition `<name> np U F …` after each namespace applies `run` to the translations `f_eq np`, `perturbation np` of the functions\n'
    'of the same name of THIS module (each bound exactly once in the module, by its `def`).  In the fillers every Python `int` parameter is a Lean `Int`.\n')


def translate_initfuncs(repo):
    """pygyro/initialisation/initialiser_funcs.py: the scalar profile functions and the four array fillers"""
    src = open(os.path.join(repo, INIT_REL)).read()
    tree = ast.parse(src)
    scalars = ['n0', 'Ti', 'perturbation', 'f_eq', 'n0deriv_normalised', 'Te', 'init_f']
    fillers = ['init_f_flux', 'init_f_pol', 'init_f_vpar', 'feq_vector']
    other = [n for n in tree.body if not isinstance(n, ast.FunctionDef) and not (isinstance(n, ast.Expr) and isinstance(n.value, ast.Constant))
             and not (isinstance(n, ast.ImportFrom) and n.module == 'pyccel.decorators' and n.level == 0
                      and [(x.name, x.asname) for x in n.names] == [('pure', None)])]
    if other:
        raise Refuse(other[0], 'module-level statement other than `from pyccel.decorators import pure` and function definitions', INIT_REL)
    defs = {}
    for nm in scalars + fillers:
        f = [n for n in tree.body if isinstance(n, ast.FunctionDef) and n.name == nm]
        if len(f) != 1 or len(module_bindings(tree, nm)) != 1:
            raise Refuse(tree, '%s not bound exactly once, by a module-level def' % nm, INIT_REL)
        defs[nm] = f[0]
    st = ScalarFuncTranslator(INIT_REL)
    order = sorted(scalars, key=lambda nm: defs[nm].lineno)      # callees first = source order (a call of a later function is refused)
    sc_parts = [st.function(defs[nm]) for nm in order]
    ext = {nm: ([t for _, t in st.sigs[nm]], 'Rat') for nm in ('f_eq', 'perturbation')}
    tr = ArrayFuncTranslator(INIT_REL, '', int_type='Int', externals=ext)
    tr.tree = tree
    tr.numpy_empty = False
    tr.int_builtin = not module_bindings(tree, 'int')
    fl_parts = []
    for nm in fillers:
        fn = defs[nm]
        used = sorted({n.func.id for n in ast.walk(fn) if isinstance(n, ast.Call) and isinstance(n.func, ast.Name)} & set(ext))
        body = tr.function(fn)
        sig, _ = tr.sigs[nm]
        ps = []
        for (q, t, _fin) in sig:
            ps.append((q, t))
            if t == 'Nat → Rat':
                ps.append((q + '_len', 'Nat'))
        fl_parts.append(body + '\n/-- `%s(…)` with the functions %s of this module in place of the uninterpreted parameters of `%s_.run` -/\n'
                        'def %s (np : Np) (U : Nat → Rat) (F : Nat) %s : Out %s_.St :=\n  %s_.run U F %s %s\n'
                        % (nm, ', '.join('`%s`' % u for u in used), nm, nm, ' '.join('(%s : %s)' % (q, t) for q, t in ps), nm, nm,
                           ' '.join('(%s np)' % u for u in used), ' '.join(q for q, _ in ps)))
    used_np = [x for x in NP_UNARY + NP_CONSTS if x in st.np_used]
    fields = '\n'.join('  %s : %s' % (x, 'Rat' if x in NP_CONSTS else 'Rat → Rat') for x in used_np)
    sha = hashlib.sha256('\n'.join(ast.get_source_segment(src, defs[nm]) or '' for nm in scalars + fillers).encode()).hexdigest()[:16]
    head = ('/-\nGENERATED by harness/translate_pure.py from %s, functions %s\n(sha256 of their sources %s) — do not edit.\n%s%s%s%s-/\n'
            'set_option linter.unusedVariables false\nnamespace PygyroVerif.Gen.InitFuncs\n\n'
            '/-- numpy\'s elementary functions / constants the module uses: UNINTERPRETED (every theorem holds for every value of this record) -/\n'
            'structure Np where\n%s\n\n'
            % (INIT_REL, ', '.join(scalars + fillers), sha,
               INITFUNCS_SEMANTICS % ', '.join('`%s`' % x for x in used_np), SPLINE_SEMANTICS, ARRAY_SEMANTICS_ND,
               EXT_SEMANTICS.split('Calls of')[0], fields))
    return head + '\n'.join(sc_parts) + '\n' + SPLINE_TYPES + '\n'.join(fl_parts) + '\nend PygyroVerif.Gen.InitFuncs\n'


CROSS2D_SEMANTICS = (
    'The two loops `for i, x in enumerate(X)` / `for j, y in enumerate(Y)` are nested; every (der1, der2) branch of the source has its OWN copy of the four\n'
    'loops (they are numbered in source order: branch b = 0..3 owns loops 4b+1 … 4b+4: over X, over Y, over the rows k, over the columns l).  The local arrays\n'
    '`basis1`, `basis2`, `theCoeffs` are obtained ONCE with `empty` (contents `U`) and re-used by every iteration: iteration (i, j) hands the kernels what the\n'
    'previous iteration left in them.  `z` is a 2-D array `Nat → Nat → Rat` written at the one position `[i, j]`; its extents and those of `coeffs` are not\n'
    'modelled.  A branch condition `der1 == a and der2 == b` is the conjunction; when no branch applies the function returns without writing.\n')


def translate_cross2d(repo):
    """the 2-D CROSS entry points `nu_eval_spline_2d_cross` (spline_eval_funcs.py) and `cu_eval_spline_2d_cross` (cubic_uniform_spline_eval_funcs.py):
    `z[i, j]` = the 2-D evaluation at `(X[i], Y[j])`; the kernels they call are those of EvalSplineGen.lean / BasisFunsGen.lean / CubicUniformGen.lean"""
    nu = ['nu_basis_funs', 'nu_find_span', 'nu_basis_funs_1st_der', 'nu_eval_spline_2d_cross']
    tr, fns, sha_nu = spline_functions(repo, nu)
    tr.slices = True
    nu_part = [tr.function(f) for f in fns][-1]        # the first three only register the signatures of the callees
    cu = ['cu_find_span', 'cu_basis_funs', 'cu_basis_funs_1st_der', 'cu_eval_spline_2d_cross']
    tr, fns, sha_cu = kernel_functions(repo, CU_REL, cu, int_type='Int')
    tr.slices = True
    cu_part = [tr.function(f) for f in fns][-1]
    head = ('/-\nGENERATED by harness/translate_pure.py from %s, function %s, and %s, function %s\n'
            '(calling the kernels of BasisFunsGen.lean, EvalSplineGen.lean and CubicUniformGen.lean; sha256 of the sources of the functions and their\n'
            'callees %s / %s) — do not edit.\n%s%s%s%s%s%s-/\n'
            'import PygyroVerif.Generated.EvalSplineGen\nimport PygyroVerif.Generated.CubicUniformGen\n\n'
            'set_option linter.unusedVariables false\n'
            % (SPLINE_REL, nu[-1], CU_REL, cu[-1], sha_nu, sha_cu, SPLINE_SEMANTICS, ARRAY_SEMANTICS_ND,
               INT_SEMANTICS.replace('In this file', 'In the namespace Cross2DCu'), SLICE2D_SEMANTICS, EXT_SEMANTICS.split('Calls of')[0], CROSS2D_SEMANTICS))
    return (head + 'namespace PygyroVerif.Gen.Cross2DNu\nopen PygyroVerif.Gen.BasisFuns PygyroVerif.Gen.EvalSpline\n\n' + nu_part
            + '\nend PygyroVerif.Gen.Cross2DNu\n\nnamespace PygyroVerif.Gen.Cross2DCu\nopen PygyroVerif.Gen.CubicUniform\n\n' + cu_part
            + '\nend PygyroVerif.Gen.Cross2DCu\n')


VEC2D_SEMANTICS = (
    'Every (der1, der2) branch of the source has its OWN copy of the three loops (numbered in source order: branch b = 0..3 owns loops 3b+1 … 3b+3: over the\n'
    'points, over the rows, over the columns).  `for i in range(len(x))` makes `len(x)` iterations and reads `x[i]`, `y[i]` where the source does (the length of\n'
    '`y` is not consulted, as in the source); `for i, xi in enumerate(x)` as described above.  The array parameters of these two functions are NOT annotated\n'
    '`Final` (an array that is not `Final` may be handed to a `Final` parameter of a kernel; the statements are translated as they stand: only `z` is written).  The local\n'
    'arrays `basis1`, `basis2`, `theCoeffs` are obtained ONCE with `empty` (contents `U`) and re-used by every iteration.  The branches are nested:\n'
    '`if der1 == 0: (if der2 == 0 … elif der2 == 1 …) elif der1 == 1: (…)`; when no branch applies the function returns without writing.\n')


def translate_vec2d(repo):
    """the 2-D VECTOR entry points `nu_eval_spline_2d_vector` (spline_eval_funcs.py) and `cu_eval_spline_2d_vector` (cubic_uniform_spline_eval_funcs.py):
    `z[k]` = the 2-D evaluation at `(x[k], y[k])`; the kernels they call are those of EvalSplineGen.lean / BasisFunsGen.lean / CubicUniformGen.lean"""
    nu = ['nu_basis_funs', 'nu_find_span', 'nu_basis_funs_1st_der', 'nu_eval_spline_2d_vector']
    tr, fns, sha_nu = spline_functions(repo, nu)
    tr.slices = True
    nu_part = [tr.function(f) for f in fns][-1]        # the first three only register the signatures of the callees
    cu = ['cu_find_span', 'cu_basis_funs', 'cu_basis_funs_1st_der', 'cu_eval_spline_2d_vector']
    tr, fns, sha_cu = kernel_functions(repo, CU_REL, cu, int_type='Int')
    tr.slices = True
    cu_part = [tr.function(f) for f in fns][-1]
    head = ('/-\nGENERATED by harness/translate_pure.py from %s, function %s, and %s, function %s\n'
            '(calling the kernels of BasisFunsGen.lean, EvalSplineGen.lean and CubicUniformGen.lean; sha256 of the sources of the functions and their\n'
            'callees %s / %s) — do not edit.\n%s%s%s%s%s%s-/\n'
            'import PygyroVerif.Generated.EvalSplineGen\nimport PygyroVerif.Generated.CubicUniformGen\n\n'
            'set_option linter.unusedVariables false\n'
            % (SPLINE_REL, nu[-1], CU_REL, cu[-1], sha_nu, sha_cu, SPLINE_SEMANTICS, ARRAY_SEMANTICS_ND,
               INT_SEMANTICS.replace('In this file', 'In the namespace Vec2DCu'), SLICE2D_SEMANTICS, EXT_SEMANTICS.split('Calls of')[0], VEC2D_SEMANTICS))
    return (head + 'namespace PygyroVerif.Gen.Vec2DNu\nopen PygyroVerif.Gen.BasisFuns PygyroVerif.Gen.EvalSpline\n\n' + nu_part
            + '\nend PygyroVerif.Gen.Vec2DNu\n\nnamespace PygyroVerif.Gen.Vec2DCu\nopen PygyroVerif.Gen.CubicUniform\n\n' + cu_part
            + '\nend PygyroVerif.Gen.Vec2DCu\n')


def main():
    ap = argparse.ArgumentParser()
    ap.add_argument('--repo', default=os.environ.get('PYGYRO_REPO', '/repo'))
    ap.add_argument('--out', default=DEFAULT_OUT)
    ap.add_argument('--quiet', action='store_true')
    ap.add_argument('--only', choices=['procgrid', 'blocks', 'grid', 'findspan', 'basisfuns', 'eval1d', 'flux', 'cueval', 'vpar', 'density', 'evalvec', 'polexpl', 'eval2d', 'lagvals', 'polimpl', 'cross2d', 'vec2d', 'initfuncs'], help='translate one target only')
    a = ap.parse_args()
    os.makedirs(a.out, exist_ok=True)
    status = 0
    for key, fname, fn in (('procgrid', 'ProcGridGen.lean', lambda: translate_process_grid(a.repo)[0]),
                           ('blocks', 'BlocksGen.lean', lambda: translate_layout_blocks(a.repo)),
                           ('grid', 'GridGen.lean', lambda: translate_grid(a.repo)),
                           ('findspan', 'FindSpanGen.lean', lambda: translate_find_span(a.repo)),
                           ('basisfuns', 'BasisFunsGen.lean', lambda: translate_basis_funs(a.repo)),
                           ('eval1d', 'EvalSplineGen.lean', lambda: translate_eval1d(a.repo)),
                           ('flux', 'FluxGen.lean', lambda: translate_flux(a.repo)),
                           ('cueval', 'CubicUniformGen.lean', lambda: translate_cueval(a.repo)),
                           ('vpar', 'VParGen.lean', lambda: translate_vpar(a.repo)),
                           ('density', 'DensityGen.lean', lambda: translate_density(a.repo)),
                           ('evalvec', 'EvalVectorGen.lean', lambda: translate_evalvec(a.repo)),
                           ('polexpl', 'PolExplGen.lean', lambda: translate_polexpl(a.repo)),
                           ('eval2d', 'Eval2DGen.lean', lambda: translate_eval2d(a.repo)),
                           ('lagvals', 'LagValsGen.lean', lambda: translate_lagvals(a.repo)),
                           ('polimpl', 'PolImplGen.lean', lambda: translate_polimpl(a.repo)),
                           ('cross2d', 'Cross2DGen.lean', lambda: translate_cross2d(a.repo)),
                           ('vec2d', 'Vec2DGen.lean', lambda: translate_vec2d(a.repo)),
                           ('initfuncs', 'InitFuncsGen.lean', lambda: translate_initfuncs(a.repo))):
        if a.only and a.only != key:
            continue
        path = os.path.join(a.out, fname)
        try:
            txt = fn()
        except Refuse as e:
            if os.path.exists(path):
                os.remove(path)
            print('translate_pure: REFUSED %s: %s' % (fname, e))
            status = 3
            continue
        old = open(path).read() if os.path.exists(path) else None
        if old != txt:
            open(path, 'w').write(txt)
        if not a.quiet:
            print('translate_pure: wrote %s (%d lines)%s' % (path, txt.count('\n'), '' if old != txt else ' [unchanged]'))
    sys.exit(status)


if __name__ == '__main__':
    main()
