#!/usr/bin/env python3
"""AST translator for the GRID-LEVEL LOOPS of /repo that wire local slices to physical parameters  ->  Lean 4 (translator round 6b).

Targets (all regenerated on every run of `./check C05`; the output directory is git-ignored):

  pygyro/advection/advection.py          FluxSurfaceAdvection.gridStep
                                         VParallelAdvection.gridStep, .gridStepKeepGradient
                                         PoloidalAdvection.gridStep, .gridStep_SplinesUnchanged
  pygyro/poisson/poisson_solver.py       DensityFinder.getPerturbedRho, .getRho
                                         DiffEqSolver.solveEquation, QuasiNeutralitySolver.solveEquation
  pygyro/initialisation/initialiser.py   initialise_flux_surface, initialise_poloidal, initialise_v_parallel
                                    -> lean/PygyroVerif/Generated/GridOpsGen.lean

For each method ONE Lean function `<Class>_<method> (grids : GridV) : Option (List RawCall)`: `none` when an `assert` on the layouts fails,
otherwise the LIST OF CALLS the loops make, in order.  A `RawCall` (Model/GridApi.lean) is the callee as written in the source plus the
arguments, bound to the callee's parameter names, each an `Arg`: which local slice (`Arg.view tag [i, j]`), which coordinate value
(`Arg.coord dim globalIndex`), which integer (`Arg.idx`), which entry of which table (`Arg.sub1/2/3 (Arg.obj "self._tbl") …`), or an object
the loop does not look into (`Arg.obj "dt"`).  The kernels' bodies are NOT translated here (they are other targets of translate_pure.py).
The `Grid` accessors are not translated either: they are the hand-written interface Model/GridApi.lean (on top of Model/Layout.lean and
Model/GridSM.lean); this translator checks that their bodies in pygyro/model/grid.py are still the text that interface models and refuses
otherwise.  Props/C05Gen2.lean proves that the generated call lists, read through the table conventions of Lemmas/GridOpsGen.lean, are the call
lists of Model/Wiring.lean, for every layout and every process.

Recognised shapes (anything else: REFUSAL, exit status 3, no Lean file left behind):
  statements   docstrings; `assert <layout condition>` only BEFORE the first call / loop of a method (= guard, `none`);
               `x = G.getLayout(G'.currentLayout)`; `x = G.getGlobalIdxVals(k)`; `x = <value>`;
               `if <table>[<index>] == <constant>: x = <value> else: x = <value>`   (the test becomes a Boolean FUNCTION PARAMETER of the index);
               `for a, b in G.getCoords(k):`, `for a, b in enumerate(G.getGlobalIdxVals(k)):`, `for a, b in enumerate(<x bound as above>):`;
               a call statement `self.m(…)`, `self.attr.m(…)`, `<non-grid parameter>.m(…)`, `<function of the module or imported>(…)`;
               `self.<attr>[<integer constant>] = <constant>`   (a constant stored into scratch memory of the operator: skipped, listed in the output)
  layout conditions   `L.dims_order == (…integers…)`, `L.dims_order[1:] == L'.dims_order`, `L.dims_order[-1] == n`, `L.dims_order[k] == n`
  values       loop variables, bound names, parameters, `self.a.b`, `<parameter>.a`, non-negative integer constants, `G.get2DSlice(i, j)`,
               `G.get1DSlice(i, j, k)`, `G.getAllData()`, `G.getCoordVals(k)`, `np.real(v)`, `v[a]`, `v[a, b]`, `v[a, b, c]`, `v - w`, `v * w`
  scoping      Python variables are function-scoped, Lean binders are block-scoped: a name may be bound only once on a path, and a use of a
               name outside the block that bound it is refused (so the two scopings agree on everything accepted).
  call binding when the callee's `def` is found (same class or a base class in the same module; the class a parameter is annotated with;
               a function of the module or of a module imported with `from .x import f`) the arguments are bound to ITS parameter names and omitted
               parameters get their default; otherwise they are named arg0, arg1, … (keywords are then refused).

Standard library only.   usage: translate_gridops.py [--repo /repo] [--out DIR] [--quiet]
"""
import argparse
import ast
import hashlib
import os
import re
import sys

HERE = os.path.dirname(os.path.abspath(__file__))
sys.path.insert(0, HERE)
try:
    from translate_pure import Refuse, DEFAULT_OUT      # noqa: E402  (same refusal type / default output directory as the other translator)
except Exception:                                       # translate_pure.py is edited by others; this translator does not depend on its state
    DEFAULT_OUT = os.path.join(os.path.dirname(HERE), 'lean', 'PygyroVerif', 'Generated')

    class Refuse(Exception):
        def __init__(self, node, why, fname='?'):
            super().__init__('%s:%s: %s' % (fname, getattr(node, 'lineno', '?'), why))

ADV = 'pygyro/advection/advection.py'
POI = 'pygyro/poisson/poisson_solver.py'
INI = 'pygyro/initialisation/initialiser.py'
GRID = 'pygyro/model/grid.py'
TARGETS = [(ADV, 'FluxSurfaceAdvection', 'gridStep'),
           (ADV, 'VParallelAdvection', 'gridStep'), (ADV, 'VParallelAdvection', 'gridStepKeepGradient'),
           (ADV, 'PoloidalAdvection', 'gridStep'), (ADV, 'PoloidalAdvection', 'gridStep_SplinesUnchanged'),
           (POI, 'DensityFinder', 'getPerturbedRho'), (POI, 'DensityFinder', 'getRho'),
           (POI, 'DiffEqSolver', 'solveEquation'), (POI, 'QuasiNeutralitySolver', 'solveEquation'),
           (INI, None, 'initialise_flux_surface'), (INI, None, 'initialise_poloidal'), (INI, None, 'initialise_v_parallel')]

# the accessors of Grid as Model/GridApi.lean models them: (parameters after self, statements without the docstring)
GRID_API = {
    'getCoords': (['i'], ['return enumerate(self._Vals[self._layout.dims_order[i]][self._layout.starts[i]:self._layout.ends[i]])']),
    'getCoordVals': (['i'], ['return self._Vals[self._layout.dims_order[i]][self._layout.starts[i]:self._layout.ends[i]]']),
    'getGlobalIdxVals': (['i'], ['return range(self._layout.starts[i], self._layout.ends[i])']),
    'get2DSlice': (['*slices'], ['assert len(slices) == self._nDims - 2',
                                 'slices = slices + (slice(self._nGlobalCoords[self._layout.dims_order[-2]]), '
                                 'slice(self._nGlobalCoords[self._layout.dims_order[-1]]))',
                                 'return self._f[tuple(slices)]']),
    'get1DSlice': (['*slices'], ['assert len(slices) == self._nDims - 1',
                                 'slices = slices + (slice(self._nGlobalCoords[self._layout.dims_order[-1]]),)',
                                 'return self._f[tuple(slices)]']),
    'getAllData': ([], ['return self._f']),
    'getLayout': (['name'], ['return self._layout_manager.getLayout(name)']),
    'currentLayout': ([], ['return self._current_layout_name']),
}
GRID_INIT_NEEDS = ['self._Vals = eta_grid', 'self._nDims = len(eta_grid)', 'self._nGlobalCoords = [len(x) for x in eta_grid]',
                   'self._layout = layouts.getLayout(chosenLayout)', 'self._current_layout_name = chosenLayout']
GRID_METHODS = set(GRID_API) | {'getEta', 'getGlobalIndices', 'get2DSpline', 'getSpline', 'get1DSpline', 'setLayout', 'saveGridValues',
                                'freeGridSave', 'restoreGridValues', 'getMin', 'getMax', 'writeH5Dataset', 'loadFromFile', 'getH5Dataset'}

LEAN_RESERVED = set('''at from end do fun open variable theorem def let have show if then else match with in by namespace section import instance
class structure where deriving mutual universe local private protected export attribute notation macro syntax Type Prop Sort forall exists
true false some none forEnum enumerate RawCall Arg GridV Coord Layout List Nat Option String Bool not and or Unit fun_prop this sorry admit
axiom unsafe partial noncomputable abbrev example inductive termination_by decreasing_by calc suffices obtain from using return for while
break continue try catch finally throw mut unless'''.split())
LEAN_TYPES = {'nat': 'Nat', 'coord': 'Coord', 'arg': 'Arg', 'idxs': 'List Nat', 'layout': 'Layout'}


def lean_str(s):
    if not re.match(r'^[\x20-\x7e]*$', s) or '"' in s or '\\' in s:
        raise ValueError('string %r cannot be a Lean literal here' % s)
    return '"%s"' % s


def is_docstring(s):
    return isinstance(s, ast.Expr) and isinstance(s.value, ast.Constant) and isinstance(s.value.value, str)


def body_text(fn):
    return [ast.unparse(s) for s in fn.body if not is_docstring(s)]


def param_names(fn, drop_self):
    a = fn.args
    names = [x.arg for x in a.posonlyargs + a.args]
    if drop_self:
        names = names[1:]
    if a.vararg:
        names.append('*' + a.vararg.arg)
    if a.kwarg:
        names.append('**' + a.kwarg.arg)
    names += [x.arg for x in a.kwonlyargs]
    return names


class Module:
    """one parsed source file of the repository"""
    cache = {}

    def __init__(self, repo, rel):
        self.repo, self.rel = repo, rel
        self.src = open(os.path.join(repo, rel), encoding='utf-8').read()
        self.tree = ast.parse(self.src)
        self.sha = hashlib.sha256(self.src.encode()).hexdigest()[:16]
        self.classes = {n.name: n for n in self.tree.body if isinstance(n, ast.ClassDef)}
        self.functions = {n.name: n for n in self.tree.body if isinstance(n, ast.FunctionDef)}
        self.imports = {}        # local name -> (relative module path, original name) for `from .x import f [as g]`
        for n in self.tree.body:
            if isinstance(n, ast.ImportFrom) and n.level > 0 and n.module:
                base = os.path.dirname(rel)
                for _ in range(n.level - 1):
                    base = os.path.dirname(base)
                path = os.path.join(base, *n.module.split('.')) + '.py'
                for al in n.names:
                    self.imports[al.asname or al.name] = (path, al.name)

    @classmethod
    def get(cls, repo, rel):
        key = (repo, rel)
        if key not in cls.cache:
            cls.cache[key] = Module(repo, rel)
        return cls.cache[key]

    def method(self, cname, mname, seen=()):
        """the FunctionDef of `mname` in class `cname` or in a base class defined in the same module"""
        c = self.classes.get(cname)
        if c is None or cname in seen:
            return None
        for n in c.body:
            if isinstance(n, ast.FunctionDef) and n.name == mname:
                return n
        for b in c.bases:
            if isinstance(b, ast.Name):
                r = self.method(b.id, mname, seen + (cname,))
                if r is not None:
                    return r
        return None


def check_grid_api(repo):
    m = Module.get(repo, GRID)

    def refuse(node, why):
        raise Refuse(node, why, GRID)
    if 'Grid' not in m.classes:
        refuse(m.tree, 'class Grid not found')
    meth = {n.name: n for n in m.classes['Grid'].body if isinstance(n, ast.FunctionDef)}
    for name, (params, body) in GRID_API.items():
        if name not in meth:
            refuse(m.classes['Grid'], 'accessor Grid.%s not found' % name)
        if param_names(meth[name], True) != params:
            refuse(meth[name], 'Grid.%s takes %s, Model/GridApi.lean models %s' % (name, param_names(meth[name], True), params))
        if body_text(meth[name]) != body:
            refuse(meth[name], 'the body of Grid.%s is no longer what Model/GridApi.lean models: %s' % (name, body_text(meth[name])))
        isprop = any(isinstance(d, ast.Name) and d.id == 'property' for d in meth[name].decorator_list)
        if isprop != (name == 'currentLayout') or (meth[name].decorator_list and not isprop):
            refuse(meth[name], 'decorators of Grid.%s changed' % name)
    init = body_text(meth['__init__']) if '__init__' in meth else []
    for need in GRID_INIT_NEEDS:
        if need not in init:
            refuse(meth.get('__init__', m.tree), 'Grid.__init__ no longer contains `%s`' % need)
    return m


class MethodTranslator:
    def __init__(self, repo, rel, cname, fname):
        self.repo, self.rel, self.cname, self.fname = repo, rel, cname, fname
        self.mod = Module.get(repo, rel)
        if cname is None:
            self.fn = self.mod.functions.get(fname)
        else:
            if cname not in self.mod.classes:
                raise Refuse(self.mod.tree, 'class %s not found' % cname, rel)
            own = [n for n in self.mod.classes[cname].body if isinstance(n, ast.FunctionDef) and n.name == fname]
            self.fn = own[0] if len(own) == 1 else None
        if self.fn is None:
            raise Refuse(self.mod.tree, '%s%s not found (or defined twice)' % (cname + '.' if cname else '', fname), rel)
        self.lean_name = (cname + '_' if cname else '') + fname
        self.tests = []          # (lean name, source text)
        self.skipped = []        # source text of skipped constant stores
        self.bindings = []       # (callee, where its parameter names came from)
        a = self.fn.args
        if a.vararg or a.kwarg or a.kwonlyargs or a.posonlyargs:
            self.refuse(self.fn, 'parameter list with * / ** / keyword-only parameters')
        if self.fn.decorator_list:
            self.refuse(self.fn, 'decorated method')
        args = a.args[1:] if cname else a.args
        if cname and (not a.args or a.args[0].arg != 'self'):
            self.refuse(self.fn, 'first parameter is not self')
        self.params = [x.arg for x in args]
        self.annot = {x.arg: (ast.unparse(x.annotation) if x.annotation is not None else None) for x in args}
        used_as_grid = set()
        for n in ast.walk(self.fn):
            if isinstance(n, ast.Attribute) and isinstance(n.value, ast.Name) and n.value.id in self.params and n.attr in GRID_METHODS:
                used_as_grid.add(n.value.id)
        self.grids = [p for p in self.params if self.annot[p] == 'Grid' or p in used_as_grid]
        for p in self.params:
            self.name_ok(self.fn, p)

    def refuse(self, node, why):
        raise Refuse(node, '%s%s: %s' % (self.cname + '.' if self.cname else '', self.fname, why), self.rel)

    def name_ok(self, node, name):
        if name in LEAN_RESERVED or not re.match(r'^[A-Za-z_][A-Za-z0-9_]*$', name) or name.startswith('test_'):
            self.refuse(node, 'the Python name `%s` cannot be used as a Lean binder here' % name)
        return name

    # ---------------------------------------------------------------------------------------------- expressions
    def int_const(self, node):
        if isinstance(node, ast.Constant) and type(node.value) is int and node.value >= 0:
            return node.value
        return None

    def grid_call(self, node):
        """(grid name, method, args) when `node` is `G.m(args)` with G a grid parameter"""
        if (isinstance(node, ast.Call) and isinstance(node.func, ast.Attribute) and isinstance(node.func.value, ast.Name)
                and node.func.value.id in self.grids):
            if node.keywords or any(isinstance(x, ast.Starred) for x in node.args):
                self.refuse(node, 'keyword / starred arguments in a call of a Grid accessor')
            return node.func.value.id, node.func.attr, node.args
        return None

    def axis(self, node, args, what):
        if len(args) != 1 or self.int_const(args[0]) is None:
            self.refuse(node, '%s needs one non-negative integer constant as axis' % what)
        return self.int_const(args[0])

    def nat(self, node, env):
        """an index expression: a loop index / global-index variable or a non-negative integer constant"""
        if isinstance(node, ast.Name):
            if env.get(node.id) == 'nat':
                return node.id
            self.refuse(node, '`%s` is used as an index but is %s' % (node.id, env.get(node.id, 'not bound here (Python would read a value left over '
                                                                                      'from another block, or a global)')))
        c = self.int_const(node)
        if c is not None:
            return str(c)
        self.refuse(node, 'index expression `%s` is neither a loop variable nor a non-negative integer constant' % ast.unparse(node))

    def layout(self, node, env):
        if isinstance(node, ast.Name) and env.get(node.id) == 'layout':
            return node.id
        gc = self.grid_call(node)
        if gc and gc[1] == 'getLayout' and len(gc[2]) == 1:
            a = gc[2][0]
            if isinstance(a, ast.Attribute) and a.attr == 'currentLayout' and isinstance(a.value, ast.Name) and a.value.id in self.grids:
                return '(%s.getLayout %s.currentLayout)' % (gc[0], a.value.id)
            self.refuse(node, 'getLayout(%s): only the name `<grid>.currentLayout` is modelled' % ast.unparse(a))
        self.refuse(node, '`%s` is not a recognised layout expression' % ast.unparse(node))

    def dims_order(self, node, env):
        if isinstance(node, ast.Attribute) and node.attr == 'dims_order':
            return self.layout(node.value, env) + '.ord'
        return None

    def cond(self, node, env):
        if not (isinstance(node, ast.Compare) and len(node.ops) == 1 and isinstance(node.ops[0], ast.Eq)):
            self.refuse(node, 'assert condition `%s` is not a single ==' % ast.unparse(node))
        left, right = node.left, node.comparators[0]
        lo = self.dims_order(left, env)
        if lo is not None:
            if isinstance(right, ast.Tuple) and all(self.int_const(e) is not None for e in right.elts):
                return '%s = [%s]' % (lo, ', '.join(str(self.int_const(e)) for e in right.elts))
            self.refuse(node, 'dims_order is compared with `%s` (expected a tuple of integers)' % ast.unparse(right))
        if isinstance(left, ast.Subscript):
            base = self.dims_order(left.value, env)
            if base is None:
                self.refuse(node, 'assert on `%s`' % ast.unparse(left))
            sl = left.slice
            if isinstance(sl, ast.Slice):
                if sl.upper is None and sl.step is None and sl.lower is not None and self.int_const(sl.lower) is not None:
                    ro = self.dims_order(right, env)
                    if ro is None:
                        self.refuse(node, 'a slice of dims_order is compared with `%s`' % ast.unparse(right))
                    return '%s.drop %d = %s' % (base, self.int_const(sl.lower), ro)
                self.refuse(node, 'slice `%s` of dims_order' % ast.unparse(sl))
            n = self.int_const(right)
            if n is None:
                self.refuse(node, 'an entry of dims_order is compared with `%s`' % ast.unparse(right))
            if ast.unparse(sl) == '-1':
                return '%s.getLast? = some %d' % (base, n)
            k = self.int_const(sl)
            if k is not None:
                return '%s[%d]? = some %d' % (base, k, n)
            self.refuse(node, 'index `%s` of dims_order' % ast.unparse(sl))
        self.refuse(node, 'assert condition `%s` is not about dims_order' % ast.unparse(node))

    def opaque(self, node, env):
        """`self.a.b` / `<non-grid parameter>.a`: an object the loop does not look into"""
        n = node
        while isinstance(n, ast.Attribute):
            n = n.value
        if isinstance(n, ast.Name) and (n.id == 'self' and self.cname or env.get(n.id) == 'obj') and isinstance(node, ast.Attribute):
            return '.obj %s' % lean_str(ast.unparse(node))
        return None

    def value(self, node, env):
        """Lean term of type Arg"""
        if isinstance(node, ast.Name):
            k = env.get(node.id)
            if k == 'nat':
                return '.idx %s' % node.id
            if k == 'coord':
                return '.coord %s.1 %s.2' % (node.id, node.id)
            if k == 'arg':
                return node.id
            if k == 'idxs':
                return '.idxs %s' % node.id
            if k in ('grid', 'obj'):
                return '.obj %s' % lean_str(node.id)
            self.refuse(node, '`%s` is %s' % (node.id, 'a layout (not a value a kernel receives)' if k == 'layout' else
                                              'not bound here (a module-level name, or a variable of another block)'))
        c = self.int_const(node)
        if c is not None:
            return '.idx %d' % c
        if isinstance(node, ast.Attribute):
            o = self.opaque(node, env)
            if o is None:
                self.refuse(node, 'attribute `%s` (only attributes of self / of a non-grid parameter are values)' % ast.unparse(node))
            return o
        gc = self.grid_call(node)
        if gc:
            g, m, args = gc
            if m in ('get2DSlice', 'get1DSlice'):
                return '%s.%s %s [%s]' % (g, m, lean_str(g), ', '.join(self.nat(a, env) for a in args))
            if m == 'getAllData':
                if args:
                    self.refuse(node, 'getAllData takes no argument')
                return '%s.getAllData %s' % (g, lean_str(g))
            if m == 'getCoordVals':
                return '%s.getCoordVals %d' % (g, self.axis(node, args, 'getCoordVals'))
            self.refuse(node, 'Grid method `%s` is not a value accessor that is modelled' % m)
        if isinstance(node, ast.Call):
            if ast.unparse(node.func) == 'np.real' and len(node.args) == 1 and not node.keywords:
                return '.un "np.real" (%s)' % self.value(node.args[0], env)
            self.refuse(node, 'call `%s` inside a value' % ast.unparse(node)[:80])
        if isinstance(node, ast.Subscript):
            base = self.value(node.value, env)
            elts = node.slice.elts if isinstance(node.slice, ast.Tuple) else [node.slice]
            if not 1 <= len(elts) <= 3 or any(isinstance(e, (ast.Slice, ast.Starred)) for e in elts):
                self.refuse(node, 'subscript `%s` (1 to 3 plain indices are modelled)' % ast.unparse(node)[:80])
            return '.sub%d (%s) %s' % (len(elts), base, ' '.join('(%s)' % self.value(e, env) for e in elts))
        if isinstance(node, ast.BinOp) and isinstance(node.op, (ast.Sub, ast.Mult)):
            return '.bin "%s" (%s) (%s)' % ('-' if isinstance(node.op, ast.Sub) else '*', self.value(node.left, env), self.value(node.right, env))
        self.refuse(node, 'value `%s` is outside the recognised shapes' % ast.unparse(node)[:80])

    def test(self, node, env):
        """`<table>[<index>] == <constant>`  ->  application of a Boolean function parameter"""
        if (isinstance(node, ast.Compare) and len(node.ops) == 1 and isinstance(node.ops[0], ast.Eq) and isinstance(node.left, ast.Subscript)
                and self.opaque(node.left.value, env) is not None and isinstance(node.comparators[0], ast.Constant)
                and type(node.comparators[0].value) is int and not isinstance(node.left.slice, (ast.Tuple, ast.Slice))):
            name = 'test_' + re.sub(r'[^A-Za-z0-9]+', '_', ast.unparse(node.left.value)).strip('_') + '_eq_' + str(node.comparators[0].value).replace('-', 'm')
            txt = '%s[.] == %s' % (ast.unparse(node.left.value), node.comparators[0].value)
            if (name, txt) not in self.tests:
                self.tests.append((name, txt))
            return '%s %s' % (name, self.nat(node.left.slice, env))
        self.refuse(node, 'condition `%s` is not `<table of self>[<index>] == <integer>`' % ast.unparse(node))

    # ---------------------------------------------------------------------------------------------- calls
    def signature(self, call, env):
        """(callee text, [parameter names] or None, {name: default node}, source of the names)"""
        f = call.func
        txt = ast.unparse(f)
        fn, where, drop = None, None, False
        if isinstance(f, ast.Name):
            if f.id in env:
                self.refuse(call, 'a local variable is called')
            if f.id in self.mod.functions:
                fn, where = self.mod.functions[f.id], '%s:%d' % (self.rel, self.mod.functions[f.id].lineno)
            elif f.id in self.mod.imports:
                path, orig = self.mod.imports[f.id]
                if os.path.exists(os.path.join(self.repo, path)):
                    m2 = Module.get(self.repo, path)
                    if orig in m2.functions:
                        fn, where = m2.functions[orig], '%s:%d' % (path, m2.functions[orig].lineno)
                if fn is None:
                    self.refuse(call, 'the definition of `%s` (imported from %s) was not found' % (f.id, path))
            else:
                self.refuse(call, '`%s` is neither a function of this module nor imported with `from .x import`' % f.id)
        elif isinstance(f, ast.Attribute):
            root = f
            while isinstance(root, ast.Attribute):
                root = root.value
            if not isinstance(root, ast.Name):
                self.refuse(call, 'callee `%s`' % txt)
            if root.id in self.grids or env.get(root.id) not in (None, 'obj') or (root.id != 'self' and env.get(root.id) != 'obj') \
                    or (root.id == 'self' and not self.cname):
                self.refuse(call, 'callee `%s`: only methods of self, of attributes of self and of non-grid parameters are recorded as kernel calls '
                                  '(a state-changing Grid method inside a wiring loop is not modelled)' % txt)
            if isinstance(f.value, ast.Name):
                cls = self.cname if root.id == 'self' else self.annot.get(root.id)
                if cls:
                    fn = self.mod.method(cls, f.attr)
                    if fn is not None:
                        where, drop = '%s:%d' % (self.rel, fn.lineno), True
                if fn is None and root.id == 'self':
                    self.refuse(call, 'method `%s` of the class (or of a base class in this module) was not found' % f.attr)
        else:
            self.refuse(call, 'callee `%s`' % txt)
        if fn is None:
            return txt, None, {}, None
        a = fn.args
        if a.vararg or a.kwarg or a.kwonlyargs or a.posonlyargs:
            self.refuse(call, 'the definition of `%s` has * / ** / keyword-only parameters' % txt)
        names = [x.arg for x in a.args][1 if drop else 0:]
        defaults = dict(zip(names[len(names) - len(a.defaults):], a.defaults)) if a.defaults else {}
        return txt, names, defaults, where

    def call(self, call, env):
        if any(isinstance(x, ast.Starred) for x in call.args) or any(k.arg is None for k in call.keywords):
            self.refuse(call, 'starred / ** arguments')
        txt, names, defaults, where = self.signature(call, env)
        bound = []
        if names is None:
            if call.keywords:
                self.refuse(call, 'keyword arguments in a call whose definition is not known')
            bound = [('arg%d' % i, self.value(a, env)) for i, a in enumerate(call.args)]
            where = 'definition not in the repository sources read: positional names'
        else:
            if len(call.args) > len(names):
                self.refuse(call, 'more arguments than parameters of `%s`' % txt)
            given = {n: self.value(a, env) for n, a in zip(names, call.args)}
            for k in call.keywords:
                if k.arg not in names or k.arg in given:
                    self.refuse(call, 'keyword `%s` of `%s`' % (k.arg, txt))
                given[k.arg] = self.value(k.value, env)
            for n in names:
                if n in given:
                    bound.append((n, given[n]))
                elif n in defaults:
                    c = self.int_const(defaults[n])
                    bound.append((n, '.idx %d' % c if c is not None else '.obj %s' % lean_str('default ' + ast.unparse(defaults[n]))))
                else:
                    self.refuse(call, 'parameter `%s` of `%s` receives no argument' % (n, txt))
        if (txt, where) not in self.bindings:
            self.bindings.append((txt, where))
        return '[RawCall.mk %s [%s]]' % (lean_str(txt), ', '.join('(%s, %s)' % (lean_str(n), v) for n, v in bound))

    # ---------------------------------------------------------------------------------------------- statements
    def bind(self, node, env, name, kind):
        if name in env:
            self.refuse(node, '`%s` is bound twice on this path (Python re-assignment is not block-scoped)' % name)
        self.name_ok(node, name)
        e = dict(env)
        e[name] = kind
        return e

    def let(self, s, env):
        """(lean line, new env) when `s` is a recognised binding, else None"""
        if isinstance(s, ast.Assign) and len(s.targets) == 1 and isinstance(s.targets[0], ast.Name):
            x, v = s.targets[0].id, s.value
            gc = self.grid_call(v)
            if gc and gc[1] == 'getLayout':
                return 'let %s : Layout := %s' % (x, self.layout(v, env).strip('()')), self.bind(s, env, x, 'layout')
            if gc and gc[1] == 'getGlobalIdxVals':
                return 'let %s : List Nat := %s.getGlobalIdxVals %d' % (x, gc[0], self.axis(v, gc[2], 'getGlobalIdxVals')), self.bind(s, env, x, 'idxs')
            return 'let %s : Arg := %s' % (x, self.value(v, env)), self.bind(s, env, x, 'arg')
        if isinstance(s, ast.If):
            if (len(s.body) == 1 and len(s.orelse) == 1 and all(isinstance(t, ast.Assign) and len(t.targets) == 1 and isinstance(t.targets[0], ast.Name)
                                                                for t in (s.body[0], s.orelse[0]))
                    and s.body[0].targets[0].id == s.orelse[0].targets[0].id):
                x = s.body[0].targets[0].id
                return ('let %s : Arg := if %s then %s else %s' % (x, self.test(s.test, env), self.value(s.body[0].value, env),
                                                                   self.value(s.orelse[0].value, env)), self.bind(s, env, x, 'arg'))
            self.refuse(s, '`if` that is not `if <test>: x = v else: x = w`')
        return None

    def const_store(self, s):
        if (isinstance(s, ast.Assign) and len(s.targets) == 1 and isinstance(s.targets[0], ast.Subscript) and self.cname
                and isinstance(s.targets[0].value, ast.Attribute) and isinstance(s.targets[0].value.value, ast.Name)
                and s.targets[0].value.value.id == 'self' and isinstance(s.value, ast.Constant) and type(s.value.value) in (int, float)
                and re.match(r'^-?\d+$', ast.unparse(s.targets[0].slice))):
            return ast.unparse(s)
        return None

    def loop(self, s, env, ind):
        pad = '  ' * ind
        if s.orelse:
            self.refuse(s, 'for ... else')
        if not (isinstance(s.target, ast.Tuple) and len(s.target.elts) == 2 and all(isinstance(e, ast.Name) for e in s.target.elts)):
            self.refuse(s, 'loop target `%s` is not a pair of names' % ast.unparse(s.target))
        a, b = [e.id for e in s.target.elts]
        it = s.iter
        gc = self.grid_call(it)
        if gc and gc[1] == 'getCoords':
            src, kind = '(%s.getCoords %d)' % (gc[0], self.axis(it, gc[2], 'getCoords')), 'coord'
        elif isinstance(it, ast.Call) and isinstance(it.func, ast.Name) and it.func.id == 'enumerate' and len(it.args) == 1 and not it.keywords \
                and 'enumerate' not in env:
            inner = it.args[0]
            gi = self.grid_call(inner)
            if gi and gi[1] == 'getGlobalIdxVals':
                src, kind = '(enumerate (%s.getGlobalIdxVals %d))' % (gi[0], self.axis(inner, gi[2], 'getGlobalIdxVals')), 'nat'
            elif isinstance(inner, ast.Name) and env.get(inner.id) == 'idxs':
                src, kind = '(enumerate %s)' % inner.id, 'nat'
            else:
                self.refuse(s, 'enumerate(%s): only getGlobalIdxVals(k) or a name bound to it' % ast.unparse(inner))
        else:
            self.refuse(s, 'loop over `%s` (recognised: G.getCoords(k), enumerate(G.getGlobalIdxVals(k)))' % ast.unparse(it)[:80])
        e = env
        binders = []
        for name, k in ((a, 'nat'), (b, kind)):
            if name == '_':
                binders.append('(_ : %s)' % LEAN_TYPES[k])
            else:
                e = self.bind(s, e, name, k)
                binders.append('(%s : %s)' % (name, LEAN_TYPES[k]))
        if a == b and a != '_':
            self.refuse(s, 'both loop variables have the same name')
        return '%sforEnum %s (fun %s =>\n%s)' % (pad, src, ' '.join(binders), self.block(s.body, e, ind + 1))

    def block(self, stmts, env, ind):
        """Lean term of type `List RawCall` for a statement list"""
        pad = '  ' * ind
        stmts = [s for s in stmts if not is_docstring(s)]
        if not stmts:
            return pad + '[]'
        s, rest = stmts[0], stmts[1:]
        if isinstance(s, ast.Pass):
            return self.block(rest, env, ind)
        cs = self.const_store(s)
        if cs is not None:
            self.skipped.append(cs)
            return '%s-- skipped: %s\n%s' % (pad, cs, self.block(rest, env, ind))
        lt = self.let(s, env)
        if lt is not None:
            return '%s(%s;\n%s)' % (pad, lt[0], self.block(rest, lt[1], ind + 1))
        if isinstance(s, ast.For):
            term = self.loop(s, env, ind)
        elif isinstance(s, ast.Expr) and isinstance(s.value, ast.Call):
            term = pad + self.call(s.value, env)
        elif isinstance(s, ast.Assert):
            self.refuse(s, 'assert after the first call / inside a loop (a refusal there would leave side effects)')
        else:
            self.refuse(s, 'statement `%s` is outside the recognised shapes' % ast.unparse(s).split('\n')[0][:100])
        live = [t for t in rest if not isinstance(t, ast.Pass)]
        if not live:
            return term
        return '%s ++\n%s' % (term, self.block(rest, env, ind))

    def translate(self):
        env = {p: ('grid' if p in self.grids else 'obj') for p in self.params}
        lines = []
        stmts = [s for s in self.fn.body if not is_docstring(s)]
        k = 0
        while k < len(stmts):
            s = stmts[k]
            if isinstance(s, ast.Assert):
                if s.msg is not None:
                    self.refuse(s, 'assert with a message expression')
                lines.append('  if ¬ (%s) then none else' % self.cond(s.test, env))
            elif isinstance(s, (ast.Assign, ast.If)) and self.const_store(s) is None:
                lt = self.let(s, env)
                if lt is None:
                    break
                lines.append('  ' + lt[0] + ';')
                env = lt[1]
            else:
                break
            k += 1
        body = self.block(stmts[k:], env, 2)
        lines.append('  some (\n%s)' % body)
        sig = ''.join(' (%s : Nat → Bool)' % n for n, _ in self.tests)
        if self.grids:
            sig += ' (%s : GridV)' % ' '.join(self.grids)
        doc = '/-- `%s%s(%s)` (%s:%d)' % (self.cname + '.' if self.cname else '', self.fname, ', '.join((['self'] if self.cname else []) + self.params),
                                          self.rel, self.fn.lineno)
        for n, t in self.tests:
            doc += ';  `%s k` = the test `%s` at index k' % (n, t)
        doc += ' -/'
        return '%s\ndef %s%s : Option (List RawCall) :=\n%s\n' % (doc, self.lean_name, sig, '\n'.join(lines))


def translate_gridops(repo):
    gm = check_grid_api(repo)
    parts, notes, shas = [], [], {GRID: gm.sha}
    for rel, cname, fname in TARGETS:
        t = MethodTranslator(repo, rel, cname, fname)
        txt = t.translate()
        shas[rel] = t.mod.sha
        parts.append(txt)
        who = (cname + '.' if cname else '') + fname
        for callee, where in t.bindings:
            notes.append('  %-45s %-45s parameter names from %s' % (who, callee, where))
        for sk in t.skipped:
            notes.append('  %-45s skipped statement `%s` (a constant stored into scratch memory of the operator)' % (who, sk))
    head = ('/-\nGENERATED by harness/translate_gridops.py — do not edit.  Sources (sha256, first 16 hex digits):\n'
            + ''.join('  %s  %s\n' % (r, s) for r, s in sorted(shas.items()))
            + 'One function per grid-level method: `none` = an `assert` on the layouts fails; otherwise the list of calls the loops make, in order\n'
              '(`RawCall` = callee as written + arguments bound to the callee\'s parameter names).  Kernel bodies are not translated.\n'
              'API of `Grid` (pygyro/model/grid.py; bodies checked against the text Model/GridApi.lean quotes)  ->  model definition:\n'
              '  G.currentLayout                       GridV.currentLayout       = GridSM.GState.current                       (Model/GridSM.lean)\n'
              '  G.getLayout(name)                     GridV.getLayout name      : Layout                                      (Model/Layout.lean)\n'
              '  <layout>.dims_order                   Layout.ord\n'
              '  G.getCoords(k)                        GridV.getCoords k         = [(i, (ord[k], starts[k] + i)) | i < ends[k] - starts[k]]   (Layout.starts / Layout.ends)\n'
              '  G.getCoordVals(k)                     GridV.getCoordVals k      = Arg.coordVals ord[k] starts[k] ends[k]\n'
              '  G.getGlobalIdxVals(k)                 GridV.getGlobalIdxVals k  = Layout.globalIdxVals                        (C02.globalIdxVals_spec)\n'
              '  G.get2DSlice(i, j) / get1DSlice(i, j, k)   GridV.get2DSlice "G" [i, j] = Arg.view "G" [i, j], Arg.invalid if the assert on the number of indices fails\n'
              '  G.getAllData()                        GridV.getAllData "G"      = Arg.view "G" []\n'
              '  enumerate(l)                          enumerate l;   `for a, b in pairs: body`  =  forEnum pairs (fun a b => body)\n'
              'Values: loop index / global index = `Arg.idx`, loop coordinate `r` = `Arg.coord r.1 r.2` (dimension, global index), `self.a` / a non-grid\n'
              'parameter = `Arg.obj "<text>"`, `np.real(v)` = `Arg.un "np.real" v`, `v[a, b]` = `Arg.sub2 v a b`, `v - w` / `v * w` = `Arg.bin`.\n'
              'Statement sequence = `++`; assignments = `let`.  Callee parameter names and skipped statements:\n'
            + '\n'.join(notes) + '\n-/\nimport PygyroVerif.Model.GridApi\n\nset_option linter.unusedVariables false\n\nnamespace PygyroVerif.Gen.GridOps\nopen PygyroVerif PygyroVerif.GridApi\n\n')
    return head + '\n'.join(parts) + '\nend PygyroVerif.Gen.GridOps\n'


def main():
    ap = argparse.ArgumentParser()
    ap.add_argument('--repo', default=os.environ.get('PYGYRO_REPO', '/repo'))
    ap.add_argument('--out', default=DEFAULT_OUT)
    ap.add_argument('--quiet', action='store_true')
    a = ap.parse_args()
    os.makedirs(a.out, exist_ok=True)
    path = os.path.join(a.out, 'GridOpsGen.lean')
    try:
        txt = translate_gridops(a.repo)
    except (Refuse, ValueError, OSError, SyntaxError) as e:
        if os.path.exists(path):
            os.remove(path)
        print('translate_gridops: REFUSED GridOpsGen.lean: %s' % e)
        sys.exit(3)
    old = open(path, encoding='utf-8').read() if os.path.exists(path) else None
    if old != txt:
        open(path, 'w', encoding='utf-8').write(txt)
    if not a.quiet:
        print('translate_gridops: wrote %s (%d lines)%s' % (path, txt.count('\n'), '' if old != txt else ' [unchanged]'))
    sys.exit(0)


if __name__ == '__main__':
    main()
