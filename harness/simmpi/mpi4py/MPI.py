"""Simulated mpi4py.MPI for the /verif harness: ranks are threads holding a baton.

Exactly one rank thread runs at a time; switches happen only inside collective calls (and at thread
start / end), so a run is a deterministic function of (program, scheduler policy, seed/choices).
The scheduler decides which runnable rank continues, hence the *arrival order* at every collective.

Semantics implemented = the abstract machine of DESIGN.md C06: blocking collectives, matched per
communicator instance in program order; a collective completes when every member of the instance has
issued it.  When the last member arrives, the calls are compared (operation, root, byte counts,
datatype, reduction operator); a difference is recorded as MISMATCH and aborts the run instead of
copying garbage.  A state in which no rank is runnable and not all have finished is reported as DEADLOCK with
every rank's pending call.

Only the API surface pygyro uses is implemented.
"""
import threading
import random as _random
import traceback as _traceback

import numpy as np

DOUBLE = 'MPI.DOUBLE'
SUM, MIN, MAX, LAND = 'SUM', 'MIN', 'MAX', 'LAND'
_tls = threading.local()


class SimAbort(BaseException):
    """raised inside rank threads when the simulated world is torn down"""


class _World:
    def __init__(self, n, policy, seed, choices):
        self.n = n
        self.cv = threading.Condition()
        self.current = None
        self.state = ['ready'] * n          # ready | blocked | done
        self.pending = [None] * n           # description of the call a blocked rank waits in
        self.policy = policy
        self.rng = _random.Random(seed)
        self.choices = list(choices) if choices is not None else None
        self.choice_log = []                # (number of runnable ranks, index chosen)
        self.abort = False
        self.deadlock = None
        self.mismatch = None
        self.collectives = []               # (comm id, op, arrival order in world ranks)
        self.traces = [[] for _ in range(n)]
        self.nswitch = 0

    # must be called with cv held
    def pick_next(self):
        ready = [r for r in range(self.n) if self.state[r] == 'ready']
        if not ready:
            if any(s == 'blocked' for s in self.state):
                self.deadlock = {'pending': {r: self.pending[r] for r in range(self.n) if self.state[r] == 'blocked'},
                                 'done': [r for r in range(self.n) if self.state[r] == 'done']}
                self.abort = True
            self.current = None
            self.cv.notify_all()
            return
        if self.choices is not None:
            k = self.choices.pop(0) if self.choices else 0
            k = k % len(ready)
        elif self.policy == 'inorder':
            k = 0
        elif self.policy == 'reverse':
            k = len(ready) - 1
        elif self.policy == 'random':
            k = self.rng.randrange(len(ready))
        elif self.policy == 'roundrobin':
            self.nswitch += 1
            k = self.nswitch % len(ready)
        else:
            raise ValueError(self.policy)
        self.choice_log.append((len(ready), k))
        self.current = ready[k]
        self.cv.notify_all()

    def wait_turn(self, me):
        while self.current != me and not self.abort:
            self.cv.wait(timeout=1.0)
        if self.abort:
            raise SimAbort()


class _Shared:
    """state shared by all members of one communicator instance"""

    def __init__(self, world, cid, members):
        self.world = world
        self.id = cid
        self.members = list(members)      # world ranks, index = rank in this communicator
        self.n = len(self.members)
        self.calls = [None] * self.n
        self.arrivals = []
        self.outbox = [None] * self.n
        self.nderived = 0
        self.scratch = None


class Comm:
    def __init__(self, shared=None, rank=None, cart_dims=None):
        self._s = shared
        self._rank = rank
        self._dims = cart_dims

    # --- basic
    def Get_rank(self):
        return self._rank

    def Get_size(self):
        return self._s.n

    rank = property(Get_rank)
    size = property(Get_size)

    def __eq__(self, o):
        o = _resolve(o)
        s = _resolve(self)
        return isinstance(o, Comm) and o._s is s._s

    def __ne__(self, o):
        return not self.__eq__(o)

    def __hash__(self):
        return id(_resolve(self)._s)

    @property
    def sim_id(self):
        return self._s.id

    # --- the rendezvous
    def _collective(self, sig, item, finish=None):
        """sig: tuple compared across members (None entries are not compared); item: contribution.
        `finish(shared, items)` runs once, on the last arriver, before anyone is released."""
        s = self._s
        w = s.world
        me = s.members[self._rank]
        w.traces[me].append((s.id,) + tuple(sig))
        with w.cv:
            s.calls[self._rank] = (sig, item)
            s.arrivals.append(me)
            if all(c is not None for c in s.calls):
                sigs = [c[0] for c in s.calls]
                bad = _mismatch(sigs)
                if bad is not None:
                    w.mismatch = {'comm': s.id, 'calls': {s.members[i]: repr(sigs[i]) for i in range(s.n)}, 'what': bad}
                    w.abort = True
                    w.cv.notify_all()
                    raise SimAbort()
                items = [c[1] for c in s.calls]
                if finish is not None:
                    finish(s, items)
                w.collectives.append((s.id, sig[0], tuple(s.arrivals)))
                for i, m in enumerate(s.members):
                    s.outbox[i] = items
                    w.state[m] = 'ready'
                    w.pending[m] = None
                s.calls = [None] * s.n
                s.arrivals = []
            else:
                w.state[me] = 'blocked'
                w.pending[me] = (s.id,) + tuple(sig)
            w.pick_next()
            w.wait_turn(me)
            res = s.outbox[self._rank]
        return res

    def Barrier(self):
        self._collective(('Barrier',), None)

    # --- topology
    def Create_cart(self, dims, periods=None, reorder=False):
        dims = [int(d) for d in dims]
        if int(np.prod(dims)) != self._s.n:
            raise ValueError('Create_cart: dims %r do not multiply to communicator size %d' % (dims, self._s.n))

        # reorder=True allows the library to place the processes freely in the topology: this one does use the permission
        # (it reverses the ranks), as topology-aware libraries do; code that relies on the old ranks is then wrong
        reorder = bool(reorder)

        def fin(s, items):
            s.scratch = _Shared(s.world, '%s.cart%d' % (s.id, s.nderived), list(reversed(s.members)) if reorder else s.members)
            s.nderived += 1
        self._collective(('Create_cart', tuple(dims), reorder), None, fin)
        return Comm(self._s.scratch, (self._s.n - 1 - self._rank) if reorder else self._rank, dims)

    def Get_coords(self, rank):
        return [int(c) for c in np.unravel_index(rank, self._dims)]

    def Sub(self, remain):
        coords = self.Get_coords(self._rank)
        color = tuple(c for c, r in zip(coords, remain) if not r)
        key = tuple(c for c, r in zip(coords, remain) if r)
        dims = [d for d, r in zip(self._dims, remain) if r]
        return self._split(color, key, dims, ('Sub', tuple(bool(r) for r in remain)))

    def Split(self, color=0, key=0):
        return self._split(int(color), (key, self._rank), None, ('Split',))

    def _split(self, color, key, dims, sig):
        def fin(s, items):
            groups = {}
            for r, (c, k) in enumerate(items):
                groups.setdefault(c, []).append((k, r))
            table = {}
            for c in sorted(groups, key=repr):
                lst = sorted(groups[c])
                sh = _Shared(s.world, '%s.%s%d#%s' % (s.id, sig[0].lower(), s.nderived, repr(c).replace(' ', '').replace('.', '_')),
                             [s.members[r] for _, r in lst])
                for newrank, (_, r) in enumerate(lst):
                    table[r] = (sh, newrank)
            s.nderived += 1
            s.scratch = table
        self._collective(sig, (color, key), fin)
        sh, newrank = self._s.scratch[self._rank]
        return Comm(sh, newrank, dims)

    def Free(self):
        pass

    def Abort(self, code=0):
        w = self._s.world
        with w.cv:
            w.abort = True
            w.cv.notify_all()
        raise SimAbort()

    # --- buffer collectives (byte semantics, like MPI with a (buf, datatype) spec)
    @staticmethod
    def _buf(spec):
        dt = None
        if isinstance(spec, (tuple, list)):
            buf = spec[0]
            if len(spec) > 1 and isinstance(spec[-1], str):
                dt = spec[-1]
        else:
            buf = spec
        buf = np.asarray(buf) if not isinstance(buf, np.ndarray) else buf
        return buf, (dt if dt is not None else str(buf.dtype))

    @staticmethod
    def _bytes(a):
        if not a.flags['C_CONTIGUOUS']:
            raise ValueError('simulated MPI: buffer is not contiguous')
        return a.reshape(-1).view(np.uint8)

    def Alltoall(self, send, recv):
        sb, sdt = self._buf(send)
        rb, rdt = self._buf(recv)
        n = self._s.n
        allv = self._collective(('Alltoall', None, sb.nbytes, rb.nbytes, sdt, rdt), self._bytes(sb).copy())
        if sb.nbytes % n or rb.nbytes != sb.nbytes:
            raise ValueError('simulated MPI: Alltoall byte counts %d/%d on %d ranks' % (sb.nbytes, rb.nbytes, n))
        cs = sb.nbytes // n
        out = self._bytes(rb)
        for q in range(n):
            out[q * cs:(q + 1) * cs] = allv[q][self._rank * cs:(self._rank + 1) * cs]

    def Allgather(self, send, recv):
        sb, sdt = self._buf(send)
        rb, rdt = self._buf(recv)
        n = self._s.n
        allv = self._collective(('Allgather', None, sb.nbytes, rb.nbytes, sdt, rdt), self._bytes(sb).copy())
        if rb.nbytes != sb.nbytes * n:
            raise ValueError('simulated MPI: Allgather byte counts %d/%d on %d ranks' % (sb.nbytes, rb.nbytes, n))
        cs = sb.nbytes
        out = self._bytes(rb)
        for q in range(n):
            out[q * cs:(q + 1) * cs] = allv[q]

    def Reduce(self, send, recv, op=SUM, root=0):
        sb, sdt = self._buf(send)
        allv = self._collective(('Reduce', int(root), sb.nbytes, op, sdt), np.array(sb, copy=True))
        if self._rank == root:
            rb, _ = self._buf(recv)
            f = {SUM: np.add, MIN: np.minimum, MAX: np.maximum}[op]
            order = _tls.world_obj.reduce_order(len(allv))
            acc = allv[order[0]].copy()
            for i in order[1:]:
                acc = f(acc, allv[i])
            rb[...] = acc.reshape(rb.shape)

    def Bcast(self, buf, root=0):
        b, dt = self._buf(buf)
        allv = self._collective(('Bcast', int(root), b.nbytes, dt), np.array(b, copy=True))
        if self._rank != root:
            b[...] = allv[root]

    def Gatherv(self, send, recvspec, root=0):
        sb, sdt = self._buf(send)
        sizes = None
        if self._rank == root:
            sizes = [int(x) for x in recvspec[1]]
        allv = self._collective(('Gatherv', int(root), None, sdt), (np.array(sb, copy=True).reshape(-1), sizes))
        if self._rank == root:
            buf, sizes, starts = recvspec[0], recvspec[1], recvspec[2]
            for q, (a, _) in enumerate(allv):
                if int(sizes[q]) != a.size:
                    w = self._s.world
                    with w.cv:
                        w.mismatch = {'comm': self._s.id, 'what': 'Gatherv count of rank %d: root expects %d, rank sends %d' % (q, sizes[q], a.size)}
                        w.abort = True
                        w.cv.notify_all()
                    raise SimAbort()
                buf[starts[q]:starts[q] + sizes[q]] = a

    # --- object collectives
    def gather(self, obj, root=0):
        allv = self._collective(('gather', int(root)), obj)
        return list(allv) if self._rank == root else None

    def allgather(self, obj):
        return list(self._collective(('allgather',), obj))

    def bcast(self, obj, root=0):
        allv = self._collective(('bcast', int(root)), obj)
        return allv[root]

    def reduce(self, obj, op=SUM, root=0):
        allv = self._collective(('reduce', int(root), op), obj)
        if self._rank != root:
            return None
        return self._fold(allv, op)

    def allreduce(self, obj, op=SUM):
        return self._fold(self._collective(('allreduce', None, op), obj), op)

    @staticmethod
    def _fold(vals, op):
        order = _tls.world_obj.reduce_order(len(vals))
        acc = vals[order[0]]
        for i in order[1:]:
            v = vals[i]
            if op == SUM:
                acc = acc + v
            elif op == MIN:
                acc = min(acc, v)
            elif op == MAX:
                acc = max(acc, v)
            elif op == LAND:
                acc = bool(acc) and bool(v)
            else:
                raise ValueError(op)
        return acc

    def Iprobe(self, *a, **k):
        return False


def _mismatch(sigs):
    """first difference between the members' call signatures (None entries are wildcards)"""
    ref = sigs[0]
    for i, s in enumerate(sigs[1:], 1):
        if len(s) != len(ref) or s[0] != ref[0]:
            return 'operation: rank0 %r vs rank%d %r' % (ref[0], i, s[0])
        for j, (a, b) in enumerate(zip(ref, s)):
            if a is None or b is None:
                continue
            if a != b:
                return 'argument %d: rank0 %r vs rank%d %r' % (j, a, i, b)
    if ref[0] in ('Alltoall', 'Allgather'):
        for i, s in enumerate(sigs):
            pass
    return None


class _WorldObj:
    """per-run options visible to collectives (reduction order)"""

    def __init__(self, reduce_order='rank', seed=0):
        self.mode = reduce_order
        self.rng = _random.Random(seed + 7919)

    def reduce_order(self, n):
        idx = list(range(n))
        if self.mode == 'reverse':
            idx.reverse()
        elif self.mode == 'random':
            self.rng.shuffle(idx)
        return idx


def family(comm_id):
    """communicator family of an instance id: the id without the colour parts ("W.cart0.sub1#(0,)" -> "W.cart0.sub1")"""
    import re
    return re.sub(r'#[^.]*', '', comm_id)


def _resolve(c):
    if isinstance(c, _WorldProxy):
        return _tls.world
    return c


class _WorldProxy(Comm):
    """COMM_WORLD: resolves to the calling thread's world communicator (Grid.__init__ captures
    MPI.COMM_WORLD as a default argument at import time)."""

    def __init__(self):
        pass

    def __getattribute__(self, name):
        if name in ('__class__', '__eq__', '__ne__', '__hash__'):
            return object.__getattribute__(self, name)
        return getattr(_tls.world, name)

    def __eq__(self, o):
        return _tls.world == _resolve(o)

    def __ne__(self, o):
        return not self.__eq__(o)

    def __hash__(self):
        return hash(_tls.world)


COMM_WORLD = _WorldProxy()


class RunResult:
    def __init__(self, world, out):
        self.results = out
        self.traces = world.traces
        self.deadlock = world.deadlock
        self.mismatch = world.mismatch
        self.collectives = world.collectives
        self.choice_log = world.choice_log

    @property
    def ok(self):
        return self.deadlock is None and self.mismatch is None and all(r[0] == 'ok' for r in self.results)

    def values(self):
        return [r[1] for r in self.results]

    def first_error(self):
        """the most informative failure: mismatch/deadlock, else the first genuine exception"""
        if self.mismatch is not None:
            return 'MISMATCH %r' % (self.mismatch,)
        if self.deadlock is not None:
            return 'DEADLOCK %r' % (self.deadlock,)
        for r in self.results:
            if r[0] == 'err' and not isinstance(r[1], SimAbort):
                return '%s: %s' % (type(r[1]).__name__, r[1])
        for r in self.results:
            if r[0] == 'err':
                return repr(r[1])
        return None

    def error_kind(self):
        """small enum: ok | assert | value-error | runtime-error | attribute-error | index-error | mismatch | deadlock | other:<T>"""
        if self.mismatch is not None:
            return 'mismatch'
        if self.deadlock is not None:
            return 'deadlock'
        for r in self.results:
            if r[0] == 'err' and not isinstance(r[1], SimAbort):
                return {'AssertionError': 'assert', 'ValueError': 'value-error', 'RuntimeError': 'runtime-error',
                        'AttributeError': 'attribute-error', 'IndexError': 'index-error',
                        'ZeroDivisionError': 'zero-division'}.get(type(r[1]).__name__, 'other:' + type(r[1]).__name__)
        return 'ok'

    def traceback(self):
        for r in self.results:
            if r[0] == 'err' and not isinstance(r[1], SimAbort):
                return r[2]
        return None


def run(nranks, fn, *args, policy='inorder', seed=0, choices=None, reduce_order='rank', per_rank_args=None):
    """run fn(*args) on `nranks` simulated ranks; returns a RunResult"""
    world = _World(nranks, policy, seed, choices)
    shared = _Shared(world, 'W', range(nranks))
    wobj = _WorldObj(reduce_order, seed)
    out = [None] * nranks

    def body(r):
        _tls.world = Comm(shared, r)
        _tls.world_obj = wobj
        try:
            with world.cv:
                world.wait_turn(r)
            a = args if per_rank_args is None else per_rank_args[r]
            out[r] = ('ok', fn(*a))
        except SimAbort as e:
            out[r] = ('err', e, '')
        except BaseException as e:
            out[r] = ('err', e, _traceback.format_exc())
            with world.cv:
                world.abort = True
                world.cv.notify_all()
        finally:
            with world.cv:
                world.state[r] = 'done'
                if not world.abort:
                    world.pick_next()

    ths = [threading.Thread(target=body, args=(r,), daemon=True) for r in range(nranks)]
    with world.cv:
        world.pick_next()
    for t in ths:
        t.start()
    for t in ths:
        t.join()
    return RunResult(world, out)
