"""C19 helper: variant loaders, argument generators and comparison for the accelerated kernels.

A *case* is a dict
    module : short name of the reference module ('spline_eval_funcs', ...)
    kernel : function name in the reference module
    args   : positional arguments; numpy arrays are copied before every run (in-place updates are outputs);
             a function-valued argument is the placeholder ('__fn__', module, name), resolved inside each variant
    tag    : the branch combination the case was generated for (histogram)
    hint   : magnitude of the terms that are added up to form the outputs (condition-aware part of the bound)
    angles : indices of array arguments holding angles reduced mod 2*pi (compared on the circle)
    slack  : extra absolute slack (only the implicit poloidal step: 4*tol*gain, see gen_pol)
    alias  : optional (name, n_args) of a specialised pythran variant computing the same thing
A *variant* is a dict  short module name -> module object  (reference / pythran copy / numba copy / compiled).

Run as a script it is the worker for the compiled variant:
    python kernel_args.py --worker <scratch repo> <cases.pkl> <results.pkl>
so that the compiled extension modules are imported in a separate process and never shadow the interpreted ones.
"""
import importlib
import importlib.util
import math
import os
import pickle
import sys
import types

import numpy as np

PKG = {'spline_eval_funcs': 'splines', 'cubic_uniform_spline_eval_funcs': 'splines',
       'accelerated_advection_steps': 'advection', 'poisson_tools': 'poisson', 'initialiser_funcs': 'initialisation'}
TWO_PI = 2 * math.pi
RTOL = 1e-12


# ----------------------------------------------------------------------------------------------
# variants

def load_reference(repo, want_ext=False):
    """the modules `import pygyro.<pkg>.<mod>` finds with `repo` first on sys.path"""
    out = {}
    for m, p in PKG.items():
        mod = importlib.import_module('pygyro.%s.%s' % (p, m))
        f = os.path.realpath(mod.__file__)
        if not f.startswith(os.path.realpath(str(repo))):
            raise RuntimeError('%s imported from %s, not from %s' % (m, f, repo))
        if want_ext != (not f.endswith('.py')):
            raise RuntimeError('%s is %s (%s expected)' % (m, f, 'extension module' if want_ext else 'python source'))
        out[m] = mod
    return out


def _load_file(path, name):
    spec = importlib.util.spec_from_file_location(name, str(path))
    mod = importlib.util.module_from_spec(spec)
    spec.loader.exec_module(mod)
    return mod


def load_pythran(repo):
    """the pythran_* copies executed as plain Python (`#pythran export` lines are comments)"""
    pg = os.path.join(str(repo), 'pygyro')
    out = {}
    for m, p in PKG.items():
        if m != 'accelerated_advection_steps':
            out[m] = _load_file(os.path.join(pg, p, 'pythran_%s.py' % m), '_c19_pythran_' + m)
    # the advection copy lives in advection/pythran_deps and imports its dependencies as top-level modules from there
    deps = os.path.join(pg, 'advection', 'pythran_deps')
    names = ['pythran_spline_eval_funcs', 'pythran_cubic_uniform_spline_eval_funcs', 'pythran_initialiser_funcs']
    saved = {n: sys.modules.pop(n, None) for n in names}
    notes = {}
    try:
        for n in names:
            src = os.path.join(deps, n + '.py')
            orig = os.path.join(pg, PKG[n[len('pythran_'):]], n + '.py')
            notes[n] = 'same file' if os.path.realpath(src) == os.path.realpath(orig) else \
                ('identical text' if open(src).read() == open(orig).read() else 'DIFFERENT from ' + orig)
            sys.modules[n] = _load_file(src, n)
        out['accelerated_advection_steps'] = _load_file(os.path.join(deps, 'pythran_accelerated_advection_steps.py'),
                                                        '_c19_pythran_accelerated_advection_steps')
        out['__deps__'] = {n: sys.modules[n] for n in names}
    finally:
        for n in names:
            sys.modules.pop(n, None)
            if saved[n] is not None:
                sys.modules[n] = saved[n]
    out['__notes__'] = notes
    return out


class _NumbaType:
    """stands for numba.types.f8 etc.: `f8[:]`, `f8(f8, i4)`, `Tuple((i4, f8))` all evaluate to a no-op object"""

    def __getitem__(self, k):
        return self

    def __call__(self, *a, **k):
        return self


def numba_stub():
    nb = types.ModuleType('numba')

    def njit(*a, **k):
        if len(a) == 1 and callable(a[0]) and not k:
            return a[0]
        return lambda f: f
    nb.njit = nb.jit = nb.vectorize = njit
    nb.prange = range
    ty = types.ModuleType('numba.types')
    ty.__getattr__ = lambda name: _NumbaType()
    for n in ('f8', 'f4', 'i4', 'i8', 'b1', 'c16', 'void', 'Tuple', 'int32', 'int64', 'float64', 'boolean'):
        setattr(ty, n, _NumbaType())
        setattr(nb, n, _NumbaType())
    pycc = types.ModuleType('numba.pycc')

    class CC:
        def __init__(self, name):
            self.name = name

        def export(self, *a, **k):
            return lambda f: f

        def compile(self):
            pass
    pycc.CC = CC
    nb.types, nb.pycc = ty, pycc
    return {'numba': nb, 'numba.types': ty, 'numba.pycc': pycc}


def load_numba(repo):
    """the numba_* copies executed with a stub `numba` (njit/jit identity decorators, prange = range, types no-ops).
    numba_accelerated_advection_steps imports `splines.numba_...` / `initialisation.numba_...` (the numba build runs with
    PYTHONPATH=<repo>/pygyro): these packages are provided as empty namespace stand-ins holding the loaded copies."""
    pg = os.path.join(str(repo), 'pygyro')
    fake = numba_stub()
    out = {}
    touched = list(fake) + ['splines', 'initialisation']
    saved = {n: sys.modules.get(n) for n in touched}
    try:
        sys.modules.update(fake)
        for m, p in PKG.items():
            if m != 'accelerated_advection_steps':
                out[m] = _load_file(os.path.join(pg, p, 'numba_%s.py' % m), '_c19_numba_' + m)
        for pkg in ('splines', 'initialisation'):
            pm = types.ModuleType(pkg)
            pm.__path__ = []
            sys.modules[pkg] = pm
            touched.append(pkg)
        for m in ('spline_eval_funcs', 'cubic_uniform_spline_eval_funcs', 'initialiser_funcs'):
            full = '%s.numba_%s' % (PKG[m], m)
            sys.modules[full] = out[m]
            setattr(sys.modules[PKG[m]], 'numba_' + m, out[m])
            touched.append(full)
        out['accelerated_advection_steps'] = _load_file(os.path.join(pg, 'advection', 'numba_accelerated_advection_steps.py'),
                                                        '_c19_numba_accelerated_advection_steps')
    finally:
        for n in set(touched):
            sys.modules.pop(n, None)
            if saved.get(n) is not None:
                sys.modules[n] = saved[n]
    return out


# ----------------------------------------------------------------------------------------------
# running and comparing

def resolve(variant, a):
    if isinstance(a, tuple) and len(a) == 3 and a[0] == '__fn__':
        return getattr(variant[a[1]], a[2])
    if isinstance(a, np.ndarray):
        return a.copy()
    return a


class Hang(Exception):
    pass


def _alarm(*a):
    raise Hang()


def run_case(variant, case, name=None, nargs=None, budget=20.0):
    """-> ('ok', return value, [arrays after the call]) | ('raise', 'Type: message') | ('hang', seconds)
    (watchdog through SIGALRM when called from the main thread: the implicit step iterates until convergence)"""
    import signal
    import threading
    args = [resolve(variant, a) for a in case['args']]
    for k, a in enumerate(case['args']):
        if isinstance(a, tuple) and len(a) == 2 and a[0] == '__same_as__':
            args[k] = args[a[1]]                       # the SAME array object: in-place call with the output aliasing an input
    if nargs is not None:
        args = args[:nargs]
    guard = threading.current_thread() is threading.main_thread()
    try:
        fn = getattr(variant[case['module']], name or case['kernel'])
        if guard:
            old = signal.signal(signal.SIGALRM, _alarm)
            signal.setitimer(signal.ITIMER_REAL, budget)
        try:
            ret = fn(*args)
        finally:
            if guard:
                signal.setitimer(signal.ITIMER_REAL, 0)
                signal.signal(signal.SIGALRM, old)
    except Hang:
        return ('hang', budget)
    except Exception as e:  # noqa: BLE001
        return ('raise', '%s: %s' % (type(e).__name__, str(e)[:200]))
    if isinstance(ret, tuple):
        ret = tuple(r.item() if isinstance(r, np.generic) else r for r in ret)
    elif isinstance(ret, np.generic):
        ret = ret.item()
    elif isinstance(ret, np.ndarray):
        ret = ret.copy()
    return ('ok', ret, [a if isinstance(a, np.ndarray) else None for a in args])


def _cmp_num(r, o, allowed):
    """(bit-equal, within bound, error/allowed)"""
    if isinstance(r, bool) or isinstance(r, int):
        same = (not isinstance(o, float) or float(o).is_integer()) and int(r) == int(o)
        return same, same, 0.0 if same else float('inf')
    r, o = complex(r), complex(o)
    if r == o or (r != r and o != o):
        return True, True, 0.0
    d = abs(r - o)
    return False, bool(d <= allowed), (d / allowed if allowed > 0 else float('inf'))


def compare(case, ref, oth):
    """compare two run_case results -> dict(bit=bool, ok=bool, worst=float, where=str)"""
    if ref[0] != oth[0]:
        return {'bit': False, 'ok': False, 'worst': float('inf'), 'where': 'one raises: ref=%s other=%s' % (ref[:2], oth[:2])}
    if ref[0] == 'hang':
        return {'bit': True, 'ok': True, 'worst': 0.0, 'where': 'both exceed the watchdog'}
    if ref[0] == 'raise':
        same = ref[1].split(':')[0] == oth[1].split(':')[0]
        return {'bit': same, 'ok': same, 'worst': 0.0 if same else float('inf'), 'where': 'exception types %s / %s' % (ref[1], oth[1])}
    hint, slack = float(case.get('hint', 0.0)), float(case.get('slack', 0.0))
    bit, ok, worst, where = True, True, 0.0, ''
    rr, oo = ref[1], oth[1]
    if isinstance(rr, np.ndarray) or isinstance(oo, np.ndarray):
        pairs = [('return', np.asarray(rr), np.asarray(oo), False)]
    else:
        rt = rr if isinstance(rr, tuple) else (rr,)
        ot = oo if isinstance(oo, tuple) else (oo,)
        if (rr is None) != (oo is None) or len(rt) != len(ot):
            # a copy may return its output array where the reference returns None: not a difference of results
            if rr is None and isinstance(oo, np.ndarray):
                rt, ot = (), ()
            else:
                return {'bit': False, 'ok': False, 'worst': float('inf'), 'where': 'return values %r / %r' % (rr, oo)}
        pairs = []
        for k, (a, b) in enumerate(zip(rt, ot)):
            if a is None and b is None:
                continue
            if a is None or b is None:
                return {'bit': False, 'ok': False, 'worst': float('inf'), 'where': 'return values %r / %r' % (rr, oo)}
            mag = abs(complex(a)) if not isinstance(a, (bool, int)) else 0.0
            b_, k_, w_ = _cmp_num(a, b, RTOL * max(hint, mag) + slack)
            bit, ok = bit and b_, ok and k_
            if w_ > worst:
                worst, where = w_, 'return[%d]: %r / %r' % (k, a, b)
    for i, (a, b) in enumerate(zip(ref[2], oth[2])):
        if a is None:
            continue
        pairs.append(('arg%d' % i, a, b, i in case.get('angles', ())))
    for nm, a, b, ang in pairs:
        if b is None or a.shape != b.shape:
            return {'bit': False, 'ok': False, 'worst': float('inf'), 'where': nm + ': shapes differ'}
        if a.dtype.kind in 'iub':
            same = bool(np.array_equal(a, b))
            bit, ok = bit and same, ok and same
            if not same:
                worst, where = float('inf'), nm + ': integer arrays differ'
            continue
        if np.array_equal(a, b, equal_nan=True):
            continue
        bit = False
        fin = np.isfinite(a) & np.isfinite(b)
        if not np.array_equal(np.isfinite(a), np.isfinite(b)) or not np.array_equal(a[~fin], b[~fin], equal_nan=True):
            return {'bit': False, 'ok': False, 'worst': float('inf'), 'where': nm + ': non-finite entries differ'}
        d = np.abs(a - b)
        if ang:
            d = np.minimum(d, np.abs(TWO_PI - d))
        mag = float(np.max(np.abs(a[fin]))) if fin.any() else 0.0
        allowed = RTOL * max(hint, mag) + slack
        w = float(np.max(d[fin])) / allowed if allowed > 0 else float('inf')
        if w > 1:
            ok = False
        if w > worst:
            k = int(np.argmax(np.where(fin, d, -1)))
            worst, where = w, '%s[%s]: %r / %r' % (nm, np.unravel_index(k, a.shape), a.flat[k], b.flat[k])
    return {'bit': bit, 'ok': ok, 'worst': worst, 'where': where}


# ----------------------------------------------------------------------------------------------
# argument generators

def FN(module, name):
    return ('__fn__', module, name)


def _breaks(rng, ncells, lo, hi, uniform):
    if uniform:
        return np.linspace(lo, hi, ncells + 1)
    w = np.array([rng.uniform(0.3, 1.7) for _ in range(ncells)])
    b = lo + (hi - lo) * np.concatenate([[0.0], np.cumsum(w) / w.sum()])
    b[-1] = hi
    return b


def make_knots(breaks, deg, periodic):
    T = np.zeros(len(breaks) + 2 * deg)
    T[deg:-deg] = breaks
    if periodic:
        per = breaks[-1] - breaks[0]
        T[:deg] = [x - per for x in breaks[-deg - 1:-1]]
        T[-deg:] = [x + per for x in breaks[1:deg + 1]]
    else:
        T[:deg] = breaks[0]
        T[-deg:] = breaks[-1]
    return T


def nu_space(rng, periodic=None, lo=None, hi=None, deg=None, ncells=None):
    deg = deg or rng.randint(1, 5)
    periodic = rng.random() < 0.5 if periodic is None else periodic
    ncells = ncells or rng.randint(max(1, deg if periodic else 1), 9)
    if periodic:
        ncells = max(ncells, deg + 1)
    if lo is None:
        lo = rng.choice([0.0, -1.0, rng.uniform(-3, 3)])
        hi = lo + rng.choice([1.0, TWO_PI, rng.uniform(0.5, 9)])
    breaks = _breaks(rng, ncells, lo, hi, rng.random() < 0.4)
    T = make_knots(breaks, deg, periodic)
    return {'kind': 'nu', 'knots': T, 'deg': deg, 'breaks': breaks, 'ncoef': len(T) - deg - 1, 'lo': float(lo), 'hi': float(hi),
            'hmin': float(np.min(np.diff(breaks))), 'periodic': periodic}


def cu_space(rng, lo=None, hi=None, ncells=None):
    ncells = ncells or rng.randint(1, 9)
    if lo is None:
        lo = rng.choice([0.0, -1.0, rng.uniform(-3, 3)])
        hi = lo + rng.choice([1.0, TWO_PI, rng.uniform(0.5, 9)])
    dx = (hi - lo) / ncells
    return {'kind': 'cu', 'knots': np.array([lo, hi, dx, ncells], dtype=float), 'deg': 3, 'breaks': np.linspace(lo, hi, ncells + 1),
            'ncoef': ncells + 3, 'lo': float(lo), 'hi': float(hi), 'hmin': float(dx), 'periodic': False}


def points(rng, sp, n, outside=True):
    """evaluation points: interior, cell edges, both ends, next-after values, (for the non-uniform kernels) slightly outside"""
    out = []
    for _ in range(n):
        u = rng.random()
        if u < 0.45:
            x = rng.uniform(sp['lo'], sp['hi'])
        elif u < 0.65:
            x = float(rng.choice(list(sp['breaks'])))
        elif u < 0.75:
            x = rng.choice([sp['lo'], sp['hi']])
        elif u < 0.85:
            b = float(rng.choice(list(sp['breaks'])))
            x = float(np.nextafter(b, rng.choice([-np.inf, np.inf])))
            x = min(max(x, sp['lo']), sp['hi']) if not outside else x
        elif outside and sp['kind'] == 'nu':
            x = rng.choice([sp['lo'] - rng.uniform(0, 0.1) * (sp['hi'] - sp['lo']), sp['hi'] + rng.uniform(0, 0.1) * (sp['hi'] - sp['lo'])])
        else:
            x = rng.uniform(sp['lo'], sp['hi'])
        out.append(float(x))
    return np.array(out)


def coeffs(rng, *shape):
    amp = rng.choice([1.0, 1.0, 1e-3, 50.0])
    a = np.array([rng.uniform(-1, 1) for _ in range(int(np.prod(shape)))]).reshape(shape) * amp
    return a


def wrap(c, sp):
    """make the coefficients along axis 0 those of a periodic spline (last `deg` = first `deg`), as pygyro's interpolators do;
    without it the spline jumps at the seam and the implicit step's fixed-point iteration can oscillate across it for ever"""
    d = sp['deg']
    n = sp['ncoef'] - d
    c[n:n + d] = c[:d]
    return c


def gain(sp, der):
    return 1.0 if der == 0 else 2.0 * sp['deg'] / sp['hmin']


def _px(sp):
    return 'nu' if sp['kind'] == 'nu' else 'cu'


def _mod(sp):
    return 'spline_eval_funcs' if sp['kind'] == 'nu' else 'cubic_uniform_spline_eval_funcs'


def gen_splines(rng, n, kind):
    """all kernels of spline_eval_funcs (kind='nu') or cubic_uniform_spline_eval_funcs (kind='cu')"""
    cases = []
    mk = (lambda: nu_space(rng)) if kind == 'nu' else (lambda: cu_space(rng))
    mod = 'spline_eval_funcs' if kind == 'nu' else 'cubic_uniform_spline_eval_funcs'
    for it in range(n):
        sp, sp2 = mk(), mk()
        x = float(points(rng, sp, 1)[0])
        c1 = coeffs(rng, sp['ncoef'])
        c2 = coeffs(rng, sp['ncoef'], sp2['ncoef'])
        cmax1, cmax2 = float(np.abs(c1).max()), float(np.abs(c2).max())
        der, der1, der2 = it % 2, (it // 2) % 2, it % 2
        if kind == 'nu':
            T, d = sp['knots'], sp['deg']
            low, high = d, len(T) - 1 - d
            where = 'x<=first' if x <= T[low] else 'x>=last' if x >= T[high] else 'search'
            cases.append({'module': mod, 'kernel': 'nu_find_span', 'args': [T, d, x], 'tag': where, 'hint': 0.0})
            # span as the reference computes it (index: must agree exactly, checked by the case above)
            span = low if x <= T[low] else high - 1 if x >= T[high] else int(np.searchsorted(T, x, side='right') - 1)
            cases.append({'module': mod, 'kernel': 'nu_basis_funs', 'args': [T, d, x, span, np.full(d + 1, 7.25)], 'tag': 'deg%d' % d, 'hint': 1.0})
            cases.append({'module': mod, 'kernel': 'nu_basis_funs_1st_der', 'args': [T, d, x, span, np.full(d + 1, 7.25)], 'tag': 'deg%d' % d,
                          'hint': gain(sp, 1)})
        else:
            K = sp['knots']
            xin = float(min(max(x, sp['lo']), sp['hi']))
            xin = rng.choice([xin, xin, sp['hi'], float(np.nextafter(sp['lo'], -np.inf))])
            cases.append({'module': mod, 'kernel': 'cu_find_span', 'args': [float(K[0]), float(K[1]), float(K[2]), xin, int(K[3])],
                          'tag': 'x==xmax' if xin == sp['hi'] else 'inside', 'hint': 1.0})
            off = rng.choice([0.0, 1.0, rng.random()])
            cases.append({'module': mod, 'kernel': 'cu_basis_funs', 'args': [rng.randint(3, 9), off, np.full(4, 7.25)], 'tag': 'offset', 'hint': 1.0})
            cases.append({'module': mod, 'kernel': 'cu_basis_funs_1st_der', 'args': [rng.randint(3, 9), off, float(K[2]), np.full(4, 7.25)],
                          'tag': 'offset', 'hint': 2.0 / float(K[2])})
        p = _px(sp)
        out_ok = kind == 'nu'
        cases.append({'module': mod, 'kernel': p + '_eval_spline_1d_scalar', 'args': [x if out_ok else float(min(max(x, sp['lo']), sp['hi'])), sp['knots'], sp['deg'], c1, der],
                      'tag': 'der=%d' % der, 'hint': cmax1 * gain(sp, der) * 4})
        xs = points(rng, sp, rng.randint(1, 7), outside=out_ok)
        if not out_ok:
            xs = np.clip(xs, sp['lo'], sp['hi'])
        cases.append({'module': mod, 'kernel': p + '_eval_spline_1d_vector', 'args': [xs, sp['knots'], sp['deg'], c1, np.full(len(xs), 7.25), der],
                      'tag': 'der=%d' % der, 'hint': cmax1 * gain(sp, der) * 4})
        # in place in the strict sense: the output array is the array of points
        cases.append({'module': mod, 'kernel': p + '_eval_spline_1d_vector', 'args': [xs.copy(), sp['knots'], sp['deg'], c1, ('__same_as__', 0), der],
                      'tag': 'der=%d, output aliases the points' % der, 'hint': cmax1 * gain(sp, der) * 4})
        X = points(rng, sp, rng.randint(1, 5), outside=out_ok)
        Y = points(rng, sp2, rng.randint(1, 5), outside=out_ok)
        if not out_ok:
            X, Y = np.clip(X, sp['lo'], sp['hi']), np.clip(Y, sp2['lo'], sp2['hi'])
        h2 = cmax2 * gain(sp, der1) * gain(sp2, der2) * 16
        base = [sp['knots'], sp['deg'], sp2['knots'], sp2['deg'], c2]
        t2 = 'der=%d%d' % (der1, der2)
        cases.append({'module': mod, 'kernel': p + '_eval_spline_2d_scalar', 'args': [float(X[0]), float(Y[0])] + base + [der1, der2], 'tag': t2, 'hint': h2})
        cases.append({'module': mod, 'kernel': p + '_eval_spline_2d_cross', 'args': [X, Y] + base + [np.full((len(X), len(Y)), 7.25), der1, der2],
                      'tag': t2, 'hint': h2, 'alias': ('%s_eval_spline_2d_cross_%d%d' % (p, der1, der2), 8)})
        m = min(len(X), len(Y))
        cases.append({'module': mod, 'kernel': p + '_eval_spline_2d_vector', 'args': [X[:m].copy(), Y[:m].copy()] + base + [np.full(m, 7.25), der1, der2],
                      'tag': t2, 'hint': h2, 'alias': ('%s_eval_spline_2d_vector_%d%d' % (p, der1, der2), 8)})
    return cases


PHYS = dict(CN0=0.14711, kN0=0.055, deltaRN0=4.0, rp=14.5 / 2 + 0.1, CTi=1.0, kTi=0.27586, deltaRTi=1.45)


def phys(rng):
    return [rng.uniform(0.05, 0.3), rng.uniform(0.01, 0.3), rng.uniform(1.0, 6.0), rng.uniform(0.5, 3.0),
            rng.uniform(0.5, 2.0), rng.uniform(0.05, 0.5), rng.uniform(0.5, 3.0)]      # CN0 kN0 deltaRN0 rp CTi kTi deltaRTi


def gen_initialiser(rng, n):
    cases = []
    M = 'initialiser_funcs'
    for it in range(n):
        CN0, kN0, dRN0, rp, CTi, kTi, dRTi = phys(rng)
        r, th, z, v = rng.uniform(0.1, 4.0), rng.uniform(0, TWO_PI), rng.uniform(0, 30.0), rng.uniform(-5, 5)
        m, nn, eps, dR, R0 = rng.randint(0, 20), rng.randint(0, 12), rng.choice([1e-6, 1e-3, 0.1]), rng.uniform(0.2, 5.0), rng.uniform(50, 400)
        feq_max = 4 * CN0 * math.exp(kN0 * dRN0) / math.sqrt(TWO_PI * CTi * math.exp(-kTi * dRTi))
        cases += [
            {'module': M, 'kernel': 'n0', 'args': [r, CN0, kN0, dRN0, rp], 'tag': '', 'hint': CN0 * math.exp(kN0 * dRN0)},
            {'module': M, 'kernel': 'Ti', 'args': [r, CTi, kTi, dRTi, rp], 'tag': '', 'hint': CTi * math.exp(kTi * dRTi)},
            {'module': M, 'kernel': 'Te', 'args': [r, CTi, kTi, dRTi, rp], 'tag': '', 'hint': CTi * math.exp(kTi * dRTi)},
            {'module': M, 'kernel': 'perturbation', 'args': [r, th, z, m, nn, rp, dR, R0], 'tag': '', 'hint': 64.0},
            {'module': M, 'kernel': 'f_eq', 'args': [r, v, CN0, kN0, dRN0, rp, CTi, kTi, dRTi], 'tag': '', 'hint': feq_max},
            {'module': M, 'kernel': 'n0deriv_normalised', 'args': [r, kN0, rp, dRN0], 'tag': '', 'hint': kN0},
            {'module': M, 'kernel': 'init_f', 'args': [r, th, z, v, m, nn, eps, CN0, kN0, dRN0, rp, CTi, kTi, dRTi, dR, R0], 'tag': '', 'hint': 64 * feq_max},
        ]
        nq, nz, nr, nv = rng.randint(1, 5), rng.randint(1, 5), rng.randint(1, 5), rng.randint(1, 5)
        qs = np.array([rng.uniform(0, TWO_PI) for _ in range(nq)])
        zs = np.array([rng.uniform(0, 30) for _ in range(nz)])
        rs = np.array(sorted(rng.uniform(0.1, 4) for _ in range(nr)))
        vs = np.array(sorted(rng.uniform(-5, 5) for _ in range(nv)))
        tail = [CN0, kN0, dRN0, rp, CTi, kTi, dRTi, dR, R0]
        cases += [
            {'module': M, 'kernel': 'init_f_flux', 'args': [np.full((nq, nz), 7.25), r, qs, zs, v, m, nn, eps] + tail, 'tag': '', 'hint': 64 * feq_max},
            {'module': M, 'kernel': 'init_f_pol', 'args': [np.full((nq, nr), 7.25), rs, qs, z, v, m, nn, eps] + tail, 'tag': '', 'hint': 64 * feq_max},
            {'module': M, 'kernel': 'init_f_vpar', 'args': [np.full((nq, nv), 7.25), r, qs, z, vs, m, nn, eps] + tail, 'tag': '', 'hint': 64 * feq_max},
            {'module': M, 'kernel': 'feq_vector', 'args': [np.full((nr, nv), 7.25), rs, vs, CN0, kN0, dRN0, rp, CTi, kTi, dRTi], 'tag': '', 'hint': feq_max},
        ]
    return cases


def gen_poisson(rng, n):
    cases = []
    for it in range(n):
        a, b, c, nc = rng.randint(1, 4), rng.randint(1, 4), rng.randint(1, 4), rng.randint(1, 7)
        grid = coeffs(rng, a, b, c, nc)
        feq = coeffs(rng, a, nc)
        q = np.array([rng.uniform(-0.2, 1.0) for _ in range(nc)])
        cplx = it % 2 == 1
        rho = np.full((a, b, c), 7.25 + (2.5j if cplx else 0), dtype=complex if cplx else float)
        h = float(np.abs(q).sum() * (np.abs(grid).max() + np.abs(feq).max())) * 4
        cases.append({'module': 'poisson_tools', 'kernel': 'get_perturbed_rho', 'args': [rho, feq, grid, q], 'tag': 'complex rho' if cplx else 'real rho', 'hint': h})
        cases.append({'module': 'poisson_tools', 'kernel': 'get_rho', 'args': [rho.copy(), grid, q], 'tag': 'complex rho' if cplx else 'real rho', 'hint': h})
    return cases


def gen_vpar(rng, n):
    cases = []
    M = 'accelerated_advection_steps'
    for it in range(n):
        cu = it % 2 == 0
        bound = (it // 2) % 3
        vMax = rng.uniform(2, 7)
        vMin = -vMax if rng.random() < 0.7 else -rng.uniform(1, 5)
        sp = cu_space(rng, vMin, vMax, rng.randint(2, 9)) if cu else nu_space(rng, periodic=(bound == 2), lo=vMin, hi=vMax)
        c = coeffs(rng, sp['ncoef'])
        L = vMax - vMin
        pts = list(points(rng, sp, rng.randint(2, 6), outside=False))
        pts += [vMin - rng.uniform(0, 2.6) * L, vMax + rng.uniform(0, 2.6) * L, vMin, vMax]
        rng.shuffle(pts)
        vPts = np.array(pts)
        ph = phys(rng)
        base = [np.full(len(vPts), 7.25), vPts, rng.uniform(0.2, 3.0), vMin, vMax, sp['knots'], sp['deg'], c] + ph + [bound]
        hint = max(float(np.abs(c).max()) * 4, 4.0)
        tag = 'bound=%d %s' % (bound, 'cubic-uniform' if cu else 'non-uniform')
        cases.append({'module': M, 'kernel': 'v_parallel_advection_eval_step', 'args': base + [cu], 'tag': tag, 'hint': hint})
        cases.append({'module': M, 'kernel': 'general_v_parallel_advection_eval_step',
                      'args': base + [FN(_mod(sp), _px(sp) + '_eval_spline_1d_scalar')], 'tag': tag, 'hint': hint, 'fnarg': True})
    return cases


def gen_lagrange(rng, n):
    cases = []
    M = 'accelerated_advection_steps'
    for it in range(n):
        cu = it % 2 == 0
        sp = cu_space(rng, 0.0, TWO_PI, rng.randint(3, 9)) if cu else nu_space(rng, periodic=True, lo=0.0, hi=TWO_PI)
        c = wrap(coeffs(rng, sp['ncoef']), sp)
        nz, nq, ns = rng.randint(2, 6), rng.randint(1, 5), rng.randint(1, 6)
        shifts = np.array([rng.randint(-3, 3) for _ in range(ns)], dtype=np.int64)
        thetaShifts = np.array([rng.uniform(-7, 7) for _ in range(ns)])
        qVals = np.array(sorted(rng.uniform(0, TWO_PI) for _ in range(nq)))
        if rng.random() < 0.5:
            qVals[0] = 0.0
        i = rng.randint(0, nz - 1)
        base = [i, shifts, np.full((nz, nq, ns), 7.25), qVals, thetaShifts, sp['knots'], sp['deg'], c]
        hint = float(np.abs(c).max()) * 4
        tag = 'cubic-uniform' if cu else 'non-uniform'
        cases.append({'module': M, 'kernel': 'get_lagrange_vals', 'args': base + [cu], 'tag': tag, 'hint': hint})
        cases.append({'module': M, 'kernel': 'general_get_lagrange_vals',
                      'args': base + [FN(_mod(sp), _px(sp) + '_eval_spline_1d_vector'), FN(_mod(sp), _px(sp) + '_eval_spline_1d_scalar')],
                      'tag': tag, 'hint': hint, 'fnarg': True})
        nqq, nr, k = rng.randint(1, 5), rng.randint(1, 5), rng.randint(1, 7)
        cf = np.array([rng.uniform(-1, 1) for _ in range(k)])
        # every third case: the caller's arrays are LARGER than the block nq x nr it asks to advect (work arrays of the maximum block
        # size): only the block is written
        ex = (2, 1) if it % 3 == 1 else (0, 0)
        vals = coeffs(rng, nr + ex[1], nqq + ex[0], k)
        cases.append({'module': M, 'kernel': 'flux_advection', 'args': [nqq, nr, np.full((nqq + ex[0], nr + ex[1]), 7.25), cf, vals],
                      'tag': 'k=%d%s' % (k, ' arrays larger than the block' if ex[0] else ''),
                      'hint': float(np.abs(cf).sum() * np.abs(vals).max()) * 4})
    return cases


def gen_pol(rng, n):
    """explicit (Heun) and implicit (fixed point) poloidal steps, both spline families, both boundary rules, feet inside and
    outside the radial domain.  The implicit step iterates `while norm > tol`; the advection field is kept small enough for
    the iteration to contract (dt/B0 * |D^2 phi| / r < ~0.3), and a difference of one iteration between two variants changes
    the feet by at most ~tol, hence the extra slack 4*tol*(gain of the final interpolation)."""
    cases = []
    M = 'accelerated_advection_steps'
    for it in range(n):
        cu = it % 2 == 0
        impl = (it // 2) % 2 == 1
        nul = (it // 4) % 2 == 1
        rmin, rmax = rng.uniform(0.1, 0.6), rng.uniform(2.0, 4.0)
        if cu:
            sq, sr = cu_space(rng, 0.0, TWO_PI, rng.randint(4, 7)), cu_space(rng, rmin, rmax, rng.randint(3, 6))
        else:
            sq = nu_space(rng, periodic=True, lo=0.0, hi=TWO_PI, deg=rng.randint(1, 4), ncells=rng.randint(5, 7))
            sr = nu_space(rng, periodic=False, lo=rmin, hi=rmax, deg=rng.randint(1, 4), ncells=rng.randint(3, 6))
        # greville-like nodes: radial nodes include both ends, angular nodes in [0, 2 pi)
        nr, nq = rng.randint(3, 5), rng.randint(2, 4)
        rPts = np.array(sorted([rmin, rmax] + [rng.uniform(rmin, rmax) for _ in range(nr - 2)]))
        qPts = np.array(sorted(rng.uniform(0, TWO_PI) for _ in range(nq)))
        if rng.random() < 0.5:
            qPts[0] = 0.0
        if impl and (it // 8) % 2 == 1:
            # seam family: angular nodes eps_k = 2e-4 * 1.9^k just above 0.  At a radial boundary node whose first-stage foot
            # leaves the domain, k1_q = eps - D and k2_q = eps - D/2; some eps_k lies in (D/2, D), so the two feet straddle the
            # seam and the branch `diff > pi` of the convergence norm is taken
            qPts = np.array([2e-4 * 1.9 ** k for k in range(10)] + [rng.uniform(1, 6)])
            nq = len(qPts)
        cPhi = coeffs(rng, sq['ncoef'], sr['ncoef'])
        cPhi *= 1.0 / max(np.abs(cPhi).max(), 1e-300)                 # amplitude 1
        cPhi = wrap(cPhi, sq)
        cPol = wrap(coeffs(rng, sq['ncoef'], sr['ncoef']), sq)
        d2 = (2 * max(sq['deg'], sr['deg']) / min(sq['hmin'], sr['hmin'])) ** 2
        B0 = rng.uniform(0.5, 2.0)
        # contraction factor of the fixed-point map ~ 0.5*dt/B0*d2/rmin ; explicit step may be bolder (more feet leave the domain)
        target = rng.choice([0.02, 0.1, 0.25]) if impl else rng.choice([0.05, 0.3, 1.5])
        dt = target * B0 * rmin / d2 * 2
        if rng.random() < 0.3:
            dt = -dt
        strong = (not impl) and (it // 8) % 2 == 1
        if strong:
            # a potential that depends on r only and a long step: the feet stay on their radius and turn by SEVERAL periods in theta
            # (|d_r phi / r| dt / B0 of the order of 5 pi): the reduction of the angle must hold for any number of turns
            cPhi[:, :] = cPhi[0:1, :]
            dt = (1 if dt > 0 else -1) * 8 * np.pi * B0 * rmax * sr['hmin'] / sr['deg']
        ph = phys(rng)
        v = rng.uniform(-4, 4)
        z = lambda: np.full((nq, nr), 7.25)
        work = [z() for _ in range(8)]
        common = [np.full((nq, nr), 7.25), dt, v, rPts, qPts] + work + \
                 [sq['knots'], sr['knots'], cPhi, sq['deg'], sr['deg'], sq['knots'], sr['knots'], cPol, sq['deg'], sr['deg']] + ph + [B0]
        tol = rng.choice([1e-8, 1e-10])
        gpol = float(np.abs(cPol).max()) * gain(sr, 1) * 4
        hint = max(float(np.abs(cPol).max()) * 16, 4.0)
        tag = '%s %s nulBound=%s%s' % ('impl' if impl else 'expl', 'cubic-uniform' if cu else 'non-uniform', nul, ' several turns' if strong else '')
        fns = [FN(_mod(sq), _px(sq) + '_eval_spline_2d_cross'), FN(_mod(sq), _px(sq) + '_eval_spline_2d_scalar')]
        ang = (9, 11)               # endPts_k1_q, endPts_k2_q
        if impl:
            slack = 4 * tol * max(gpol, 1.0)
            cases.append({'module': M, 'kernel': 'poloidal_advection_step_impl', 'args': common + [tol, cu, nul], 'tag': tag, 'hint': hint,
                          'angles': ang, 'slack': slack, 'iterates': True})
            cases.append({'module': M, 'kernel': 'general_poloidal_advection_step_impl', 'args': common + [tol, nul] + fns, 'tag': tag, 'hint': hint,
                          'angles': ang, 'slack': slack, 'iterates': True, 'fnarg': True})
        else:
            cases.append({'module': M, 'kernel': 'poloidal_advection_step_expl', 'args': common + [cu, nul], 'tag': tag, 'hint': hint, 'angles': ang})
            cases.append({'module': M, 'kernel': 'general_poloidal_advection_step_expl', 'args': common + [nul] + fns, 'tag': tag, 'hint': hint,
                          'angles': ang, 'fnarg': True})
    return cases


def all_cases(rng, scale=1):
    """scale=1: the quick tier's volume"""
    return (gen_splines(rng, 40 * scale, 'nu') + gen_splines(rng, 40 * scale, 'cu') + gen_initialiser(rng, 12 * scale) +
            gen_poisson(rng, 16 * scale) + gen_vpar(rng, 36 * scale) + gen_lagrange(rng, 24 * scale) + gen_pol(rng, 32 * scale))


# ----------------------------------------------------------------------------------------------
# worker for the compiled variant

def _worker(scratch, fin, fout):
    sys.path.insert(0, scratch)
    import warnings
    warnings.simplefilter('ignore')
    variant = load_reference(scratch, want_ext=True)
    cases = pickle.load(open(fin, 'rb'))
    out = {'files': {m: variant[m].__file__ for m in PKG},
           'names': {m: sorted(n for n in dir(variant[m]) if not n.startswith('_') and callable(getattr(variant[m], n))) for m in PKG},
           'results': []}
    nh = {}
    for c in cases:
        if nh.get(c['kernel'], 0) >= 2:
            out['results'].append(('hang', 0.0))
            continue
        r = run_case(variant, c, budget=10.0 if c.get('iterates') else 3.0)
        if r[0] == 'hang':
            nh[c['kernel']] = nh.get(c['kernel'], 0) + 1
        out['results'].append(r)
    pickle.dump(out, open(fout, 'wb'))


def layout_case():
    """finding F32: the points of a 1-D vector evaluation given in DECREASING order as a reversed view (negative stride); the output is the
    first n entries of a longer array whose tail holds guard values"""
    knots = np.array([0.0, 0.0, 0.0, 0.0, 1.0, 2.0, 3.5, 5.0, 6.0, 8.0, 8.0, 8.0, 8.0])
    coeffs = np.sin(1.3 * np.arange(len(knots) - 4))
    pts = np.array([0.25, 1.5, 2.75, 4.0, 5.5, 7.75])
    return knots, 3, coeffs, pts


def _layout_worker(scratch, fout):
    sys.path.insert(0, scratch)
    import warnings
    warnings.simplefilter('ignore')
    variant = load_reference(scratch, want_ext=True)
    knots, deg, coeffs, pts = layout_case()
    n = len(pts)
    big = np.full(n + 4, -777.0)
    variant['spline_eval_funcs'].nu_eval_spline_1d_vector(pts[::-1], knots, deg, coeffs, big[:n], 0)
    pickle.dump({'values': big[:n].tolist(), 'guards': big[n:].tolist()}, open(fout, 'wb'))


if __name__ == '__main__':
    if len(sys.argv) == 5 and sys.argv[1] == '--worker':
        _worker(sys.argv[2], sys.argv[3], sys.argv[4])
    elif len(sys.argv) == 4 and sys.argv[1] == '--layout-worker':
        _layout_worker(sys.argv[2], sys.argv[3])
    else:
        print(__doc__)
