import argparse
import importlib
import os
import sys
import traceback

sys.path.insert(0, os.path.dirname(os.path.abspath(__file__)))
import common  # noqa: E402


def main():
    ap = argparse.ArgumentParser()
    ap.add_argument('pid')
    ap.add_argument('--tier', default=os.environ.get('VERIF_TIER', 'quick'), choices=['quick', 'thorough'])
    ap.add_argument('--replay', default=None)
    ap.add_argument('--no-build', action='store_true')
    a = ap.parse_args()
    seed = int(os.environ.get('VERIF_SEED', '0') or 0)
    tier = a.tier
    if a.replay:
        # a replay file records the seed and tier of the run that produced it: generation is a deterministic function of
        # (seed, tier), so re-running with them reproduces the reported case; checks with a dedicated single-case replay
        # (C01, C03, C04) additionally re-run just that case
        import json
        try:
            rp = json.load(open(a.replay))
            seed = int(rp.get('seed', seed))
            tier = rp.get('tier', tier)
        except Exception:
            pass
    try:
        mod = importlib.import_module('props.' + a.pid.lower())
        chk = common.Check(a.pid, tier, seed, getattr(mod, 'LEVEL', 'proof'), a.replay)
        chk.no_build = a.no_build
        code = mod.run(chk)
        sys.stdout.flush()
        os._exit(int(code or 0))
    except SystemExit:
        raise
    except BaseException:
        traceback.print_exc()
        print('HARNESS-ERROR property=%s (exit 2, not a violation)' % a.pid)
        sys.stdout.flush()
        os._exit(2)


main()
