import argparse
import importlib
import os
import sys
import traceback

sys.path.insert(0, os.path.dirname(os.path.abspath(__file__)))
import common  # noqa: E402


def main():
    ap = argparse.ArgumentParser()
    ap.add_argument('pid')
    ap.add_argument('--tier', default=os.environ.get('VERIF_TIER', 'quick'), choices=['quick', 'thorough'])
    ap.add_argument('--replay', default=None)
    ap.add_argument('--no-build', action='store_true')
    a = ap.parse_args()
    seed = int(os.environ.get('VERIF_SEED', '0') or 0)
    tier = a.tier
    if a.replay:
        # a replay file records the seed and tier of the run that produced it: generation is a deterministic function of
        # (seed, tier), so re-running with them reproduces the reported case; checks with a dedicated single-case replay
        # (C01, C03, C04) additionally re-run just that case
        import json
        try:
            rp = json.load(open(a.replay))
            seed = int(rp.get('seed', seed))
            tier = rp.get('tier', tier)
        except Exception:
            pass
    cov = None
    if os.environ.get('VERIF_COVERAGE'):
        # development aid (not used by the registered commands): line coverage of the code under test by this check
        import coverage
        cov = coverage.Coverage(data_file=os.environ['VERIF_COVERAGE'] + '.' + a.pid, source=[str(common.REPO / 'pygyro')],
                                concurrency='thread', branch=True)
        cov.start()

    def leave(code):
        if cov is not None:
            cov.stop()
            cov.save()
        common.cleanup_scratch()
        sys.stdout.flush()
        os._exit(code)
    try:
        mod = importlib.import_module('props.' + a.pid.lower())
        chk = common.Check(a.pid, tier, seed, getattr(mod, 'LEVEL', 'proof'), a.replay)
        chk.no_build = a.no_build
        code = mod.run(chk)
        leave(int(code or 0))
    except SystemExit:
        raise
    except BaseException as e:
        traceback.print_exc()
        # An exception that escapes a check is a harness error (exit 2) unless it was raised INSIDE the code under test: the
        # innermost frames of the traceback lie in the repository and the check called it on an input it considers legal.  That is
        # reported as a violation with the traceback as the replay (every check passes on the unchanged tree, so this path is only
        # reached on changed code).
        tb = traceback.extract_tb(e.__traceback__)
        repo = str(common.REPO.resolve())
        inner_in_repo = bool(tb) and os.path.realpath(tb[-1].filename).startswith(repo + os.sep)
        # A result of the code under test that is nan / inf where the check converts it to an exact rational: the conversion raises in
        # the harness, but the cause is the value the code returned (all registered checks pass on the unchanged tree).
        nonfinite = isinstance(e, (ValueError, OverflowError)) and ('to integer ratio' in str(e)) and 'chk' in locals()
        if nonfinite:
            try:
                chk.fail('%s:non-finite-result' % a.pid, 'the code under test returned a non-finite value (nan / inf) where a number was expected',
                         {'traceback': traceback.format_exception(type(e), e, e.__traceback__)[-8:],
                          'last_sample': (chk.samples[-1] if getattr(chk, 'samples', None) else None)})
                code = chk.finish()
                common.cleanup_scratch()
                sys.stdout.flush()
                os._exit(int(code or 1))
            except BaseException:
                traceback.print_exc()
        if inner_in_repo and 'chk' in locals() and not isinstance(e, (KeyboardInterrupt, MemoryError)):
            try:
                where = '%s:%d in %s' % (os.path.relpath(os.path.realpath(tb[-1].filename), repo), tb[-1].lineno, tb[-1].name)
                chk.fail('%s:real-code-raised:%s' % (a.pid, type(e).__name__),
                         'the code under test raised %s (%s) at %s on an input the check treats as legal' % (type(e).__name__, str(e)[:160], where),
                         {'traceback': traceback.format_exception(type(e), e, e.__traceback__)[-12:]})
                code = chk.finish()
                common.cleanup_scratch()
                sys.stdout.flush()
                os._exit(int(code or 1))
            except BaseException:
                traceback.print_exc()
        print('HARNESS-ERROR property=%s (exit 2, not a violation)' % a.pid)
        common.cleanup_scratch()
        sys.stdout.flush()
        os._exit(2)


main()
