#!/usr/bin/env python3
"""AST translator for `LayoutManager._makeConnectionMap` (pygyro/model/layout.py)  ->  lean/PygyroVerif/Generated/RoutesGen.lean

Translator round 6a.  The function is the shortest-route search between layouts: Dijkstra over a dict of direct connections with a
lexicographic tie-break between equally long routes, and `min(unvisitedNodes, key=...)` over a Python SET whose iteration order depends
on the interpreter's string-hash seed.  The output is a shallow embedding, statement by statement; Props/C06Gen.lean proves that it
computes what the hand-written model `Handler.routeMap` (Model/Handler.lean) computes, for every iteration order of the set.

Representation (also written into the header of the generated file):
  * a layout name is its INDEX in `list(DirectConnections.keys())` (dicts keep insertion order; the keys of a dict are distinct, so
    `name1 != name2` on the strings is `≠` on the indices); the parameter `names : List String` carries the strings (only `<` on
    routes looks at them), `conn : List (List Nat)` is `DirectConnections` (`conn.getD a []` = `DirectConnections[names[a]]`, as indices);
    `len(DirectConnections)` = `names.length`; `DirectConnections.keys()` = `List.range names.length`.
  * a dict is `Dict α` = its list of keys in insertion order + a total function for the values; `d[k] = v` appends `k` to the keys when new;
    `D[a][b] = v` updates the inner dict stored at `a` (every inner dict / every list stored in one is created by its own `dict(...)`
    / `[]` / `+`, so no two entries share an object: the translator refuses a list-valued right-hand side that is not `[]` or a `+`);
    `D[a][b].append(x)` = `D[a][b] := D[a][b] ++ [x]`;  `dict(pairs)` inserts the pairs in order;  `.values()` = the values in key order.
    A lookup of an absent key (`KeyError`; also `set.remove` of a non-member) is NOT modelled: it reads the default value.
  * a list that only receives `.append((k, v))` = `List (Nat × β)`.
  * the set `unvisitedNodes` = the duplicate-free list of its members; `set(DirectConnections.keys())` = `List.range n`;
    `S.remove(x)` = filter; `len(S)` = length; `x not in S` = `!S.contains x`; ITERATION over the set (only `min` iterates) goes through
    the explicit parameter `order : List Nat`: `setIter order S = order.filter (S.contains ·)`.  (CPython iterates a set in table-slot
    order; removing an element does not move the others, and building the same set again in the same interpreter fills the same slots:
    one order per interpreter, every order possible as the hash seed varies.  `order` is universally quantified in the theorems.)
  * `min(S, key=f)` = first minimal element in iteration order, `max(l)` / `max(l, key=f)` = (first) maximal; on an empty
    argument they raise `ValueError` (modelled: `Option`).
  * `+` on lists = `++`; `<` on two lists of names = Python's lexicographic order on the strings (`strListLt`, `String.<` = code points).
  * `while` = fuel-recursive function (fuel = number of TESTS), `for` = `List.foldl` of the body (a `for` that contains a `while`:
    `forRes`), `continue` as first statement of a `for` body under `if c:` = `if c then σ else <rest of the body>`.
  * `self._route_map` is returned next to the return value: `none` when `return` is reached before the attribute is assigned.

REFUSES (exit status 3, no Lean file left behind) on every statement / expression shape outside the list above.
Standard library only.   usage: translate_routes.py [--repo /repo] [--out DIR] [--quiet]
"""
import argparse
import ast
import hashlib
import os
import sys

HERE = os.path.dirname(os.path.abspath(__file__))
DEFAULT_OUT = os.path.join(os.path.dirname(HERE), 'lean', 'PygyroVerif', 'Generated')
SRC = 'pygyro/model/layout.py'
CLASS, FUNC, DC = 'LayoutManager', '_makeConnectionMap', 'DirectConnections'
ARGS = 'names conn order'
ARGS_T = '(names : List String) (conn : List (List Nat)) (order : List Nat)'


class Refuse(Exception):
    pass


def refuse(node, why):
    raise Refuse('%s:%s: %s' % (SRC, getattr(node, 'lineno', '?'), why))


PRELUDE = r'''
/-! ### prelude (fixed text): the meaning given to the Python objects -/

/-- a dict whose keys are layout names: keys in insertion order + values (the value read at an absent key is not meaningful:
    Python raises `KeyError`) -/
structure Dict (α : Type) where
  keys : List Nat
  val : Nat → α

namespace Dict
variable {α : Type}
/-- `{}` -/
def empty [Inhabited α] : Dict α := ⟨[], fun _ => default⟩
instance [Inhabited α] : Inhabited (Dict α) := ⟨empty⟩
/-- `d[k] = v` -/
def set (d : Dict α) (k : Nat) (v : α) : Dict α :=
  ⟨if d.keys.contains k then d.keys else d.keys ++ [k], fun x => if x = k then v else d.val x⟩
/-- `dict(pairs)` -/
def ofPairs [Inhabited α] (pairs : List (Nat × α)) : Dict α := pairs.foldl (fun d p => d.set p.1 p.2) empty
/-- `D[a][b]` -/
def get2 (D : Dict (Dict α)) (a b : Nat) : α := (D.val a).val b
/-- `D[a][b] = v` (the inner dict stored at `a` is updated in place; no other entry shares it) -/
def set2 (D : Dict (Dict α)) (a b : Nat) (v : α) : Dict (Dict α) :=
  ⟨D.keys, fun x => if x = a then (D.val a).set b v else D.val x⟩
/-- `d.values()` -/
def values (d : Dict α) : List α := d.keys.map d.val
end Dict

/-- `DirectConnections.keys()` -/
def keysOf (names : List String) : List Nat := List.range names.length
/-- `S.remove(x)` -/
def setRemove (S : List Nat) (x : Nat) : List Nat := S.filter (· ≠ x)
/-- the order in which Python iterates over the set `S` -/
def setIter (order S : List Nat) : List Nat := order.filter (fun x => S.contains x)
/-- `min(l, key=key)`: the first minimal element; `none` = `ValueError` (empty argument) -/
def minKey? (l : List Nat) (key : Nat → Nat) : Option Nat :=
  match l with
  | [] => none
  | x :: t => some (t.foldl (fun b y => if key y < key b then y else b) x)
/-- `max(l)` -/
def maxNat? (l : List Nat) : Option Nat :=
  match l with
  | [] => none
  | x :: t => some (t.foldl (fun b y => if b < y then y else b) x)
def maxKeyGo {α : Type} (key : α → Option Nat) : List α → α → Nat → Option α
  | [], b, _ => some b
  | y :: t, b, kb =>
    match key y with
    | none => none
    | some ky => if kb < ky then maxKeyGo key t y ky else maxKeyGo key t b kb
/-- `max(l, key=key)`: the first maximal element; `none` = `ValueError` (empty argument, or raised by `key`) -/
def maxKey? {α : Type} (l : List α) (key : α → Option Nat) : Option α :=
  match l with
  | [] => none
  | x :: t =>
    match key x with
    | none => none
    | some kx => maxKeyGo key t x kx
/-- Python's `<` on two lists of `str` -/
def strListLt : List String → List String → Bool
  | [], [] => false
  | [], _ :: _ => true
  | _ :: _, [] => false
  | a :: as, b :: bs => if a < b then true else if b < a then false else strListLt as bs
/-- the strings of a list of layouts -/
def namesOf (names : List String) (l : List Nat) : List String := l.map (fun i => names.getD i "")

/-- outcome of the call: `return v` together with the attribute `self._route_map` (`none`: never assigned), an exception, or the
    model artefact `outOfFuel` -/
inductive Out where
  | ret (v : Bool) (route_map : Option (Dict (Dict (List Nat))))
  | raised (exc : String)
  | outOfFuel

/-- outcome of a loop: left normally with state `s`, or the call is over -/
inductive Res (α : Type) where
  | ok (s : α)
  | done (o : Out)

/-- a `for` whose body can end the call -/
def forRes {σ : Type} (body : σ → Nat → Res σ) : List Nat → σ → Res σ
  | [], s => .ok s
  | x :: t, s =>
    match body s x with
    | .ok s => forRes body t s
    | .done o => .done o
'''

LEAN_T = {'nat': 'Nat', 'name': 'Nat', 'route': 'List Nat', 'set': 'List Nat'}


def lean_type(t):
    if t in LEAN_T:
        return LEAN_T[t]
    if t.startswith('pairs:'):
        return 'List (Nat × %s)' % lean_type(t[6:])
    if t.startswith('dict:'):
        return 'Dict %s' % (lean_type(t[5:]) if ' ' not in lean_type(t[5:]) else '(%s)' % lean_type(t[5:]))
    raise AssertionError(t)


def lean_default(t):
    if t in ('nat', 'name'):
        return '0'
    if t in ('route', 'set') or t.startswith('pairs:'):
        return '[]'
    return 'Dict.empty'


class Tr:
    """one pass over the body; collects the record fields and the auxiliary definitions (loop bodies, while loops)"""

    def __init__(self, fn):
        self.fn = fn
        self.fields = []        # [(lean field, type string or None while unknown, doc)]
        self.ftype = {}         # lean field -> type
        self.bind = {}          # python variable (or 'self._route_map') -> lean field currently holding it
        self.loopvars = []      # enclosing `for` variables, outermost first
        self.defs = []          # emitted auxiliary definitions (text), innermost first
        self.used = set()
        self.nwhile = 0
        self.assigned_attr = False      # `self._route_map` definitely assigned (top level of the function)
        self.fresh_route_only = True
        # variables that are first a list of pairs and later rebound to `dict(<themselves>)`: two fields
        self.rebound = set()
        for n in ast.walk(fn):
            if isinstance(n, ast.Assign) and len(n.targets) == 1 and isinstance(n.targets[0], ast.Name) and self.is_dict_of(n.value) \
                    and n.value.args[0].id == n.targets[0].id:
                self.rebound.add(n.targets[0].id)

    # ---- helpers on shapes
    @staticmethod
    def is_dict_of(e):
        return isinstance(e, ast.Call) and isinstance(e.func, ast.Name) and e.func.id == 'dict' and len(e.args) == 1 and not e.keywords \
            and isinstance(e.args[0], ast.Name)

    @staticmethod
    def is_keys(e):
        return isinstance(e, ast.Call) and isinstance(e.func, ast.Attribute) and e.func.attr == 'keys' and not e.args and not e.keywords \
            and isinstance(e.func.value, ast.Name) and e.func.value.id == DC

    @staticmethod
    def is_self_attr(e):
        return isinstance(e, ast.Attribute) and isinstance(e.value, ast.Name) and e.value.id == 'self' and e.attr == '_route_map'

    def field(self, lean, t, doc):
        if lean in self.ftype:
            if self.ftype[lean] != t:
                raise Refuse('variable %s is used with two types (%s, %s)' % (lean, self.ftype[lean], t))
            return lean
        self.ftype[lean] = t
        self.fields.append((lean, t, doc))
        return lean

    def varkey(self, e):
        if isinstance(e, ast.Name):
            return e.id
        if self.is_self_attr(e):
            return 'self._route_map'
        refuse(e, 'not a variable: ' + ast.dump(e)[:80])

    def lookup(self, e):
        """(lean expression, type) of a variable read"""
        k = self.varkey(e)
        if k in self.loopvars:
            return k, 'name'
        if k == DC:
            refuse(e, '`DirectConnections` used outside len(.), .keys(), [name]')
        if k not in self.bind:
            refuse(e, 'variable `%s` read before it is assigned' % k)
        if k == 'self._route_map' and not self.assigned_attr:
            refuse(e, '`self._route_map` read before its assignment at the top level of the function')
        f = self.bind[k]
        return 'σ.' + f, self.ftype[f]

    # ---- expressions
    def ex(self, e, lam=None):
        """(lean text, type); `lam` = name of a lambda parameter in scope (a layout name)"""
        if isinstance(e, ast.Constant) and isinstance(e.value, int) and not isinstance(e.value, bool) and e.value >= 0:
            return '(%d : Nat)' % e.value, 'nat'
        if isinstance(e, ast.Call) and isinstance(e.func, ast.Name) and e.func.id == 'len' and len(e.args) == 1 and not e.keywords:
            a = e.args[0]
            if isinstance(a, ast.Name) and a.id == DC:
                return 'names.length', 'nat'
            if isinstance(a, ast.Name) and a.id not in self.loopvars:
                le, t = self.lookup(a)
                if t == 'set':
                    return '%s.length' % le, 'nat'
            refuse(e, 'len() of something else than DirectConnections / the set')
        if isinstance(e, ast.List) and not e.elts:
            return '([] : List Nat)', 'route'
        if isinstance(e, ast.Name):
            if lam is not None and e.id == lam:
                return lam, 'name'
            le, t = self.lookup(e)
            if t not in ('name', 'nat'):
                refuse(e, 'variable `%s` of type %s used as a value' % (e.id, t))
            return le, t
        if isinstance(e, ast.Subscript) and isinstance(e.value, ast.Subscript):
            D, a, b = e.value.value, e.value.slice, e.slice
            le, t = self.lookup(D)
            if not t.startswith('dict:dict:'):
                refuse(e, 'double subscript of a non nested dict')
            la, ta = self.ex(a, lam)
            lb, tb = self.ex(b, lam)
            if ta != 'name' or tb != 'name':
                refuse(e, 'dict subscript that is not a layout name')
            return '(%s.get2 %s %s)' % (le, la, lb), t[10:]
        if isinstance(e, ast.BinOp) and isinstance(e.op, ast.Add):
            l, tl = self.ex(e.left, lam)
            r, tr = self.ex(e.right, lam)
            if tl == tr == 'nat':
                return '(%s + %s)' % (l, r), 'nat'
            if tl == tr == 'route':
                return '(%s ++ %s)' % (l, r), 'route'
            refuse(e, '`+` between %s and %s' % (tl, tr))
        refuse(e, 'expression shape not recognised: ' + ast.dump(e)[:100])

    def cond(self, e):
        """lean text of a test (a Prop or a Bool, usable after `if`)"""
        if isinstance(e, ast.Compare) and len(e.ops) == 1:
            op, l, r = e.ops[0], e.left, e.comparators[0]
            if isinstance(op, ast.NotIn):
                lx, tx = self.ex(l)
                ls, ts = self.lookup(r)
                if tx != 'name' or ts != 'set':
                    refuse(e, '`not in` outside <name> not in <set>')
                return '!(%s.contains %s)' % (ls, lx)
            lx, tx = self.ex(l)
            rx, trx = self.ex(r)
            if tx != trx:
                refuse(e, 'comparison between %s and %s' % (tx, trx))
            if isinstance(op, ast.Eq) and tx in ('nat', 'name'):
                return '(%s = %s)' % (lx, rx)
            if isinstance(op, ast.NotEq) and tx in ('nat', 'name'):
                return '(%s ≠ %s)' % (lx, rx)
            if isinstance(op, ast.Lt) and tx == 'nat':
                return '(%s < %s)' % (lx, rx)
            if isinstance(op, ast.Gt) and tx == 'nat':
                return '(%s > %s)' % (lx, rx)
            if isinstance(op, ast.Lt) and tx == 'route':
                return 'strListLt (namesOf names %s) (namesOf names %s)' % (lx, rx)
            refuse(e, 'comparison %s on %s' % (type(op).__name__, tx))
        refuse(e, 'test shape not recognised: ' + ast.dump(e)[:100])

    # ---- statements.  Every translated statement is a line (or lines) that rebinds `σ`; modes: 'pure' (value St), 'res' (value Res St)
    def has_while(self, stmts):
        return any(isinstance(n, ast.While) for s in stmts for n in ast.walk(s))

    def setf(self, f, v):
        return 'let σ : St := { σ with %s := %s }' % (f, v)

    def simple(self, s):
        """a statement without control flow -> one `let σ` line, or None"""
        # X = []
        if isinstance(s, ast.Assign) and len(s.targets) == 1 and isinstance(s.targets[0], ast.Name) and isinstance(s.value, ast.List) and not s.value.elts:
            x = s.targets[0].id
            f = x + '_pairs' if x in self.rebound else x
            self.bind[x] = f
            if f not in self.ftype:
                self.pending = getattr(self, 'pending', {})
                self.pending[f] = s.lineno
            return self.setf(f, '[]')
        # L.append((k, v))      D[a][b].append(x)
        if isinstance(s, ast.Expr) and isinstance(s.value, ast.Call) and isinstance(s.value.func, ast.Attribute) and s.value.func.attr == 'append' \
                and len(s.value.args) == 1 and not s.value.keywords:
            tgt, arg = s.value.func.value, s.value.args[0]
            if isinstance(tgt, ast.Name):
                if tgt.id not in self.bind:
                    refuse(s, 'append to an unknown list')
                f = self.bind[tgt.id]
                if not (isinstance(arg, ast.Tuple) and len(arg.elts) == 2):
                    refuse(s, '.append of something else than a pair (key, value)')
                k, tk = self.ex(arg.elts[0])
                if tk != 'name':
                    refuse(s, 'pair whose first component is not a layout name')
                v = arg.elts[1]
                if self.is_dict_of(v):
                    lv, tv0 = self.lookup(v.args[0])
                    if not tv0.startswith('pairs:'):
                        refuse(s, 'dict() of something else than a list of pairs')
                    lv, tv = 'Dict.ofPairs %s' % lv, 'dict:' + tv0[6:]
                else:
                    lv, tv = self.ex(v)
                    if tv == 'route' and not (isinstance(v, ast.List) and not v.elts):
                        refuse(s, 'a list stored in a pair must be a fresh `[]`')
                if f in getattr(self, 'pending', {}):
                    del self.pending[f]
                    self.field(f, 'pairs:' + tv, '`%s`%s (a list of pairs)' % (tgt.id, ' before `%s = dict(%s)`' % (tgt.id, tgt.id) if tgt.id in self.rebound else ''))
                if self.ftype.get(f) != 'pairs:' + tv:
                    refuse(s, 'append of a %s to `%s` : %s' % (tv, tgt.id, self.ftype.get(f)))
                return self.setf(f, 'σ.%s ++ [(%s, %s)]' % (f, k, lv))
            if isinstance(tgt, ast.Subscript) and isinstance(tgt.value, ast.Subscript):
                cur, t = self.ex(tgt)
                if t != 'route':
                    refuse(s, '.append on a dict entry that is not a list')
                if not self.fresh_route_only:
                    refuse(s, 'in-place .append after a list-valued store that may alias')
                x, tx = self.ex(arg)
                if tx != 'name':
                    refuse(s, '.append of something else than a layout name')
                D, _ = self.lookup(tgt.value.value)
                a, _ = self.ex(tgt.value.slice)
                b, _ = self.ex(tgt.slice)
                return self.setf(D[2:], '%s.set2 %s %s (%s ++ [%s])' % (D, a, b, cur, x))
            refuse(s, '.append target not recognised')
        # X = dict(L)
        if isinstance(s, ast.Assign) and len(s.targets) == 1 and self.is_dict_of(s.value):
            tgt = s.targets[0]
            lv, tv = self.lookup(s.value.args[0])
            if not tv.startswith('pairs:'):
                refuse(s, 'dict() of something else than a list of pairs')
            k = self.varkey(tgt)
            f = 'self_route_map' if k == 'self._route_map' else k
            self.field(f, 'dict:' + tv[6:], '`%s`' % k)
            line = self.setf(f, 'Dict.ofPairs %s' % lv)
            self.bind[k] = f
            if k == 'self._route_map':
                if self.loopvars or self.depth > 0:
                    refuse(s, '`self._route_map` assigned inside a loop / branch')
                self.assigned_attr = True
            return line
        # D[a][b] = e
        if isinstance(s, ast.Assign) and len(s.targets) == 1 and isinstance(s.targets[0], ast.Subscript) and isinstance(s.targets[0].value, ast.Subscript):
            tgt = s.targets[0]
            _, t = self.ex(tgt)
            v, tv = self.ex(s.value)
            if tv != t:
                refuse(s, 'store of a %s into an entry of type %s' % (tv, t))
            if t == 'route' and not (isinstance(s.value, ast.BinOp) or (isinstance(s.value, ast.List) and not s.value.elts)):
                self.fresh_route_only = False
                refuse(s, 'list-valued store whose right-hand side is not `[]` or a `+` (would alias two entries)')
            D, _ = self.lookup(tgt.value.value)
            a, _ = self.ex(tgt.value.slice)
            b, _ = self.ex(tgt.slice)
            return self.setf(D[2:], '%s.set2 %s %s %s' % (D, a, b, v))
        # S = set(DirectConnections.keys())
        if isinstance(s, ast.Assign) and len(s.targets) == 1 and isinstance(s.targets[0], ast.Name) and isinstance(s.value, ast.Call) \
                and isinstance(s.value.func, ast.Name) and s.value.func.id == 'set' and len(s.value.args) == 1 and self.is_keys(s.value.args[0]):
            x = s.targets[0].id
            self.field(x, 'set', '`%s` (a set of layout names: its members, without repetition)' % x)
            self.bind[x] = x
            return self.setf(x, 'keysOf names')
        # S.remove(x)
        if isinstance(s, ast.Expr) and isinstance(s.value, ast.Call) and isinstance(s.value.func, ast.Attribute) and s.value.func.attr == 'remove' \
                and len(s.value.args) == 1 and isinstance(s.value.func.value, ast.Name):
            ls, ts = self.lookup(s.value.func.value)
            x, tx = self.ex(s.value.args[0])
            if ts != 'set' or tx != 'name':
                refuse(s, '.remove outside <set>.remove(<name>)')
            return self.setf(ls[2:], 'setRemove %s %s' % (ls, x))
        return None

    def min_assign(self, s):
        """v = min(S, key=lambda x: <nat expr>)  ->  (field, lean Option expression) or None"""
        if isinstance(s, ast.Assign) and len(s.targets) == 1 and isinstance(s.targets[0], ast.Name) and isinstance(s.value, ast.Call) \
                and isinstance(s.value.func, ast.Name) and s.value.func.id == 'min':
            c = s.value
            if not (len(c.args) == 1 and len(c.keywords) == 1 and c.keywords[0].arg == 'key' and isinstance(c.keywords[0].value, ast.Lambda)):
                refuse(s, 'min() outside min(<set>, key=lambda x: ...)')
            lam = c.keywords[0].value
            if len(lam.args.args) != 1 or lam.args.defaults or lam.args.vararg or lam.args.kwarg or lam.args.kwonlyargs:
                refuse(s, 'key lambda with other than one parameter')
            x = lam.args.args[0].arg
            ls, ts = self.lookup(c.args[0])
            if ts != 'set':
                refuse(s, 'min() over something else than the set')
            body, tb = self.ex(lam.body, lam=x)
            if tb != 'nat':
                refuse(s, 'key of min() is not a number')
            v = s.targets[0].id
            self.field(v, 'name', '`%s`' % v)
            self.bind[v] = v
            return v, 'minKey? (setIter order %s) (fun %s => %s)' % (ls, x, body)
        return None

    def block(self, stmts, mode, ind, tail):
        """lines for a statement list; `tail` = final expression (e.g. 'σ', '.ok σ', a recursive call)"""
        out = []
        pad = '  ' * ind
        for i, s in enumerate(stmts):
            last = i == len(stmts) - 1
            if isinstance(s, ast.Expr) and isinstance(s.value, ast.Constant) and isinstance(s.value.value, str):
                continue        # docstring
            line = self.simple(s)
            if line is not None:
                out.append(pad + line)
                continue
            m = self.min_assign(s)
            if m is not None:
                if mode != 'res':
                    refuse(s, 'min() (can raise) outside a while body')
                f, opt = m
                out.append(pad + 'match %s with' % opt)
                out.append(pad + '| none => .done (.raised "ValueError")')
                out.append(pad + '| some v_ =>')
                out.append(pad + '  ' + self.setf(f, 'v_'))
                out += self.block(stmts[i + 1:], mode, ind + 1, tail)
                return out
            if isinstance(s, ast.For):
                call, res = self.for_loop(s)
                if res:
                    if mode != 'res':
                        refuse(s, 'a loop with a `while` inside a pure block')
                    out.append(pad + 'match %s with' % call)
                    out.append(pad + '| .done o => .done o')
                    out.append(pad + '| .ok σ =>')
                    out += self.block(stmts[i + 1:], mode, ind + 1, tail)
                    return out
                out.append(pad + 'let σ : St := %s' % call)
                continue
            if isinstance(s, ast.While):
                if mode != 'res':
                    refuse(s, '`while` in a pure block')
                call = self.while_loop(s)
                out.append(pad + 'match %s with' % call)
                out.append(pad + '| .done o => .done o')
                out.append(pad + '| .ok σ =>')
                out += self.block(stmts[i + 1:], mode, ind + 1, tail)
                return out
            if isinstance(s, ast.If):
                if self.has_while(s.body + s.orelse):
                    refuse(s, '`while` under an `if`')
                # `if c: continue` as a statement of a `for` body: the rest of the body is the else branch
                if len(s.body) == 1 and isinstance(s.body[0], ast.Continue) and not s.orelse:
                    if not self.in_for_body or mode != 'pure' or tail != 'σ':
                        refuse(s, '`continue` outside the statement list of a `for` body')
                    out.append(pad + 'if %s then σ else' % self.cond(s.test))
                    out += self.block(stmts[i + 1:], mode, ind, tail)
                    return out
                c = self.cond(s.test)
                keep = self.in_for_body
                self.in_for_body = False
                self.depth += 1
                bt = self.block(s.body, 'pure', ind + 1, 'σ')
                be = self.block(s.orelse, 'pure', ind + 1, 'σ') if s.orelse else [pad + '  σ']
                self.depth -= 1
                self.in_for_body = keep
                if last and mode == 'pure' and tail == 'σ':
                    out.append(pad + 'if %s then' % c)
                    out += bt
                    out.append(pad + 'else')
                    out += be
                    return out
                out.append(pad + 'let σ : St :=')
                out.append(pad + '  if %s then' % c)
                out += ['  ' + x for x in bt]
                out.append(pad + '  else')
                out += ['  ' + x for x in be]
                continue
            refuse(s, 'statement shape not recognised: ' + type(s).__name__)
        out.append(pad + tail)
        return out

    def params(self, fuel):
        p = ARGS_T + (' (F : Nat)' if fuel else '')
        for v in self.loopvars:
            p += ' (%s : Nat)' % v
        return p

    def argstr(self, fuel):
        return ' '.join([ARGS] + (['F'] if fuel else []) + self.loopvars)

    def for_loop(self, s):
        """emits the body as `body_<var>`; returns (lean expression of the whole loop applied to σ, is it a Res)"""
        if s.orelse or not isinstance(s.target, ast.Name):
            refuse(s, '`for` with else / a tuple target')
        v = s.target.id
        if v in self.used or v in self.bind or v == DC:
            refuse(s, 'loop variable `%s` is used twice' % v)
        self.used.add(v)
        it = s.iter
        if self.is_keys(it):
            lst = '(keysOf names)'
            what = '%s.keys()' % DC
        elif isinstance(it, ast.Subscript) and isinstance(it.value, ast.Name) and it.value.id == DC:
            k, tk = self.ex(it.slice)
            if tk != 'name':
                refuse(s, 'DirectConnections[.] with something else than a layout name')
            lst = '(conn.getD %s [])' % k
            what = '%s[%s]' % (DC, ast.unparse(it.slice))
        else:
            refuse(s, '`for` over something else than DirectConnections.keys() / DirectConnections[name]')
        res = self.has_while(s.body)
        name = 'body_' + v
        header = self.params(res)
        call_args = self.argstr(res)
        self.loopvars.append(v)
        keep = self.in_for_body
        self.in_for_body = True
        self.depth += 1
        body = self.block(s.body, 'res' if res else 'pure', 1, '.ok σ' if res else 'σ')
        self.depth -= 1
        self.in_for_body = keep
        self.loopvars.pop()
        for n in ast.walk(self.fn):
            if isinstance(n, ast.Name) and n.id == v and not (s.lineno <= n.lineno <= s.end_lineno):
                refuse(n, 'loop variable `%s` used outside its loop' % v)
        doc = '/-- %s:%d  body of `for %s in %s:` -/' % (SRC, s.lineno, v, what)
        self.defs.append('%s\ndef %s %s (σ : St) (%s : Nat) : %s :=\n%s\n' % (doc, name, header, v, 'Res St' if res else 'St', '\n'.join(body)))
        if res:
            return 'forRes (%s %s) %s σ' % (name, call_args, lst), True
        return '%s.foldl (%s %s) σ' % (lst, name, call_args), False

    def while_loop(self, s):
        if s.orelse:
            refuse(s, '`while` with else')
        if any(isinstance(n, (ast.Break, ast.Return)) for b in s.body for n in ast.walk(b)):
            refuse(s, 'break / return inside the `while`')
        self.nwhile += 1
        name = 'while%d' % self.nwhile
        c = self.cond(s.test)
        header = self.params(True)
        call_args = self.argstr(True)
        keep = self.in_for_body
        self.in_for_body = False
        self.depth += 1
        body = self.block(s.body, 'res', 3, '%s %s f σ' % (name, call_args))
        self.depth -= 1
        self.in_for_body = keep
        doc = '/-- %s:%d  `while %s:` — `F` is the fuel handed to loops started in the body; the fuel counts the TESTS -/' % (SRC, s.lineno, ast.unparse(s.test))
        txt = '%s\ndef %s %s : Nat → St → Res St\n  | 0, _ => .done .outOfFuel\n  | f+1, σ =>\n    if %s then\n%s\n    else .ok σ\n' % (
            doc, name, header, c, '\n'.join(body))
        self.defs.append(txt)
        return '%s %s F σ' % (name, call_args)

    # ---- the `return` expressions
    def values_of(self, e, lam_env):
        """<dict expr>.values() -> (bindings, lean list expression, element type)"""
        if not (isinstance(e, ast.Call) and isinstance(e.func, ast.Attribute) and e.func.attr == 'values' and not e.args and not e.keywords):
            refuse(e, 'argument of max() is not <dict>.values()')
        binds, d, t = self.dict_expr(e.func.value, lam_env)
        if not t.startswith('dict:'):
            refuse(e, '.values() of a non dict')
        return binds, '%s.values' % d, t[5:]

    def dict_expr(self, e, lam_env):
        if isinstance(e, ast.Name) and e.id in lam_env:
            return [], e.id, lam_env[e.id]
        if isinstance(e, ast.Name) or self.is_self_attr(e):
            le, t = self.lookup(e)
            return [], le, t
        if isinstance(e, ast.Call) and isinstance(e.func, ast.Name) and e.func.id == 'max':
            binds, v, t = self.max_expr(e, lam_env)
            return binds, v, t
        refuse(e, 'dict expression not recognised')

    def max_expr(self, e, lam_env):
        """max(<values>) / max(<values>, key=lambda x: max(<x.values()>))  ->  (bindings [(var, Option expr)], var, type)"""
        if not (isinstance(e, ast.Call) and isinstance(e.func, ast.Name) and e.func.id == 'max' and len(e.args) == 1):
            refuse(e, 'not a max() call of one positional argument')
        binds, lst, t = self.values_of(e.args[0], lam_env)
        self.nmax = getattr(self, 'nmax', 0) + 1
        var = 'm%d_' % self.nmax
        if not e.keywords:
            if t != 'nat':
                refuse(e, 'max() without key over non numbers')
            return binds + [(var, 'maxNat? %s' % lst)], var, 'nat'
        if len(e.keywords) != 1 or e.keywords[0].arg != 'key' or not isinstance(e.keywords[0].value, ast.Lambda):
            refuse(e, 'max() with other keywords than key=lambda')
        lam = e.keywords[0].value
        if len(lam.args.args) != 1 or lam.args.defaults or lam.args.vararg or lam.args.kwarg or lam.args.kwonlyargs:
            refuse(e, 'key lambda with other than one parameter')
        x = lam.args.args[0].arg
        kb, kv, kt = self.max_expr(lam.body, dict(lam_env, **{x: t}))
        if len(kb) != 1 or kt != 'nat':
            refuse(e, 'key of max() is not max(<x>.values())')
        return binds + [(var, 'maxKey? %s (fun %s => %s)' % (lst, x, kb[0][1]))], var, t

    def ret_stmt(self, s, ind):
        pad = '  ' * ind
        attr = '(some σ.self_route_map)' if self.assigned_attr else 'none'
        v = s.value
        if isinstance(v, ast.Constant) and isinstance(v.value, bool):
            return [pad + '.ret %s %s' % ('true' if v.value else 'false', attr)]
        if isinstance(v, ast.Compare) and len(v.ops) == 1 and isinstance(v.ops[0], (ast.NotEq, ast.Eq)):
            binds, lhs, t = self.max_expr(v.left, {})
            rhs, tr = self.ex(v.comparators[0])
            if t != 'nat' or tr != 'nat':
                refuse(s, 'return comparison is not between numbers')
            out = []
            for var, opt in binds:
                out.append(pad + 'match %s with' % opt)
                out.append(pad + '| none => .raised "ValueError"')
                out.append(pad + '| some %s =>' % var)
                pad += '  '
            out.append(pad + '.ret (decide (%s %s %s)) %s' % (lhs, '≠' if isinstance(v.ops[0], ast.NotEq) else '=', rhs, attr))
            return out
        refuse(s, 'return value shape not recognised')

    def top(self):
        """the function body -> lines of `makeConnectionMap`"""
        self.in_for_body = False
        self.depth = 0
        stmts = [s for s in self.fn.body if not (isinstance(s, ast.Expr) and isinstance(s.value, ast.Constant) and isinstance(s.value.value, str))]
        if not stmts or not isinstance(stmts[-1], ast.Return):
            refuse(self.fn, 'the function does not end with a return')
        return self.top_block(stmts, 1)

    def top_block(self, stmts, ind):
        out = []
        pad = '  ' * ind
        for i, s in enumerate(stmts):
            if isinstance(s, ast.Return):
                if i != len(stmts) - 1:
                    refuse(s, 'statements after a return')
                return out + self.ret_stmt(s, ind)
            if isinstance(s, ast.If) and len(s.body) == 1 and isinstance(s.body[0], ast.Return) and not s.orelse:
                c = self.cond(s.test)
                r = self.ret_stmt(s.body[0], 0)
                if len(r) != 1:
                    refuse(s, 'early return of a computed value')
                out.append(pad + 'if %s then %s else' % (c, r[0]))
                continue
            if any(isinstance(n, ast.Return) for n in ast.walk(s)):
                refuse(s, 'return inside a loop / nested branch')
            line = self.simple(s)
            if line is not None:
                out.append(pad + line)
                continue
            if isinstance(s, ast.For):
                call, res = self.for_loop(s)
                if res:
                    out.append(pad + 'match %s with' % call)
                    out.append(pad + '| .done o => o')
                    out.append(pad + '| .ok σ =>')
                    return out + self.top_block(stmts[i + 1:], ind + 1)
                out.append(pad + 'let σ : St := %s' % call)
                continue
            refuse(s, 'top-level statement shape not recognised: ' + type(s).__name__)
        refuse(self.fn, 'the function does not end with a return')


def translate(repo, path=None):
    path = path or os.path.join(repo, SRC)
    src = open(path).read()
    tree = ast.parse(src)
    cls = [n for n in tree.body if isinstance(n, ast.ClassDef) and n.name == CLASS]
    if len(cls) != 1:
        raise Refuse('class %s not found in %s' % (CLASS, SRC))
    fns = [n for n in cls[0].body if isinstance(n, ast.FunctionDef) and n.name == FUNC]
    if len(fns) != 1:
        raise Refuse('%s.%s not found' % (CLASS, FUNC))
    fn = fns[0]
    a = fn.args
    if [x.arg for x in a.args] != ['self', DC] or a.vararg or a.kwarg or a.kwonlyargs or a.defaults or fn.decorator_list:
        refuse(fn, 'signature is not (self, DirectConnections)')
    # every other function of the module that assigns `_route_map` would make the returned attribute meaningless
    for n in ast.walk(tree):
        if isinstance(n, (ast.Global, ast.Nonlocal, ast.Try, ast.With, ast.Yield, ast.Await)) and fn.lineno <= getattr(n, 'lineno', 0) <= fn.end_lineno:
            refuse(n, type(n).__name__ + ' inside the function')
    tr = Tr(fn)
    main = tr.top()
    if getattr(tr, 'pending', {}):
        raise Refuse('list(s) %s never receive a pair: type unknown' % sorted(tr.pending))
    sha = hashlib.sha256(src.encode()).hexdigest()[:16]
    fields = '\n'.join('  %s : %s := %s    -- %s' % (f, lean_type(t), lean_default(t), doc) for f, t, doc in tr.fields)
    hdr = __doc__.split('Representation (also written into the header of the generated file):')[1].split('REFUSES')[0].rstrip()
    txt = '/-\nGENERATED by harness/translate_routes.py from %s (sha256 %s), %s.%s lines %d-%d — do not edit.\n' % (
        SRC, sha, CLASS, FUNC, fn.lineno, fn.end_lineno)
    txt += 'Shallow embedding, statement by statement.  Representation:' + hdr + '\nCore Lean only.\n-/\n'
    txt += 'set_option linter.unusedVariables false\nnamespace PygyroVerif.Gen.Routes\n' + PRELUDE + '\n'
    txt += '/-! ### the function -/\n\n/-- the local variables of `%s` that are assigned (loop variables are parameters of the loop bodies) and `self._route_map` -/\n' % FUNC
    txt += 'structure St where\n' + fields + '\n\n'
    txt += '\n'.join(tr.defs) + '\n'
    txt += '/-- %s:%d  `%s.%s(self, DirectConnections)`; `order` = iteration order of the set, `F` = fuel of the `while` -/\n' % (SRC, fn.lineno, CLASS, FUNC)
    txt += 'def makeConnectionMap %s (F : Nat) : Out :=\n  let σ : St := {}\n' % ARGS_T + '\n'.join(main) + '\n\n'
    txt += 'end PygyroVerif.Gen.Routes\n'
    return txt


def main():
    ap = argparse.ArgumentParser()
    ap.add_argument('--repo', default=os.environ.get('PYGYRO_REPO', '/repo'))
    ap.add_argument('--out', default=DEFAULT_OUT)
    ap.add_argument('--quiet', action='store_true')
    ap.add_argument('--file', default=None, help='translate this copy of layout.py instead of <repo>/' + SRC)
    a = ap.parse_args()
    os.makedirs(a.out, exist_ok=True)
    path = os.path.join(a.out, 'RoutesGen.lean')
    try:
        txt = translate(a.repo, a.file)
    except (Refuse, SyntaxError, OSError) as e:
        if os.path.exists(path):
            os.remove(path)
        print('translate_routes: REFUSED RoutesGen.lean: %s' % e)
        sys.exit(3)
    old = open(path).read() if os.path.exists(path) else None
    if old != txt:
        open(path, 'w').write(txt)
    if not a.quiet:
        print('translate_routes: wrote %s (%d lines)%s' % (path, txt.count('\n'), '' if old != txt else ' [unchanged]'))
    sys.exit(0)


if __name__ == '__main__':
    main()
