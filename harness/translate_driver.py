#!/usr/bin/env python3
"""AST translator: /repo/fullSimulation.py (+ the layout tables / file-name formats of setups.py, grid.py)
   ->  /verif/lean/PygyroVerif/Generated/TimeLoop.lean  (+ TimeLoop.json, the same script for the model driver).

The driver's `main()` is read statement by statement and turned into the small statement language of
lean/PygyroVerif/Model/Checkpoint.lean (`Program` = pre / loop condition / loop body / post, made of `Simple`
statements and one level of `ifc`).  Only what matters for checkpoint/restart is kept: the integer bookkeeping
(t, ti, tN, nLoops, startPrint, saveStepCut), the calls on the three grids and the operators, the checkpoint writes,
the diagnostic prints, the set-up calls and the allocations of phi / rho / parGradVals.  Timing, logging, argument
parsing, profiling and object construction are recognised and dropped.

The translator REFUSES (exit status 3, no Lean file left behind) on any statement shape it does not recognise: a
refusal is to be treated as "proof obligation broken" by the caller, never guessed around.

Standard library only; runs with /usr/bin/python3 or /venv/bin/python.

usage: translate_driver.py [--repo /repo] [--out /verif/lean/PygyroVerif/Generated] [--quiet]
"""
import argparse
import ast
import hashlib
import json
import os
import re
import sys

HERE = os.path.dirname(os.path.abspath(__file__))
DEFAULT_OUT = os.path.join(os.path.dirname(HERE), 'lean', 'PygyroVerif', 'Generated')


class Refuse(Exception):
    def __init__(self, node, why):
        line = getattr(node, 'lineno', '?')
        super().__init__('fullSimulation.py:%s: %s' % (line, why))


# ---------------------------------------------------------------------------------------------------------------
# vocabulary

COUNTERS = {'t': 't', 'ti': 'ti', 'tN': 'tN', 'nLoops': 'nLoops', 'startPrint': 'startPrint',
            'saveStep': 'saveStep', 'saveStepCut': 'saveStepCut', 'tEnd': 'tEnd'}
ASSIGNABLE = {'t', 'ti', 'tN', 'nLoops', 'startPrint', 'saveStepCut'}
TIMING = {'setup_time_start', 'diagnostic_start', 'diagnostic_time', 'output_start', 'output_time', 'full_loop_start',
          'full_loop_time', 'average_loop', 'average_output', 'setup_time'}
CONFIG = {'parser', 'args', 'foldername', 'constantFile', 'loadable', 'saveStep', 'tEnd', 'stopTime', 'comm', 'rank',
          'halfStep', 'fullStep', 'layout_poisson', 'layout_vpar', 'layout_poloidal', 'nprocs', 'diagnostic_filename',
          'profilingOn', 'pr', 's', 'ps', 'diagnosticFile'}
CTORS = {'FluxSurfaceAdvection', 'VParallelAdvection', 'PoloidalAdvection', 'ParallelGradient', 'DensityFinder',
         'QuasiNeutralitySolver', 'DiagnosticCollector', 'LayoutSwapper', 'getLayoutHandler'}
GRIDS = {'distribFunc': 'distribFunc', 'phi': 'phi', 'rho': 'rho'}
LAYOUTS = {'flux_surface', 'v_parallel', 'poloidal', 'v_parallel_2d', 'mode_solve', 'v_parallel_1d'}
STEPS = {'halfStep': 'halfStep', 'fullStep': 'fullStep'}
LOGGING = {'my_print', 'print'}


def name_of(node):
    return node.id if isinstance(node, ast.Name) else None


def dotted(node):
    if isinstance(node, ast.Name):
        return node.id
    if isinstance(node, ast.Attribute):
        b = dotted(node.value)
        return None if b is None else b + '.' + node.attr
    return None


def names_in(node):
    return {n.id for n in ast.walk(node) if isinstance(n, ast.Name)}


class Translator:
    def __init__(self):
        self.ctor = {}            # variable -> constructor class
        self.facts = {}           # things checked on the way (recorded in the output)
        self.seen_config = set()

    # ---- expressions ---------------------------------------------------------------------------------------
    def expr(self, n):
        if isinstance(n, ast.Constant) and isinstance(n.value, int) and not isinstance(n.value, bool):
            return ['lit', n.value]
        if isinstance(n, ast.Name):
            if n.id in COUNTERS:
                return ['var', COUNTERS[n.id]]
            if n.id == 'fullStep':
                self.need('fullStep = constants.dt')
                return ['var', 'dt']
            raise Refuse(n, 'unknown integer variable %r in a bookkeeping expression' % n.id)
        if isinstance(n, ast.Attribute) and dotted(n) == 'constants.dt':
            return ['var', 'dt']
        if isinstance(n, ast.BinOp):
            ops = {ast.Add: 'add', ast.Sub: 'sub', ast.Mult: 'mul', ast.FloorDiv: 'fdiv', ast.Mod: 'fmod'}
            for k, v in ops.items():
                if isinstance(n.op, k):
                    return [v, self.expr(n.left), self.expr(n.right)]
            raise Refuse(n, 'operator %s not allowed in a bookkeeping expression' % type(n.op).__name__)
        if isinstance(n, ast.Call) and name_of(n.func) in ('min', 'max') and len(n.args) == 2 and not n.keywords:
            return [name_of(n.func), self.expr(n.args[0]), self.expr(n.args[1])]
        if isinstance(n, ast.Call) and name_of(n.func) == 'int' and len(n.args) == 1 and not n.keywords:
            return self.expr(n.args[0])          # int() of an int expression
        raise Refuse(n, 'expression not recognised: ' + ast.dump(n)[:120])

    def cond(self, n):
        if isinstance(n, ast.Compare) and len(n.ops) == 1:
            ops = {ast.Lt: 'lt', ast.Eq: 'eq', ast.NotEq: 'ne'}
            for k, v in ops.items():
                if isinstance(n.ops[0], k):
                    return [v, self.expr(n.left), self.expr(n.comparators[0])]
            raise Refuse(n, 'comparison not recognised')
        if isinstance(n, ast.BoolOp) and isinstance(n.op, ast.And) and len(n.values) == 2:
            return ['and', self.cond(n.values[0]), self.cond(n.values[1])]
        if isinstance(n, ast.Name) and n.id == 'loadable':
            return ['loadable']
        if isinstance(n, ast.Name) and n.id == 'timeForLoop':
            return ['timeForLoop']
        if isinstance(n, ast.UnaryOp) and isinstance(n.op, ast.Not) and name_of(n.operand) == 'loadable':
            return ['notLoadable']
        raise Refuse(n, 'condition not recognised: ' + ast.dump(n)[:120])

    def need(self, fact):
        self.facts.setdefault('needed', set()).add(fact)

    # ---- calls ---------------------------------------------------------------------------------------------
    def grid(self, n):
        g = name_of(n)
        if g not in GRIDS:
            raise Refuse(n, 'argument is not one of the grids distribFunc / phi / rho')
        return GRIDS[g]

    def step(self, n):
        s = name_of(n)
        if s not in STEPS:
            raise Refuse(n, 'time-step argument must be halfStep or fullStep')
        self.need('halfStep = constants.dt*0.5')
        self.need('fullStep = constants.dt')
        return STEPS[s]

    def call(self, c):
        """a Call node that is a whole statement -> list of Simple (possibly empty)"""
        f = c.func
        fn = name_of(f)
        if fn in LOGGING:
            if any(k.arg == 'file' and name_of(k.value) == 'diagnosticFile' for k in c.keywords):
                raise Refuse(c, 'diagnostic print outside the recognised rank-0 block')
            return []
        d = dotted(f)
        if d in ('parser.add_argument', 'MPI.COMM_WORLD.Barrier', 'os.mkdir', 'pr.enable', 'pr.disable', 'ps.print_stats',
                 'diagnosticFile.close'):
            return []
        if not isinstance(f, ast.Attribute) or not isinstance(f.value, ast.Name):
            raise Refuse(c, 'call not recognised: ' + (d or ast.dump(f)[:80]))
        recv, meth, a, kw = f.value.id, f.attr, c.args, c.keywords
        if kw:
            raise Refuse(c, 'keyword arguments in %s.%s' % (recv, meth))
        if recv in GRIDS:
            g = GRIDS[recv]
            if meth == 'setLayout' and len(a) == 1 and isinstance(a[0], ast.Constant) and a[0].value in LAYOUTS:
                return [['call', ['setLayout', g, a[0].value]]]
            if meth == 'saveGridValues' and not a:
                return [['call', ['saveGridValues', g]]]
            if meth == 'restoreGridValues' and not a:
                return [['call', ['restoreGridValues', g]]]
            if meth == 'writeH5Dataset' and len(a) in (2, 3) and name_of(a[0]) == 'foldername' and name_of(a[1]) == 't':
                if len(a) == 3 and not (isinstance(a[2], ast.Constant) and a[2].value == 'phi'):
                    raise Refuse(c, 'writeH5Dataset: name convention other than "phi"')
                return [['call', ['writeH5', g, len(a) == 3]]]
            raise Refuse(c, 'call %s.%s(...) not recognised' % (recv, meth))
        cls = self.ctor.get(recv)
        if cls == 'FluxSurfaceAdvection' and meth == 'gridStep' and len(a) == 1:
            return [['call', ['fluxStep', self.grid(a[0])]]]
        if cls == 'VParallelAdvection' and meth == 'gridStep' and len(a) == 5:
            if self.ctor.get(name_of(a[2])) != 'ParallelGradient' or name_of(a[3]) != 'parGradVals':
                raise Refuse(c, 'VParallelAdvection.gridStep: 3rd/4th argument must be the ParallelGradient object and parGradVals')
            return [['call', ['vParStep', self.grid(a[0]), self.grid(a[1]), self.step(a[4])]]]
        if cls == 'VParallelAdvection' and meth == 'gridStepKeepGradient' and len(a) == 3 and name_of(a[1]) == 'parGradVals':
            return [['call', ['vParStepKeep', self.grid(a[0]), self.step(a[2])]]]
        if cls == 'PoloidalAdvection' and meth == 'gridStep' and len(a) == 3:
            return [['call', ['polStep', self.grid(a[0]), self.grid(a[1]), self.step(a[2])]]]
        if cls == 'DensityFinder' and meth == 'getPerturbedRho' and len(a) == 2:
            return [['call', ['perturbedRho', self.grid(a[0]), self.grid(a[1])]]]
        if cls == 'QuasiNeutralitySolver' and meth == 'getModes' and len(a) == 1:
            return [['call', ['getModes', self.grid(a[0])]]]
        if cls == 'QuasiNeutralitySolver' and meth == 'solveEquation' and len(a) == 2:
            return [['call', ['solveEquation', self.grid(a[0]), self.grid(a[1])]]]
        if cls == 'QuasiNeutralitySolver' and meth == 'findPotential' and len(a) == 1:
            return [['call', ['findPotential', self.grid(a[0])]]]
        if cls == 'DiagnosticCollector' and meth == 'collect' and len(a) == 3 and name_of(a[2]) == 't':
            return [['call', ['collect', self.grid(a[0]), self.grid(a[1])]]]
        if cls == 'DiagnosticCollector' and meth == 'reduce' and not a:
            return [['call', ['reduce']]]
        raise Refuse(c, 'call %s.%s(...) on %s not recognised' % (recv, meth, cls or 'an unknown object'))

    # ---- statements ----------------------------------------------------------------------------------------
    def timing_stmt(self, st, value):
        """an assignment to a timing variable: dropped, but a division by a counter expression is kept as `divBy`"""
        out = []
        for n in ast.walk(value):
            if isinstance(n, ast.BinOp) and isinstance(n.op, (ast.Div, ast.FloorDiv, ast.Mod)) and names_in(n.right) & set(COUNTERS):
                out.append(['divBy', self.expr(n.right)])
        bad = names_in(value) - TIMING - set(COUNTERS) - {'time'}
        if bad:
            raise Refuse(st, 'timing statement reads %s' % sorted(bad))
        return out

    def print_block(self, st):
        """if (rank == 0): diagnosticFile = open(diagnostic_filename, "a"); <prints>; diagnosticFile.close()  ->  printLines"""
        body = st.body
        if st.orelse or len(body) != 3:
            return None
        a, p, c = body
        if not (isinstance(a, ast.Assign) and name_of(a.targets[0]) == 'diagnosticFile' and isinstance(a.value, ast.Call)
                and name_of(a.value.func) == 'open' and name_of(a.value.args[0]) == 'diagnostic_filename'
                and isinstance(a.value.args[1], ast.Constant) and a.value.args[1].value == 'a'):
            return None
        if not (isinstance(c, ast.Expr) and isinstance(c.value, ast.Call) and dotted(c.value.func) == 'diagnosticFile.close'):
            return None

        def getline_arg(call):
            if not (isinstance(call, ast.Call) and name_of(call.func) == 'print' and len(call.args) == 1
                    and len(call.keywords) == 1 and call.keywords[0].arg == 'file' and name_of(call.keywords[0].value) == 'diagnosticFile'):
                return None
            g = call.args[0]
            if not (isinstance(g, ast.Call) and isinstance(g.func, ast.Attribute) and g.func.attr == 'getLine'
                    and self.ctor.get(name_of(g.func.value)) == 'DiagnosticCollector' and len(g.args) == 1):
                return None
            return g.args[0]
        if isinstance(p, ast.Expr):
            i = getline_arg(p.value)
            if i is None:
                return None
            lo = self.expr(i)
            return [['printLines', lo, ['add', lo, ['lit', 1]]]]
        if isinstance(p, ast.For) and not p.orelse and len(p.body) == 1 and isinstance(p.body[0], ast.Expr) and isinstance(p.target, ast.Name):
            i = getline_arg(p.body[0].value)
            if i is None or name_of(i) != p.target.id:
                return None
            r = p.iter
            if not (isinstance(r, ast.Call) and name_of(r.func) == 'range' and len(r.args) in (1, 2) and not r.keywords):
                return None
            if len(r.args) == 1:
                return [['printLines', ['lit', 0], self.expr(r.args[0])]]
            return [['printLines', self.expr(r.args[0]), self.expr(r.args[1])]]
        return None

    def simple(self, st):
        """statement -> list of Simple; raises Refuse; returns None if the statement is a compound one"""
        if isinstance(st, (ast.Import, ast.ImportFrom, ast.FunctionDef, ast.Pass)):
            return []
        if isinstance(st, ast.Assert):
            if names_in(st.test) & (set(COUNTERS) | set(GRIDS)):
                raise Refuse(st, 'assert on the simulation state')
            return []
        if isinstance(st, ast.Expr):
            if isinstance(st.value, ast.Constant):
                return []
            if isinstance(st.value, ast.Call):
                return self.call(st.value)
            raise Refuse(st, 'expression statement not recognised')
        if isinstance(st, ast.AugAssign):
            tgt = name_of(st.target)
            if tgt in TIMING:
                return self.timing_stmt(st, st.value)
            if tgt in ASSIGNABLE and isinstance(st.op, (ast.Add, ast.Sub)):
                op = 'add' if isinstance(st.op, ast.Add) else 'sub'
                return [['assign', tgt, [op, ['var', tgt], self.expr(st.value)]]]
            raise Refuse(st, 'augmented assignment to %r' % tgt)
        if isinstance(st, ast.Assign):
            if len(st.targets) != 1:
                raise Refuse(st, 'chained assignment')
            tg = st.targets[0]
            if isinstance(tg, ast.Tuple):
                names = [name_of(e) for e in tg.elts]
                v = st.value
                if names == ['distribFunc', 'constants', 't'] and isinstance(v, ast.Call):
                    kws = {k.arg: k.value for k in v.keywords}
                    lay = kws.get('layout')
                    if not (isinstance(lay, ast.Constant) and lay.value == 'v_parallel'):
                        raise Refuse(st, "set-up call without layout='v_parallel'")
                    asm = kws.get('allocateSaveMemory')
                    if not (isinstance(asm, ast.Constant) and asm.value is True):
                        raise Refuse(st, 'set-up call without allocateSaveMemory=True')
                    if name_of(v.func) == 'setupFromFile':
                        if 'timepoint' in kws:
                            raise Refuse(st, 'setupFromFile with a timepoint')
                        return [['setupFromFile']]
                    if name_of(v.func) == 'setupCylindricalGrid':
                        return [['setupNew']]
                raise Refuse(st, 'tuple assignment not recognised')
            tgt = name_of(tg)
            v = st.value
            if tgt is None:
                raise Refuse(st, 'assignment target not a plain name')
            if tgt in TIMING:
                return self.timing_stmt(st, v)
            if tgt in ASSIGNABLE:
                return [['assign', tgt, self.expr(v)]]
            if tgt == 'timeForLoop':
                if isinstance(v, ast.Constant) and v.value is True:
                    self.facts['timeForLoop_initially_true'] = True
                    return []
                if isinstance(v, ast.Call) and dotted(v.func) == 'comm.allreduce' and any(
                        k.arg == 'op' and dotted(k.value) == 'MPI.LAND' for k in v.keywords):
                    if names_in(v.args[0]) & (set(GRIDS) | ASSIGNABLE):
                        raise Refuse(st, 'the wall-clock test reads simulation state')
                    return [['pollTime']]
                raise Refuse(st, 'assignment to timeForLoop not recognised')
            if isinstance(v, ast.Call) and name_of(v.func) in CTORS:
                self.ctor[tgt] = name_of(v.func)
                return []
            if isinstance(v, ast.Call) and name_of(v.func) == 'Grid' and tgt in ('phi', 'rho'):
                lay = v.args[3] if len(v.args) > 3 else None
                want = {'phi': 'mode_solve', 'rho': 'v_parallel_2d'}[tgt]
                if not (isinstance(lay, ast.Constant) and lay.value == want):
                    raise Refuse(st, '%s must be created in layout %s' % (tgt, want))
                return [['allocPhi' if tgt == 'phi' else 'allocRho']]
            if tgt == 'parGradVals' and isinstance(v, ast.Call) and dotted(v.func) == 'np.empty':
                return [['allocParGradVals']]
            if tgt == 'fullStep':
                if dotted(v) != 'constants.dt':
                    raise Refuse(st, 'fullStep is not constants.dt')
                self.facts['fullStep = constants.dt'] = True
                return []
            if tgt == 'halfStep':
                ok = (isinstance(v, ast.BinOp) and isinstance(v.op, ast.Mult) and dotted(v.left) == 'constants.dt'
                      and isinstance(v.right, ast.Constant) and v.right.value == 0.5)
                if not ok:
                    raise Refuse(st, 'halfStep is not constants.dt*0.5')
                self.facts['halfStep = constants.dt*0.5'] = True
                return []
            if tgt == 'profilingOn':
                if not (isinstance(v, ast.Constant) and v.value is False):
                    raise Refuse(st, 'profilingOn is not the constant False')
                self.facts['profilingOn = False'] = True
                return []
            if tgt in ('saveStep', 'tEnd'):
                if dotted(v.value if isinstance(v, ast.Subscript) else v) != 'args.' + tgt:
                    raise Refuse(st, '%s does not come from the command line' % tgt)
                return []
            if tgt == 'foldername' and isinstance(v, ast.Call) and name_of(v.func) == 'setupSave':
                self.facts['setupSave after setupNew'] = True
                return []
            if tgt in CONFIG:
                if names_in(v) & (ASSIGNABLE | set(GRIDS)) and tgt not in ('nprocs',):
                    raise Refuse(st, 'configuration variable %s computed from simulation state' % tgt)
                return []
            raise Refuse(st, 'assignment to unknown variable %r' % tgt)
        return None

    def simples(self, stmts, where):
        out = []
        for st in stmts:
            r = self.simple(st)
            if r is None:
                if isinstance(st, ast.If) and dotted(st.test) == 'profilingOn' and not st.orelse:
                    self.need('profilingOn = False')
                    continue
                if isinstance(st, ast.If) and isinstance(st.test, ast.Compare) and name_of(st.test.left) == 'rank':
                    pb = self.print_block(st)
                    if pb is not None:
                        out += pb
                        continue
                raise Refuse(st, 'compound statement not allowed inside %s' % where)
            out += r
        return out

    def block(self, stmts):
        """top-level statement list (pre / body / post) -> list of Stmt"""
        out = []
        for st in stmts:
            r = self.simple(st)
            if r is not None:
                out += [['s', x] for x in r]
                continue
            if isinstance(st, ast.If):
                t = st.test
                if dotted(t) == 'profilingOn' and not st.orelse:
                    self.need('profilingOn = False')
                    continue
                if isinstance(t, ast.Compare) and name_of(t.left) == 'rank':
                    pb = self.print_block(st)
                    if pb is not None:
                        out += [['s', x] for x in pb]
                        continue
                    # rank-0 housekeeping (mkdir timing)
                    if all(isinstance(n, (ast.If, ast.Expr)) for n in st.body) and not (names_in(st) & (ASSIGNABLE | set(GRIDS))):
                        continue
                    raise Refuse(st, 'rank-0 block not recognised')
                if isinstance(t, ast.Compare) and isinstance(t.left, ast.Call) and name_of(t.left.func) == 'len':
                    # command-line handling: foldername / constantFile
                    if names_in(st) & (ASSIGNABLE | set(GRIDS)):
                        raise Refuse(st, 'command-line handling touches simulation state')
                    continue
                c = self.cond(t)
                out.append(['ifc', c, self.simples(st.body, 'an if block')])
                if st.orelse:
                    if c == ['loadable']:
                        out.append(['ifc', ['notLoadable'], self.simples(st.orelse, 'an else block')])
                    else:
                        raise Refuse(st, 'else branch on a bookkeeping condition')
                continue
            raise Refuse(st, 'statement not recognised: %s' % type(st).__name__)
        return out

    def program(self, src):
        tree = ast.parse(src)
        mains = [n for n in tree.body if isinstance(n, ast.FunctionDef) and n.name == 'main']
        if len(mains) != 1:
            raise Refuse(tree, 'no unique main()')
        body = mains[0].body
        loops = [i for i, st in enumerate(body) if isinstance(st, ast.While)]
        if len(loops) != 1:
            raise Refuse(mains[0], 'expected exactly one while loop at the top level of main()')
        for st in body:
            for n in ast.walk(st):
                if isinstance(n, (ast.While, ast.For)) and n is not body[loops[0]] and isinstance(n, ast.While):
                    raise Refuse(n, 'nested while loop')
                if isinstance(n, (ast.Break, ast.Continue, ast.Return, ast.Try, ast.With)):
                    raise Refuse(n, 'control flow (%s) not recognised' % type(n).__name__)
        w = body[loops[0]]
        if w.orelse:
            raise Refuse(w, 'while ... else')
        prog = {'pre': self.block(body[:loops[0]]), 'cond': self.cond(w.test), 'body': self.block(w.body),
                'post': self.block(body[loops[0] + 1:])}
        for need in self.facts.get('needed', ()):
            if not self.facts.get(need):
                raise Refuse(mains[0], 'required definition missing: ' + need)
        if not self.facts.get('timeForLoop_initially_true'):
            raise Refuse(mains[0], 'timeForLoop is not initialised to True')
        if any(x == ['s', ['setupNew']] or (x[0] == 'ifc' and ['setupNew'] in x[2]) for x in prog['pre']) and not self.facts.get('setupSave after setupNew'):
            raise Refuse(mains[0], 'setupSave missing after setupCylindricalGrid')
        return prog


# ---------------------------------------------------------------------------------------------------------------
# other facts read from the sources

def layout_tables(setups_src):
    """the `layouts = {...}` dicts of setupCylindricalGrid and setupFromFile"""
    tree = ast.parse(setups_src)
    out = {}
    for fn in tree.body:
        if isinstance(fn, ast.FunctionDef) and fn.name in ('setupCylindricalGrid', 'setupFromFile'):
            for st in ast.walk(fn):
                if isinstance(st, ast.Assign) and name_of(st.targets[0]) == 'layouts' and isinstance(st.value, ast.Dict):
                    out[fn.name] = [(ast.literal_eval(k), list(ast.literal_eval(v))) for k, v in zip(st.value.keys, st.value.values)]
    if set(out) != {'setupCylindricalGrid', 'setupFromFile'}:
        raise Refuse(tree, 'setups.py: layout tables not found')
    return out


def name_widths(grid_src, setups_src):
    """zero-padding widths of the time in the checkpoint names"""
    def widths(src):
        return [int(m) for m in re.findall(r'\{\d*:0(\d+)\}', src)]
    g, s = widths(grid_src), widths(setups_src)
    if len(g) != 2 or len(s) != 1:
        raise Refuse(ast.parse(''), 'file-name format strings not found (grid.py: %s, setups.py: %s)' % (g, s))
    return {'write': g[0], 'load': g[1], 'timepoint': s[0]}


# ---------------------------------------------------------------------------------------------------------------
# rendering

def lean_expr(e):
    k = e[0]
    if k == 'var':
        return '(.var .%s)' % e[1]
    if k == 'lit':
        return '(.lit %d)' % e[1] if e[1] >= 0 else '(.lit (%d))' % e[1]
    return '(.%s %s %s)' % (k, lean_expr(e[1]), lean_expr(e[2]))


def lean_cond(c):
    k = c[0]
    if k in ('lt', 'eq', 'ne'):
        return '(.%s %s %s)' % (k, lean_expr(c[1]), lean_expr(c[2]))
    if k == 'and':
        return '(.and %s %s)' % (lean_cond(c[1]), lean_cond(c[2]))
    return '.' + k


def lean_call(c):
    k = c[0]
    args = []
    for a in c[1:]:
        if isinstance(a, bool):
            args.append('true' if a else 'false')
        else:
            args.append('.' + a)
    return '(.%s%s)' % (k, ''.join(' ' + a for a in args)) if args else '.' + k


def lean_simple(x):
    k = x[0]
    if k == 'assign':
        return '.assign .%s %s' % (x[1], lean_expr(x[2]))
    if k == 'call':
        return '.call %s' % lean_call(x[1])
    if k == 'printLines':
        return '.printLines %s %s' % (lean_expr(x[1]), lean_expr(x[2]))
    if k == 'divBy':
        return '.divBy %s' % lean_expr(x[1])
    return '.' + k


def lean_stmt(s):
    if s[0] == 's':
        return '.s (%s)' % lean_simple(s[1])
    return '.ifc %s [\n      %s]' % (lean_cond(s[1]), ',\n      '.join(lean_simple(x) for x in s[2]))


def lean_block(b):
    return '[\n    ' + ',\n    '.join(lean_stmt(s) for s in b) + ']'


def render(prog, tables, widths, sha):
    def table(t):
        return '[' + ', '.join('("%s", [%s])' % (n, ', '.join(map(str, o))) for n, o in t) + ']'
    return '''/- GENERATED by harness/translate_driver.py from fullSimulation.py (sha256 %s),
   pygyro/initialisation/setups.py and pygyro/model/grid.py.  Do not edit; regenerated on every run of ./check C18. -/
import PygyroVerif.Model.Checkpoint

namespace PygyroVerif.Generated
open PygyroVerif.Ckpt

def sourceSha : String := "%s"

/-- `layouts = {...}` of setupCylindricalGrid and of setupFromFile -/
def layoutsNew : List (String × List Nat) := %s
def layoutsFromFile : List (String × List Nat) := %s

/-- zero-padding width of the time in `writeH5Dataset`, `loadFromFile(time=…)` and `setupFromFile(timepoint=…)` -/
def writeWidth : Nat := %d
def loadWidth : Nat := %d
def timepointWidth : Nat := %d

def driver : Program where
  pre := %s
  cond := %s
  body := %s
  post := %s

end PygyroVerif.Generated
''' % (sha, sha, table(tables['setupCylindricalGrid']), table(tables['setupFromFile']), widths['write'], widths['load'],
       widths['timepoint'], lean_block(prog['pre']), lean_cond(prog['cond']), lean_block(prog['body']), lean_block(prog['post']))


def translate(repo):
    src = open(os.path.join(repo, 'fullSimulation.py')).read()
    setups_src = open(os.path.join(repo, 'pygyro', 'initialisation', 'setups.py')).read()
    grid_src = open(os.path.join(repo, 'pygyro', 'model', 'grid.py')).read()
    sha = hashlib.sha256(src.encode()).hexdigest()[:16]
    tr = Translator()
    prog = tr.program(src)
    tables = layout_tables(setups_src)
    widths = name_widths(grid_src, setups_src)
    return prog, tables, widths, sha


def main(argv=None):
    ap = argparse.ArgumentParser()
    ap.add_argument('--repo', default=os.environ.get('PYGYRO_REPO', '/repo'))
    ap.add_argument('--out', default=DEFAULT_OUT)
    ap.add_argument('--quiet', action='store_true')
    a = ap.parse_args(argv)
    os.makedirs(a.out, exist_ok=True)
    lean_file = os.path.join(a.out, 'TimeLoop.lean')
    json_file = os.path.join(a.out, 'TimeLoop.json')
    try:
        prog, tables, widths, sha = translate(a.repo)
    except (Refuse, SyntaxError, OSError) as e:
        for f in (lean_file, json_file):
            if os.path.exists(f):
                os.remove(f)
        print('translate_driver: REFUSED: %s' % e)
        return 3
    text = render(prog, tables, widths, sha)
    old = open(lean_file).read() if os.path.exists(lean_file) else None
    if old != text:                      # keep the time stamp when nothing changed: no rebuild
        open(lean_file, 'w').write(text)
    json.dump({'program': prog, 'layouts': tables, 'widths': widths, 'sha': sha}, open(json_file, 'w'), indent=1)
    if not a.quiet:
        n = sum(len(prog[k]) for k in ('pre', 'body', 'post'))
        print('translate_driver: %s (%d statements, sha %s)' % (lean_file, n, sha))
    return 0


if __name__ == '__main__':
    sys.exit(main())
