"""C05 — simulation results do not depend on the process decomposition.

proof side    : Props/C05.lean (wiring_* theorems, gridop_decomposition_independent, negative witnesses of the repaired defects)
                Props/C05Gen.lean (tie by translation of pygyro/initialisation/initialiser_funcs.py, Generated/InitFuncsGen.lean regenerated on every
                run; exp / tanh / cos / sqrt / pi uninterpreted: closed formulas of n0, Ti, Te, perturbation, f_eq, n0deriv_normalised, init_f, and the
                per-slice clauses gen_init_f_flux_eq / gen_init_f_pol_eq / gen_init_f_vpar_eq / gen_feq_vector_eq: every entry of the output is the
                scalar function at that entry's OWN coordinates, nothing else is written)
                Props/C05Gen2.lean (tie by translation of the GRID-LEVEL LOOPS: harness/translate_gridops.py regenerates Generated/GridOpsGen.lean from
                gridStep* / getPerturbedRho / getRho / solveEquation / initialise_* on every run; gen_*_eq: the generated call lists, read through the table
                conventions of Lemmas/GridOpsGen.lean, are the call lists of Model/Wiring.lean for every layout and process; gen_wiring_*: the wiring_*
                theorems hold of the generated loops; Props/C05Gen2Examples.lean: instances recorded from the real methods, compared again on every run)
correspondence: (i) wiring traces — the real grid-level operators run on every rank of a forced process grid with their kernels wrapped:
                    every kernel call is recorded as (global slice indices, global indices at which parameters/table rows were taken) and
                    compared exactly with the call list of Model/Wiring.lean;
oracle        : (ii) end to end, no model: each operator on random fields and the complete driver step(s) for every admissible process grid
                    vs the serial run; assembled global fields must agree within 64*eps*max|field| (bit-identity is recorded, not required).
"""
import os
import shutil
import tempfile

import numpy as np

import common
import layout_util as lu
from mpi4py import MPI

LEVEL = 'proof'
STD = {'flux_surface': [0, 3, 1, 2], 'v_parallel': [0, 2, 1, 3], 'poloidal': [3, 2, 1, 0]}


def local_index(view, base):
    """leading local indices of a slice `view` of the block `base` (through the memory offset)"""
    off = (view.__array_interface__['data'][0] - base.__array_interface__['data'][0]) // base.itemsize
    return [int(x) for x in np.unravel_index(off, base.shape)]


class LoggedArray(np.ndarray):
    """ndarray that records the keys it is read with (used for parGradVals)"""
    def __new__(cls, shape):
        obj = np.zeros(shape).view(cls)
        obj.log = []
        return obj

    def __array_finalize__(self, obj):
        self.log = getattr(obj, 'log', [])

    def __getitem__(self, key):
        if isinstance(key, tuple) and len(key) == 3 and all(isinstance(k, (int, np.integer)) for k in key):
            self.log.append(tuple(int(k) for k in key))
        return super().__getitem__(key)


# a structured set-up: dz = 1, integer grid velocities (with dt = 1 the displacement is a whole number of cells wherever b_z = 1)
ALIGNED_OVERRIDES = dict(zMin=0.0, zMax=8.0, vMax=9.0, vMin=-9.0)   # Greville points of the v space: -9 -8 -6 -3 0 3 6 8 9


# profile constants that a parameter file / keyword overrides may give: every one of them different from its counterparts
PROFILE_OVERRIDES = dict(CTi=1.1, kTi=0.07, deltaRTi=1.3, CTe=0.9, kTe=0.11, deltaRTe=2.1, kN0=0.06, deltaRN0=2.5, deltaR=3.3)


def init_oracle(eta, c):
    """closed form of the initial distribution function in physical order (r, theta, z, v), from the constants alone"""
    r, th, z, v = [np.asarray(x, float) for x in eta]
    n0 = c.CN0 * np.exp(-c.kN0 * c.deltaRN0 * np.tanh((r - c.rp) / c.deltaRN0))
    Ti = c.CTi * np.exp(-c.kTi * c.deltaRTi * np.tanh((r - c.rp) / c.deltaRTi))
    feq = n0[:, None] * np.exp(-0.5 * v[None, :] ** 2 / Ti[:, None]) / np.sqrt(2 * np.pi * Ti[:, None])
    pert = np.exp(-(r - c.rp) ** 2 / c.deltaR)[:, None, None] * np.cos(c.m * th[None, :, None] + c.n * z[None, None, :] / c.R0)
    return feq[:, None, None, :] * (1 + c.eps * pert[:, :, :, None])


def build(npts, forced, iota, start='v_parallel', seed=0, random_field=True, overrides=None):
    """inside a rank: the objects the driver builds (grid, phi, rho, operators), on a forced process grid"""
    import pygyro.initialisation.setups as setups
    from pygyro.advection.advection import FluxSurfaceAdvection, VParallelAdvection, PoloidalAdvection, ParallelGradient
    from pygyro.poisson.poisson_solver import DensityFinder, QuasiNeutralitySolver
    from pygyro.model.layout import LayoutSwapper, getLayoutHandler
    from pygyro.model.grid import Grid
    setups.compute_2d_process_grid = lambda n, size: tuple(forced)
    comm = MPI.COMM_WORLD
    f, constants, t = setups.setupCylindricalGrid(layout=start, npts=list(npts), comm=comm, iotaVal=iota, eps=0.05, m=2, n=1,
                                                  allocateSaveMemory=True, dt=2, **(overrides or {}))
    if random_field:
        L = f.getLayout(start)
        full = np.random.default_rng(seed).normal(size=[npts[d] for d in L.dims_order]) * 0.1 + 1.0
        f.getAllData()[:] = full[tuple(slice(s, e) for s, e in zip(L.starts, L.ends))]
    half, fulldt = constants.dt * 0.5, constants.dt
    o = {'f': f, 'constants': constants, 'comm': comm}
    o['flux'] = FluxSurfaceAdvection(f.eta_grid, f.get2DSpline(), f.getLayout('flux_surface'), half, constants)
    o['vpar'] = VParallelAdvection(f.eta_grid, f.getSpline(3), constants)
    o['pol'] = PoloidalAdvection(f.eta_grid, f.getSpline(slice(1, None, -1)), constants)
    o['pgv'] = LoggedArray([f.getLayout(f.currentLayout).shape[0] if start == 'v_parallel' else f.getLayout('v_parallel').shape[0],
                            constants.npts[2], constants.npts[1]])
    nprocs = f.getLayout(f.currentLayout).nprocs[:2]
    rphi = LayoutSwapper(comm, [{'v_parallel_2d': [0, 2, 1], 'mode_solve': [1, 2, 0]}, {'v_parallel_1d': [0, 2, 1]}, {'poloidal': [2, 1, 0]}],
                         [nprocs, nprocs[0], nprocs[1]], f.eta_grid[:3], 'mode_solve')
    rrho = getLayoutHandler(comm, {'v_parallel_2d': [0, 2, 1], 'mode_solve': [1, 2, 0]}, nprocs, f.eta_grid[:3])
    o['phi'] = Grid(f.eta_grid[:3], f.getSpline(slice(0, 3)), rphi, 'mode_solve', comm, dtype=np.complex128)
    o['rho'] = Grid(f.eta_grid[:3], f.getSpline(slice(0, 3)), rrho, 'v_parallel_2d', comm, dtype=np.complex128)
    o['density'] = DensityFinder(6, f.getSpline(3), f.eta_grid, constants)
    o['qn'] = QuasiNeutralitySolver(f.eta_grid[:3], 7, f.getSpline(0), constants, chi=0)
    o['pg'] = ParallelGradient(f.getSpline(1), f.eta_grid, rphi.getLayout('v_parallel_1d'), constants)
    o['half'], o['full'] = half, fulldt
    return o


def fill_phi(phi, npts, layout, seed, z_independent=False):
    L = phi.getLayout(layout)
    full = np.random.default_rng(seed).normal(size=[npts[d] for d in L.dims_order])
    if z_independent:
        # the same (r, theta) plane at every axial position (bit-identical planes)
        zpos = list(L.dims_order).index(2)
        first = np.take(full, [0], axis=zpos)
        full = np.repeat(first, npts[2], axis=zpos)
    phi.getAllData()[:] = full[tuple(slice(s, e) for s, e in zip(L.starts, L.ends))]


def block(grid):
    L = grid.getLayout(grid.currentLayout)
    return (tuple(int(x) for x in L.starts), tuple(int(x) for x in L.ends), tuple(L.dims_order), np.array(grid.getAllData(), copy=True))


class BlocksInconsistent(Exception):
    """after an operator the layout of a grid no longer describes the block the grid holds"""


def assemble(blocks, npts):
    order = blocks[0][2]
    G = np.zeros([npts[d] for d in order], dtype=blocks[0][3].dtype)
    cover = np.zeros(G.shape, dtype=int)
    for s, e, o, data in blocks:
        if tuple(b - a for a, b in zip(s, e)) != tuple(data.shape) or tuple(o) != tuple(order):
            raise BlocksInconsistent('the layout advertises the block %s:%s (ordering %s) but the grid holds data of shape %s'
                                     % (list(s), list(e), list(o), list(data.shape)))
        G[tuple(slice(a, b) for a, b in zip(s, e))] = data
        cover[tuple(slice(a, b) for a, b in zip(s, e))] += 1
    if not (cover == 1).all():
        raise BlocksInconsistent('the blocks advertised by the layouts of the processes do not tile the global index space')
    return np.transpose(G, np.argsort(order))       # physical order


def layout_desc(L):
    return {'nprocs': [int(x) for x in L.nprocs], 'ord': [int(x) for x in L.dims_order], 'ext': None}


# ------------------------------------------------------------------------------------------------ wiring traces
def wiring_body(npts, forced, iota):
    """runs the grid-level operators with wrapped kernels; returns the recorded calls of this rank"""
    o = build(npts, forced, iota)
    f, phi, rho = o['f'], o['phi'], o['rho']
    eta = f.eta_grid
    rec = {}

    def starts(g):
        L = g.getLayout(g.currentLayout)
        return [int(x) for x in L.starts]
    # ---- flux
    f.setLayout('flux_surface')
    calls = []
    orig = o['flux'].step

    def flux_step(sl, cIdx, rIdx=0):
        i, j = local_index(sl, f.getAllData())[:2]
        s = starts(f)
        calls.append(['flux.step', [s[0] + i, s[1] + j], [s[0] + int(rIdx), s[1] + int(cIdx)]])
    o['flux'].step = flux_step
    o['flux'].gridStep(f)
    o['flux'].step = orig
    rec['flux'] = calls
    # ---- v parallel (with gradient), then keep gradient
    f.setLayout('v_parallel')
    phi.setLayout('v_parallel_1d')
    fill_phi(phi, npts, 'v_parallel_1d', 5)
    for keep in (False, True):
        calls = []
        pgv = o['pgv']
        pgv.log.clear()
        sp = starts(phi)

        def pargrad(phi_r, i, der):
            li = local_index(phi_r, phi.getAllData())[0]
            calls.append(['pargrad', [sp[0] + li], [sp[0] + int(i)]])
        o['pg'].parallel_gradient, orig_pg = pargrad, o['pg'].parallel_gradient

        def vstep(sl, dt, c, r):
            i, j, k = local_index(sl, f.getAllData())[:3]
            s = starts(f)
            key = pgv.log[-1]
            ridx = int(np.argmin(np.abs(eta[0] - r)))
            calls.append(['vpar.step', [s[0] + i, s[1] + j, s[2] + k], [sp[0] + key[0], key[1], key[2], ridx]])
        o['vpar'].step, orig_v = vstep, o['vpar'].step
        if keep:
            o['vpar'].gridStepKeepGradient(f, pgv, o['half'])
        else:
            o['vpar'].gridStep(f, phi, o['pg'], pgv, o['half'])
        o['vpar'].step = orig_v
        del o['pg'].parallel_gradient
        rec['vpar_keep' if keep else 'vpar'] = calls
    # ---- poloidal
    f.setLayout('poloidal')
    phi.setLayout('poloidal')
    calls = []
    sp = starts(phi)
    pol = o['pol']
    orig_ci = pol._interpolator.compute_interpolant

    def interp(vals, spline):
        li = local_index(vals, phi.getAllData())[0]
        j = [k for k, s_ in enumerate(pol._phiSplines) if s_ is spline][0]
        calls.append(['pol.interp', [sp[0] + li], [sp[0] + j]])
    pol._interpolator.compute_interpolant = interp

    def pstep(sl, dt, phispl, v):
        i, j = local_index(sl, f.getAllData())[:2]
        s = starts(f)
        jj = [k for k, s_ in enumerate(pol._phiSplines) if s_ is phispl][0]
        vidx = int(np.argmin(np.abs(eta[3] - v)))
        calls.append(['pol.step', [s[0] + i, s[1] + j], [vidx, sp[0] + jj]])
    pol.step, orig_p = pstep, pol.step
    pol.gridStep(f, phi, o['half'])
    pol.step = orig_p
    pol._interpolator.compute_interpolant = orig_ci
    rec['pol'] = calls
    # ---- density rows and mode solve
    import pygyro.poisson.poisson_solver as ps
    f.setLayout('v_parallel')
    calls = []
    fEq = o['density']._fEq
    orig_gpr = ps.get_perturbed_rho

    def gpr(rho_arr, feq_rows, f_arr, quad):
        s = starts(f)
        for li, row in enumerate(feq_rows):
            gi = [k for k in range(fEq.shape[0]) if np.array_equal(fEq[k], row)]
            calls.append(['density.row', [s[0] + li], [gi[0] if len(gi) == 1 else -1]])
        orig_gpr(rho_arr, feq_rows, f_arr, quad)
    ps.get_perturbed_rho = gpr
    o['density'].getPerturbedRho(f, rho)
    ps.get_perturbed_rho = orig_gpr
    rec['density'] = calls
    o['qn'].getModes(rho)
    rho.setLayout('mode_solve')
    phi.setLayout('mode_solve')
    calls = []
    qn = o['qn']
    orig_sm = qn._solveMode

    def solve_mode(phi_, rho_, stiff, i, I):
        s = starts(rho)
        calls.append(['solve.mode', [s[0] + int(i)], [int(I)]])
        orig_sm(phi_, rho_, stiff, i, I)
    qn._solveMode = solve_mode
    qn.solveEquation(phi, rho)
    del qn._solveMode
    rec['solve'] = calls
    Lf = {n: f.getLayout(n) for n in STD}
    rec['coords'] = [int(x) for x in f._layout_manager.mpiCoords]
    rec['phi_layouts'] = {n: {'nprocs': [int(x) for x in phi.getLayout(n).nprocs], 'ord': [int(x) for x in phi.getLayout(n).dims_order],
                              'ranks': [int(x) for x in phi.getLayout(n).ranks]} for n in ('v_parallel_1d', 'poloidal', 'mode_solve')}
    rec['rho_layout'] = {'nprocs': [int(x) for x in rho.getLayout('mode_solve').nprocs], 'ord': [1, 2, 0], 'ranks': [int(x) for x in rho.getLayout('mode_solve').ranks]}
    return rec


def part_wiring(chk, drv):
    grids = chk.n([((6, 8, 8, 8), (2, 2), 0.8), ((8, 8, 8, 9), (1, 3), 0.0), ((7, 8, 8, 8), (3, 1), 0.8)],
                  [((6, 8, 8, 8), (2, 2), 0.8), ((8, 8, 8, 9), (1, 3), 0.0), ((7, 8, 8, 8), (3, 1), 0.8), ((8, 8, 9, 8), (2, 3), 0.8),
                   ((8, 8, 8, 8), (1, 1), 0.8), ((9, 8, 8, 10), (4, 2), 0.0), ((8, 8, 10, 8), (2, 4), 0.8)])
    for npts, forced, iota in grids:
        n = forced[0] * forced[1]
        res = lu.run_ranks(n, wiring_body, npts, forced, iota, policy='random', seed=chk.seed)
        case = {'npts': npts, 'process_grid': forced, 'iota': iota}
        if not res.ok:
            chk.fail('C05:wiring-run', 'running the grid-level operators raised: ' + str(res.first_error())[:240], case)
            continue
        for rank, rec in enumerate(res.values()):
            c = rec['coords']

            def lay(name):
                return {'nprocs': list(forced), 'ord': STD[name], 'ext': list(npts)}

            def play(name):
                pl = rec['phi_layouts'][name]
                return {'nprocs': [x for x in pl['nprocs']], 'ord': pl['ord'], 'ext': list(npts[:3])}, pl['ranks']
            reqs = [('flux', {'op': 'flux', 'layout': lay('flux_surface'), 'coords': c})]
            pl, pc = play('v_parallel_1d')
            reqs.append(('vpar', {'op': 'vpar', 'layout': lay('v_parallel'), 'coords': c, 'phi_layout': pl, 'phi_coords': pc, 'keep': False}))
            reqs.append(('vpar_keep', {'op': 'vpar', 'layout': lay('v_parallel'), 'coords': c, 'phi_layout': pl, 'phi_coords': pc, 'keep': True}))
            pl, pc = play('poloidal')
            reqs.append(('pol', {'op': 'pol', 'layout': lay('poloidal'), 'coords': c, 'phi_layout': pl, 'phi_coords': pc}))
            reqs.append(('density', {'op': 'density', 'layout': lay('v_parallel'), 'coords': c}))
            rl = rec['rho_layout']
            reqs.append(('solve', {'op': 'solve', 'layout': {'nprocs': rl['nprocs'], 'ord': rl['ord'], 'ext': list(npts[:3])}, 'coords': rl['ranks']}))
            for (key, rq), mo in zip(reqs, drv.batch([r for _, r in reqs])):
                real = rec[key]
                cc = dict(case, rank=rank, operator=key)
                # oracle (no model): parameters are those of the slice's own global coordinates
                for op, sl, pa in real:
                    exp = sl + [sl[0]] if op == 'vpar.step' else sl
                    if pa != exp:
                        chk.fail('C05:wiring:' + op, 'kernel call for global slice %s received the parameters of %s' % (sl, pa), cc, exp, pa)
                        break
                if real != mo['calls']:
                    bad = [(a, b) for a, b in zip(real, mo['calls']) if a != b][:1]
                    chk.diff('wiring calls of ' + key, cc, bad[0][1] if bad else len(mo['calls']), bad[0][0] if bad else len(real))
                chk.count('kernel calls traced', len(real))
        chk.case(('wiring', npts, forced, iota), nontrivial=n > 1,
                 sample=dict(case, rank0_first_calls=res.values()[0]['vpar'][:3]) if len(chk.samples) < 2 else None)
        chk.traces_validated += n


# ------------------------------------------------------------------------------------------------ end to end
class OperatorsShareState(Exception):
    """raised inside a rank by a harness-side comparison: two operator objects influence each other"""


def op_body(npts, forced, iota, which, start):
    o = build(npts, forced, iota, start=start, seed=3, random_field=(which not in ('init', 'init_prof')),
              overrides=PROFILE_OVERRIDES if which == 'init_prof' else ALIGNED_OVERRIDES if which == 'flux_partly_aligned' else None)
    f, phi, rho = o['f'], o['phi'], o['rho']
    if which in ('init', 'init_prof'):
        return {'f': block(f), 'oracle': (tuple([0] * 4), tuple(npts), (0, 1, 2, 3), init_oracle(f.eta_grid, o['constants']))}
    if which == 'flux':
        f.setLayout('flux_surface')
        o['flux'].gridStep(f)
    elif which == 'flux_tuned':
        # time step tuned so that one velocity travels a whole number of cells at the mid radius: the integer part of the
        # displacement then differs between the inner and the outer radii (b_z depends on r)
        from pygyro.advection.advection import FluxSurfaceAdvection
        c = o['constants']
        eta = f.eta_grid
        dz = eta[2][2] - eta[2][1]
        rmid = 0.5 * (eta[0][0] + eta[0][-1])
        bz = 1.0 / np.sqrt(1.0 + (rmid * c.iotaVal / c.R0) ** 2)
        dt = 2.0 * dz / (abs(eta[3][1]) * bz)
        f.setLayout('flux_surface')
        adv = FluxSurfaceAdvection(eta, f.get2DSpline(), f.getLayout('flux_surface'), dt, c)
        adv.gridStep(f)
    elif which == 'flux_partly_aligned':
        # rotational transform that vanishes on the inner half of the radial domain: there b_z = 1 and the feet of the characteristics fall
        # exactly on grid points (0/0 branch of the barycentric formula); on the outer half b_z < 1 and they do not.  Which radii share a
        # block depends on the process grid
        from pygyro.advection.advection import FluxSurfaceAdvection
        c = o['constants']
        eta = f.eta_grid
        rcut = 0.5 * (eta[0][len(eta[0]) // 2 - 1] + eta[0][len(eta[0]) // 2])
        val = float(c.iotaVal)
        c.iota = lambda r=c.rp: np.where(np.asarray(r, dtype=float) < rcut, 0.0, val) * np.ones_like(r, dtype=float)
        assert float(eta[2][2] - eta[2][1]) == 1.0 and all(float(v) == round(float(v)) for v in eta[3]), 'harness: the set-up is not aligned'
        f.setLayout('flux_surface')
        adv = FluxSurfaceAdvection(eta, f.get2DSpline(), f.getLayout('flux_surface'), 1.0, c)
        adv.gridStep(f)
    elif which == 'vpar':
        f.setLayout('v_parallel')
        phi.setLayout('v_parallel_1d')
        fill_phi(phi, npts, 'v_parallel_1d', 7)
        pgv = np.empty([f.getLayout('v_parallel').shape[0], npts[2], npts[1]])
        o['vpar'].gridStep(f, phi, o['pg'], pgv, o['half'])
        o['vpar'].gridStepKeepGradient(f, pgv, o['half'])
    elif which == 'vpar_shear':
        # a rotational transform that depends on the radius (magnetic shear): the parallel gradient must follow the field line of
        # each slice's own radius on every process (finding F18: a table for all radii was read with the local radial index)
        from pygyro.advection.advection import ParallelGradient
        c = o['constants']
        c.R0 = 4.0                                      # a tight torus: the twist per cell is not negligible
        val = float(c.iotaVal)
        c.iota = lambda r=c.rp: val * (1.0 + 0.4 * np.asarray(r, dtype=float))
        f.setLayout('v_parallel')
        phi.setLayout('v_parallel_1d')
        fill_phi(phi, npts, 'v_parallel_1d', 7)
        pg = ParallelGradient(f.getSpline(1), f.eta_grid, phi.getLayout('v_parallel_1d'), c)
        pgv = np.empty([f.getLayout('v_parallel').shape[0], npts[2], npts[1]])
        o['vpar'].gridStep(f, phi, pg, pgv, o['half'])
    elif which == 'vpar_seq':
        # the Strang sequence twice on the same objects, the second potential being exactly zero on part of the radial domain (a
        # whole block of some process, not of all): a decision taken from the local block would differ between decompositions
        f.setLayout('v_parallel')
        phi.setLayout('v_parallel_1d')
        pgv = np.empty([f.getLayout('v_parallel').shape[0], npts[2], npts[1]])
        fill_phi(phi, npts, 'v_parallel_1d', 7)
        o['vpar'].gridStep(f, phi, o['pg'], pgv, o['half'])
        o['vpar'].gridStepKeepGradient(f, pgv, o['half'])
        fill_phi(phi, npts, 'v_parallel_1d', 11)
        Lp = phi.getLayout('v_parallel_1d')
        rpos = list(Lp.dims_order).index(0)
        for i, gi in enumerate(range(Lp.starts[rpos], Lp.ends[rpos])):
            if gi < npts[0] // 2:
                idx = [slice(None)] * 3
                idx[rpos] = i
                phi.getAllData()[tuple(idx)] = 0.0
        o['vpar'].gridStep(f, phi, o['pg'], pgv, o['half'])
        o['vpar'].gridStepKeepGradient(f, pgv, o['half'])
    elif which == 'pol':
        f.setLayout('poloidal')
        phi.setLayout('poloidal')
        fill_phi(phi, npts, 'poloidal', 9)
        phi.getAllData()[:] *= 0.01
        o['pol'].gridStep(f, phi, o['half'])
    elif which == 'pol_seq':
        # the same operator object used twice: first with a potential that is the same on every z plane (and a zero one), then with
        # a z-dependent potential; nothing of the earlier calls may survive (cached splines are per local z plane)
        f.setLayout('poloidal')
        phi.setLayout('poloidal')
        fill_phi(phi, npts, 'poloidal', 5, z_independent=True)
        phi.getAllData()[:] *= 0.01
        o['pol'].gridStep(f, phi, o['half'])
        phi.getAllData()[:] = 0.0
        o['pol'].gridStep(f, phi, o['half'])
        fill_phi(phi, npts, 'poloidal', 9)
        phi.getAllData()[:] *= 0.01
        o['pol'].gridStep(f, phi, o['half'])
        o['pol'].gridStep_SplinesUnchanged(f, o['half'])
    elif which == 'pol_two':
        # two PoloidalAdvection operators on the same spline spaces (e.g. one per species): A.gridStep, then B.gridStep with another
        # potential, then A.gridStep_SplinesUnchanged.  A must continue with ITS potential: the result is compared (bit for bit)
        # with the same sequence without B, besides the serial / parallel comparison of the caller
        from pygyro.advection.advection import PoloidalAdvection
        f.setLayout('poloidal')
        phi.setLayout('poloidal')
        fill_phi(phi, npts, 'poloidal', 9)
        phi.getAllData()[:] *= 0.01
        f0 = np.array(f.getAllData(), copy=True)
        A = o['pol']
        B = PoloidalAdvection(f.eta_grid, f.getSpline(slice(1, None, -1)), o['constants'])
        A.gridStep(f, phi, o['half'])
        after_first = np.array(f.getAllData(), copy=True)
        keep_phi = np.array(phi.getAllData(), copy=True)
        fill_phi(phi, npts, 'poloidal', 13)
        phi.getAllData()[:] *= 0.02
        f.getAllData()[:] = f0
        B.gridStep(f, phi, o['half'])
        f.getAllData()[:] = after_first
        A.gridStep_SplinesUnchanged(f, o['half'])
        with_b = np.array(f.getAllData(), copy=True)
        # reference: a fresh operator, the same two calls, nothing in between
        R = PoloidalAdvection(f.eta_grid, f.getSpline(slice(1, None, -1)), o['constants'])
        phi.getAllData()[:] = keep_phi
        f.getAllData()[:] = f0
        R.gridStep(f, phi, o['half'])
        R.gridStep_SplinesUnchanged(f, o['half'])
        if not np.array_equal(np.array(f.getAllData()), with_b):
            raise OperatorsShareState('PoloidalAdvection: the result of A.gridStep_SplinesUnchanged depends on a gridStep of ANOTHER operator '
                                      'in between (max difference %.3e)' % float(np.max(np.abs(np.array(f.getAllData()) - with_b))))
        f.getAllData()[:] = with_b
    elif which == 'pol_zero':
        # a grid step of length zero with a NEW potential (an identity for f) still belongs to that potential: the following
        # gridStep_SplinesUnchanged traces the characteristics of the potential of the zero step, as a fresh operator given that
        # potential would (compared bit for bit, besides the serial / parallel comparison of the caller)
        from pygyro.advection.advection import PoloidalAdvection
        f.setLayout('poloidal')
        phi.setLayout('poloidal')
        fill_phi(phi, npts, 'poloidal', 5)
        phi.getAllData()[:] *= 0.01
        A = o['pol']
        A.gridStep(f, phi, o['half'])
        fill_phi(phi, npts, 'poloidal', 11)
        phi.getAllData()[:] *= 0.02
        before = np.array(f.getAllData(), copy=True)
        A.gridStep(f, phi, 0.0)
        # (a step of length zero evaluates the interpolant at the nodes: the identity up to rounding)
        if not np.allclose(np.array(f.getAllData()), before, rtol=1e-10, atol=1e-10 * max(1.0, float(np.abs(before).max()) if before.size else 1.0)):
            raise OperatorsShareState('PoloidalAdvection.gridStep with dt = 0 changed the distribution function by more than rounding')
        before = np.array(f.getAllData(), copy=True)
        A.gridStep_SplinesUnchanged(f, o['half'])
        got = np.array(f.getAllData(), copy=True)
        R = PoloidalAdvection(f.eta_grid, f.getSpline(slice(1, None, -1)), o['constants'])
        f.getAllData()[:] = before
        R.gridStep(f, phi, o['half'])
        if not np.array_equal(np.array(f.getAllData()), got):
            raise OperatorsShareState('PoloidalAdvection: gridStep(f, phi_new, 0) followed by gridStep_SplinesUnchanged(f, dt) does not advect along the '
                                      'characteristics of phi_new (max difference to gridStep(f, phi_new, dt) on a fresh operator %.3e)'
                                      % float(np.max(np.abs(np.array(f.getAllData()) - got))))
    elif which == 'qn':
        f.setLayout('v_parallel')
        o['density'].getPerturbedRho(f, rho)
        o['qn'].getModes(rho)
        rho.setLayout('mode_solve')
        phi.setLayout('mode_solve')
        o['qn'].solveEquation(phi, rho)
        phi.setLayout('v_parallel_2d')
        rho.setLayout('v_parallel_2d')
        o['qn'].findPotential(phi)
        return {'f': block(f), 'phi': block(phi), 'rho': block(rho)}
    return {'f': block(f)}


def compare_fields(chk, name, ref, got, case, stats):
    scale = float(np.max(np.abs(ref))) or 1.0
    d = float(np.max(np.abs(ref - got)))
    stats['bit_identical'] += int(np.array_equal(ref, got))
    stats['compared'] += 1
    if not d <= 64 * 2.0 ** -53 * scale * 16:
        idx = np.unravel_index(np.argmax(np.abs(ref - got)), ref.shape)
        chk.fail('C05:' + name, 'global field differs from the serial run by %.3e (max|field| %.3e) at global index %s' % (d, scale, [int(x) for x in idx]), case)
        return False
    return True


def part_operators(chk, stats):
    npts = (6, 8, 8, 9)
    grids = chk.n([(2, 1), (1, 2), (2, 2), (3, 2)], [(2, 1), (1, 2), (2, 2), (3, 2), (3, 1), (1, 3), (2, 3), (2, 4), (6, 1), (3, 3)])
    for which, start, iotas in (('init', 'flux_surface', [0.8]), ('init', 'poloidal', [0.8]), ('init', 'v_parallel', [0.8]),
                                ('init_prof', 'flux_surface', [0.8]), ('init_prof', 'poloidal', [0.8]), ('init_prof', 'v_parallel', [0.8]),
                                ('flux', 'flux_surface', [0.0, 0.8]), ('flux_tuned', 'flux_surface', [0.8]), ('flux_partly_aligned', 'flux_surface', [0.8]), ('vpar', 'v_parallel', [0.8]), ('vpar_shear', 'v_parallel', [0.8]), ('vpar_seq', 'v_parallel', [0.8]), ('pol', 'poloidal', [0.8]), ('pol_seq', 'poloidal', [0.8]), ('pol_two', 'poloidal', [0.8]), ('pol_zero', 'poloidal', [0.8]), ('qn', 'v_parallel', [0.8])):
        for iota in iotas:
            ref = lu.run_ranks(1, op_body, npts, (1, 1), iota, which, start)
            if not ref.ok:
                if 'OperatorsShareState' in str(ref.first_error()):
                    chk.fail('C05:operators-share-state', str(ref.first_error())[:260], {'operator': which, 'npts': npts, 'process_grid': (1, 1)})
                else:
                    chk.fail('C05:serial-run', 'serial %s raised: %s' % (which, str(ref.first_error())[:200]), {'op': which})
                continue
            refG = {k: assemble([v], npts) for k, v in ref.values()[0].items()}
            if 'oracle' in refG:
                # the initial distribution is the closed form of the constants, whatever the starting layout
                orc = refG.pop('oracle')
                d = float(np.max(np.abs(orc - refG['f'])))
                if not d <= 1e-12 * float(np.max(np.abs(orc))):
                    chk.fail('C05:initial-distribution', 'initial distribution (start layout %s) differs from f_eq(r,v)(1+eps*perturbation) of the '
                             'constants by %.3e' % (start, d), {'operator': which, 'start_layout': start, 'npts': npts,
                                                                'overrides': PROFILE_OVERRIDES if which == 'init_prof' else {}})
            # (1, 8): every process owns exactly one z plane in the layouts that distribute z over the second process axis
            for forced in (list(grids) + [(1, 8)] if which in ('qn', 'pol', 'vpar') else grids):
                res = lu.run_ranks(forced[0] * forced[1], op_body, npts, forced, iota, which, start, policy='random', seed=chk.seed)
                case = {'operator': which, 'start_layout': start, 'npts': npts, 'process_grid': forced, 'iota': iota}
                if not res.ok:
                    chk.fail('C05:parallel-run', '%s on %s raised: %s' % (which, forced, str(res.first_error())[:200]), case)
                    continue
                try:
                    for k in refG:
                        G = assemble([v[k] for v in res.values()], npts)
                        compare_fields(chk, 'operator:' + which, refG[k], G, dict(case, field=k), stats)
                except BlocksInconsistent as e:
                    chk.fail('C05:layout-corrupted', 'after %s the layout objects of the grids no longer describe the blocks they hold: %s' % (which, e), case)
                    continue
                chk.case(('op', which, start, forced, iota), nontrivial=True,
                         sample=case if len(chk.samples) < 4 else None)
                chk.count('operator runs: ' + which)


def part_driver(chk, stats):
    import driver_util as du
    import pygyro.initialisation.setups as setups
    work = tempfile.mkdtemp(prefix='pgc05')
    orig = setups.compute_2d_process_grid
    try:
        for iota, npts in chk.n([(0.8, (8, 8, 8, 8))], [(0.8, (8, 8, 8, 8)), (0.0, (8, 8, 8, 9))]):
            cfile = du.write_constants(os.path.join(work, 'c%s.json' % iota), npts=npts, dt=2, iotaVal=iota, eps=0.01)
            ref = None
            for forced in chk.n([(1, 1), (2, 1), (1, 2), (2, 2)], [(1, 1), (2, 1), (1, 2), (2, 2), (4, 1), (1, 4), (4, 2), (2, 4), (3, 2)]):
                setups.compute_2d_process_grid = lambda n, size, forced=forced: tuple(forced)
                folder = 'd_%s_%d_%d' % (iota, forced[0], forced[1])
                st = du.run_driver(forced[0] * forced[1], work, 4, folder, cfile, 5, policy='random', seed=chk.seed)
                case = {'driver': 'fullSimulation.main 2 steps', 'npts': npts, 'iota': iota, 'process_grid': forced}
                if st[0] != 'ok':
                    chk.fail('C05:driver-run', 'driver on %s: %s' % (forced, st[1][:240]), case)
                    continue
                out = {}
                for name in ('grid_000004.h5', 'phi_000004.h5'):
                    a, lay = du.read_dset(os.path.join(work, folder, name))
                    out[name] = np.transpose(a, np.argsort(lay))
                if ref is None:
                    ref = out
                else:
                    for name in out:
                        compare_fields(chk, 'driver', ref[name], out[name], dict(case, file=name), stats)
                chk.case(('driver', npts, iota, forced), nontrivial=forced != (1, 1), sample=case if forced == (2, 2) else None)
                chk.count('driver runs')
    finally:
        setups.compute_2d_process_grid = orig
        shutil.rmtree(work, ignore_errors=True)


def run(chk):
    chk.rule = ('(i) wiring: every kernel call of flux / v-parallel (with and without gradient) / poloidal / density / mode solve on every rank of forced process '
                'grids, recorded as global indices; (ii) initial distribution in the three starting layouts, each operator on random fields, and 2 full driver steps, '
                'on every listed process grid vs the serial run, rotational transform 0 and 0.8, seeded-random arrival order. non-trivial = more than one rank')
    # theorems about the loop REGENERATED from fullSimulation.py: run the translator first
    import subprocess as _sp
    _tr = _sp.run(['/venv/bin/python', str(common.VERIF / 'harness' / 'translate_driver.py'), '--repo', str(common.REPO), '--out', common.generated_dir(chk)], capture_output=True, text=True)
    if _tr.returncode != 0:
        chk.proof_broken.append({'theorem': 'translator (harness/translate_driver.py) refused the source of the time loop', 'log': (_tr.stdout + _tr.stderr)[-800:]})
    # Props/C05Gen.lean is about Generated/InitFuncsGen.lean = pygyro/initialisation/initialiser_funcs.py as the source says it NOW
    common.run_translator(chk, 'translate_pure.py', '--only', 'initfuncs')
    # Props/C05Gen2.lean is about Generated/GridOpsGen.lean = the grid-level loops (gridStep*, getPerturbedRho, solveEquation, initialise_*) as the source
    # says them NOW: generated call lists = Model/Wiring.lean, so the wiring_* theorems hold of the generated loops
    common.run_translator(chk, 'translate_gridops.py')
    chk.proof_side(build=not getattr(chk, 'no_build', False), extra_props=('C15Extra', 'C05Extra', 'C05Gen', 'C05Gen2'))
    stats = {'bit_identical': 0, 'compared': 0}
    drv = common.LeanDriver('C05.lean')
    try:
        part_wiring(chk, drv)
    finally:
        drv.close()
    # the kernel-checked instances of the generated loops (Props/C05Gen2Examples.lean) are what the REAL methods do on a 2 x 2 process grid
    import gridops_examples
    gridops_examples.check(chk)
    part_operators(chk, stats)
    part_driver(chk, stats)
    chk.notes['bit_identity'] = stats
    chk.assumptions = ['kernels are deterministic functions of their arguments (their own correctness is C07-C16)',
                       'process grids are forced by replacing compute_2d_process_grid inside the harness process (the selection itself is C20)']
    return chk.finish()
