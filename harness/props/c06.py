"""C06 — all ranks issue matching collectives; no layout change can deadlock.

proof side    : Props/C06.lean — abstract machine of blocking matched collectives: if the per-rank programs are the projections
                of one global event list then every state has an enabled event, enabled events persist, every schedule terminates
                with all ranks finished (progress / no_deadlock / enabled_persist / schedule_terminates).
hypothesis of the theorem, established per configuration on the REAL code under the simulated MPI:
                (H1) one complete run gives the completion log E; every rank's recorded trace is the projection of E on that rank;
                (H2) the per-rank traces are identical under every other scheduler policy (programs do not depend on arrival order);
                (H3) at every rendezvous operation, root, byte counts, datatype and reduction operator of all members agree
                     (checked by the simulator; a difference is reported as MISMATCH, never copied over).
correspondence: Model/Traces.lean predicts every rank's trace (communicator family, operation, element counts from the padded block
                shapes) for handler / swapper construction and every transpose path: compared exactly.
route choice  : the real `_makeConnectionMap` is run in separate interpreters with different PYTHONHASHSEED; route maps must be identical
                and equal to the model's under several tie-break orders; independent oracle: every route is a shortest path of direct connections.
                Tie by translation: harness/translate_routes.py regenerates Generated/RoutesGen.lean from `_makeConnectionMap` on every run;
                Props/C06Gen.lean proves generated = model (`gen_routes_eq`), hence independent of the set's iteration order (`gen_routes_deterministic`).
"""
import itertools
import json
import os
import subprocess
import sys
import tempfile

import numpy as np

import common
import layout_util as lu
from mpi4py import MPI
from props import c01, c03

LEVEL = 'proof'


def norm_trace(trace, itemsize):
    """simulator trace -> [(family short name, op, send elements, recv elements)] for the operations the model predicts"""
    out = []
    for t in trace:
        fam = MPI.family(t[0])
        short = 'world' if fam == 'W' else ('cart' if fam.endswith('.cart0') and '.sub' not in fam else fam.split('.')[-1])
        op = t[1]
        if op in ('Alltoall', 'Allgather'):
            out.append([short, op, t[3] // itemsize, t[4] // itemsize])
        elif op in ('Create_cart', 'Sub'):
            out.append([short, op, 0, 0])
        else:
            out.append([short, op, -1, -1])
    return out


def projections_ok(res, n):
    """(H1) every rank's trace is the projection of the completion log"""
    E = res.collectives
    for r in range(n):
        proj = [(cid, op) for (cid, op, arr) in E if r in arr]
        mine = [(t[0], t[1]) for t in res.traces[r]]
        if proj != mine:
            return False, r
    return True, None


def run_policies(chk, n, body, case, what, policies=('reverse', 'random', 'roundrobin'), exhaustive_depth=0):
    """runs `body` under the reference policy and the others; checks H1-H3; returns the reference result (or None)"""
    ref = lu.run_ranks(n, body, policy='inorder')
    if not ref.ok:
        sig = 'C06:' + ref.error_kind()
        chk.fail(sig + ':' + what, '%s: %s' % (what, str(ref.first_error())[:240]), case)
        return None
    ok, r = projections_ok(ref, n)
    if not ok:
        chk.diff('trace of rank %d is not the projection of the completion log' % r, case)
    runs = [('policy', p, None) for p in policies]
    if exhaustive_depth and n <= 3:
        runs += [('choices', None, list(c)) for c in itertools.product(range(n), repeat=exhaustive_depth)]
    for kind, pol, choices in runs:
        res = lu.run_ranks(n, body, policy=pol or 'inorder', seed=chk.seed + 17, choices=choices)
        chk.count('schedules run')
        if not res.ok:
            chk.fail('C06:%s:%s' % (res.error_kind(), what), '%s under schedule %s: %s' % (what, pol or choices, str(res.first_error())[:200]),
                     dict(case, schedule=pol or choices))
            return None
        if res.traces != ref.traces:
            bad = [r for r in range(n) if res.traces[r] != ref.traces[r]][0]
            chk.fail('C06:schedule-dependent-program:' + what, 'the sequence of collectives of rank %d depends on the arrival order (%s)' % (bad, pol or choices),
                     dict(case, schedule=pol or choices))
            return None
    return ref


# ----------------------------------------------------------------------------------------------------------------
def part_handlers(chk, drv):
    from pygyro.model.layout import getLayoutHandler
    rng = chk.rng
    # corpus (runs first): over-decomposition on BOTH process axes of the standard layouts.  Before the repair of F15 the rank
    # whose blocks are empty in every layout left `transpose` at once (`_buffer_size == 0`) while the other member of its
    # sub-communicator waited in Alltoall (found by the proof attempt of C06.handler_traces_projection)
    L4 = {'flux_surface': [0, 3, 1, 2], 'v_parallel': [0, 2, 1, 3], 'poloidal': [3, 2, 1, 0]}
    corpus = []
    for ext, nprocs in (([1, 2, 1, 4], [2, 2]), ([3, 2, 3, 8], [4, 4]), ([2, 3, 1, 3], [3, 2])):
        nm = list(L4)
        corpus.append({'nprocs': nprocs, 'ext': ext, 'layouts': L4,
                       'pairs': [(a, b, ub) for a in nm for b in nm if a != b for ub in (False, True)][:8]})
    for it in range(-len(corpus), chk.n(40, 400)):
        if it < 0:
            cfg = corpus[it + len(corpus)]
            chk.count('handler configurations with empty blocks')
        else:
            cfg = c01.gen_config(rng, True, it)
            if rng.random() < 0.4:
                # fewer points than processes along one or several dimensions: some ranks own empty blocks in some or in all
                # layouts, possibly on different process axes
                cfg['ext'] = list(cfg['ext'])
                for _ in range(rng.choice([1, 1, 2, 3])):
                    cfg['ext'][rng.randrange(len(cfg['ext']))] = rng.choice([1, 1, 2])
                chk.count('handler configurations with empty blocks')
        names = list(cfg['layouts'])
        if not lu.connected(cfg['nprocs'], [cfg['layouts'][n] for n in names]):
            continue
        n = int(np.prod(cfg['nprocs']))
        eta = lu.eta_grids(cfg['ext'])
        pairs = [(a, b, ub) for a, b, ub in cfg['pairs']]

        def body():
            comm = MPI.COMM_WORLD
            h = getLayoutHandler(comm, cfg['layouts'], list(cfg['nprocs']), eta)
            B = int(h.bufferSize)
            for (src, dst, ub) in pairs:
                a, b, c = np.zeros(B), np.zeros(B), np.zeros(B)
                h.transpose(a, b, src, dst, c if ub else None)
            return B
        case = {k: cfg[k] for k in ('nprocs', 'ext', 'layouts', 'pairs')}
        ref = run_policies(chk, n, body, case, 'handler construction + transposes', exhaustive_depth=5 if (0 <= it < 3 and n <= 3) else 0)
        if ref is None:
            continue
        m = drv.call({'op': 'handler_trace', 'nprocs': cfg['nprocs'], 'ext': cfg['ext'], 'names': names,
                      'orders': [cfg['layouts'][x] for x in names], 'tie': [names.index(x) for x in set(names)],
                      'pairs': [{'src': a, 'dst': b} for a, b, _ in pairs]})['traces']
        real = [norm_trace(ref.traces[r], 8) for r in range(n)]
        if real != m:
            r = [i for i in range(n) if real[i] != m[i]][0]
            chk.diff('collective trace of rank %d (handler)' % r, case, m[r], real[r])
        ncoll = sum(1 for t in real[0] if t[1] == 'Alltoall')
        chk.case(('handler', tuple(cfg['nprocs']), tuple(cfg['ext']), str(cfg['layouts']), str(pairs)), nontrivial=n > 1 and ncoll > 0,
                 sample={'nprocs': cfg['nprocs'], 'ext': cfg['ext'], 'rank0_trace': real[0][:6]} if len(chk.samples) < 2 else None)
        chk.traces_validated += n
        chk.count('handler configurations')


def part_swappers(chk, drv):
    from pygyro.model.layout import LayoutSwapper
    rng = chk.rng
    for it in range(chk.n(40, 400)):
        cfg = c03.gen(rng, it, True)
        base = c03.model_args(cfg)
        n = cfg['world']
        eta = lu.eta_grids(cfg['ext'])
        names = [x for g in cfg['groups'] for x in g]
        nprocs_arg = [list(x) if len(x) > 1 else x[0] for x in c03.as_lists(cfg['nprocs'])]
        walk = [(cfg['start'], cfg['steps'][0][0])] + [(a[0], b[0]) for a, b in zip(cfg['steps'], cfg['steps'][1:])]

        def body():
            comm = MPI.COMM_WORLD
            try:
                sw = LayoutSwapper(comm, cfg['groups'], nprocs_arg, eta, cfg['start'])
            except (AssertionError, RuntimeError):
                return None
            B = int(sw.bufferSize)
            for (src, dst), (_, ub) in zip(walk, cfg['steps']):
                a, b, c = np.zeros(B), np.zeros(B), np.zeros(B)
                sw.transpose(a, b, src, dst, c if ub else None)
            return B
        case = {k: cfg[k] for k in ('groups', 'nprocs', 'ext', 'start', 'steps')}
        ref = run_policies(chk, n, body, case, 'swapper construction + transposes')
        if ref is None or ref.values()[0] is None:
            chk.count('swapper refused by constructor')
            continue
        m = drv.call(dict(base, op='swapper_trace', pairs=[{'src': a, 'dst': b} for a, b in walk]))['traces']
        real = [norm_trace(ref.traces[r], 8) for r in range(n)]
        if real != m:
            r = [i for i in range(n) if real[i] != m[i]][0]
            chk.diff('collective trace of rank %d (swapper)' % r, case, m[r], real[r])
        ncoll = sum(1 for t in real[0] if t[1] in ('Alltoall', 'Allgather'))
        chk.case(('swapper', str(cfg['nprocs']), tuple(cfg['ext']), str(cfg['groups']), str(walk)), nontrivial=n > 1 and ncoll > 0,
                 sample={'nprocs': cfg['nprocs'], 'ext': cfg['ext'], 'walk': walk, 'rank0_trace': real[0][-4:]} if len(chk.samples) < 4 else None)
        chk.traces_validated += n
        chk.count('swapper configurations')


def part_swapper_plot_rank(chk):
    """a process that is only there for plotting builds its LayoutSwapper over empty grids on its own communicator and issues the same
    transposes as the computing processes: it must take part in nothing and return at once, the others must complete"""
    from pygyro.model.layout import LayoutSwapper
    rng = chk.rng
    names = ['v_parallel_2d', 'mode_solve', 'v_parallel_1d', 'poloidal']
    for it in range(chk.n(4, 20)):
        p0, p1 = rng.choice([(2, 1), (1, 2), (2, 2)])
        n = p0 * p1
        draw = rng.randrange(n + 1)
        ext = [rng.randint(max(p0, p1), 5) for _ in range(3)]
        eta = lu.eta_grids(ext)
        walk = [rng.choice(names) for _ in range(4)]

        def body():
            world = MPI.COMM_WORLD
            plot = world.Get_rank() == draw
            comm = world.Split(1 if plot else 0, world.Get_rank())
            sw = LayoutSwapper(comm, c03.DRIVER_GROUPS, [[p0, p1], p0, p1] if not plot else [[1, 1], 1, 1],
                               eta if not plot else [[], [], []], names[0])
            B = int(sw.bufferSize)
            cur = names[0]
            for dst in walk:
                a, b = np.zeros(B), np.zeros(B)
                sw.transpose(a, b, cur, dst)
                cur = dst
            return B
        case = {'nprocs': [p0, p1], 'ext': ext, 'drawRank': draw, 'walk': walk}
        ref = run_policies(chk, n + 1, body, case, 'swapper with a plot-only process', policies=('reverse', 'random'))
        if ref is None:
            continue
        if ref.values()[draw] != 0:
            chk.fail('C06:plot-rank-buffer', 'the swapper of the plot-only process (empty grids) advertises a non-empty buffer', case, 0, ref.values()[draw])
        chk.case(('swplot', p0, p1, tuple(ext), draw, tuple(walk)), nontrivial=True)
        chk.traces_validated += n + 1
        chk.count('swapper configurations with a plot-only process')


def part_grid_layout_changes(chk):
    """Grid.setLayout / save / restore on real Grid objects (all dtypes, with and without save memory) over a handler and over the
    driver's swapper: the buffers Grid hands to the collectives must agree in count and datatype on all members"""
    from pygyro.model.layout import getLayoutHandler, LayoutSwapper
    from pygyro.model.grid import Grid
    rng = chk.rng
    L4 = {'flux_surface': [0, 3, 1, 2], 'v_parallel': [0, 2, 1, 3], 'poloidal': [3, 2, 1, 0]}
    for it in range(chk.n(8, 60)):
        p0, p1 = rng.choice([(2, 1), (1, 2), (2, 2), (3, 2), (2, 3)])
        dtype = rng.choice([float, np.complex128, np.complex128])
        save = rng.random() < 0.7
        swapper = rng.random() < 0.5
        ext = [rng.randint(max(p0, p1), 6) for _ in range(3 if swapper else 4)]
        names = ['v_parallel_2d', 'mode_solve', 'v_parallel_1d', 'poloidal'] if swapper else list(L4)
        ops = [rng.choice(['set', 'set', 'set', 'save', 'restore']) for _ in range(rng.randint(3, 7))]
        targets = [rng.choice(names) for _ in ops]
        if it % 4 == 2:
            # by position: an over-decomposed first direction (2 points on 3 processes: some process is empty in the layouts that
            # distribute it, not in the others) and saves taken in two different layouts
            p0, p1, swapper, save = 3, rng.choice([1, 2]), False, True
            ext = [2, rng.randint(3, 5), rng.randint(3, 5), rng.randint(3, 5)]
            names = list(L4)
            ops = ['set', 'save', 'restore', 'set', 'save', 'set', 'restore', 'set']
            targets = ['poloidal', '', '', 'v_parallel', '', 'flux_surface', '', rng.choice(names)]
        eta = lu.eta_grids(ext)

        def body():
            comm = MPI.COMM_WORLD
            if swapper:
                mgr = LayoutSwapper(comm, c03.DRIVER_GROUPS, [[p0, p1], p0, p1], eta, names[0])
            else:
                mgr = getLayoutHandler(comm, L4, [p0, p1], eta)
            g = Grid(eta, [None] * len(ext), mgr, names[0], comm, dtype=dtype, allocateSaveMemory=save)
            g._f[:] = 1.0
            # a block for a figure from a grid of this dtype (complex grids send their real part)
            g.getBlockFromDict({0: 0}, comm, 0)
            saved = False
            for op, tgt in zip(ops, targets):
                if op == 'set':
                    g.setLayout(tgt)
                elif op == 'save' and save and not saved:
                    g.saveGridValues()
                    saved = True
                elif op == 'restore' and saved:
                    g.restoreGridValues()
                    saved = False
            return str(g.currentLayout)
        case = {'manager': 'swapper' if swapper else 'handler', 'nprocs': [p0, p1], 'ext': ext, 'dtype': np.dtype(dtype).name,
                'allocateSaveMemory': save, 'ops': list(zip(ops, targets))}
        ref = run_policies(chk, p0 * p1, body, case, 'grid layout changes', policies=('reverse', 'random'))
        if ref is None:
            continue
        chk.case(('gridlc', swapper, p0, p1, tuple(ext), np.dtype(dtype).name, save, tuple(ops), tuple(targets)), nontrivial=p0 * p1 > 1)
        chk.traces_validated += p0 * p1
        chk.count('grid layout-change histories (%s, %s%s)' % ('swapper' if swapper else 'handler', np.dtype(dtype).name, ', save memory' if save else ''))


# ----------------------------------------------------------------------------------------------------------------
def part_grid_reductions(chk):
    """getMin/getMax (all four branches), getBlockFromDict/getBlockForFig, incl. a plot-only rank owning empty blocks"""
    from pygyro.initialisation.setups import setupCylindricalGrid
    from pygyro.model.process_grid import compute_2d_process_grid
    rng = chk.rng
    for it in range(chk.n(6, 40)):
        while True:
            nranks = rng.choice([2, 3, 4, 5])
            plot = rng.random() < 0.6 and nranks >= 2
            if it % 2 == 1:
                nranks = 4 + (1 if plot else 0)         # four computing processes: a 2x2 process grid
            draw = rng.randrange(nranks) if plot else 0
            npts = [rng.choice([4, 5, 6]), 8, rng.choice([4, 6]), rng.choice([6, 7])]
            try:
                compute_2d_process_grid(npts, nranks - (1 if plot else 0))     # admissible process count for this grid size
                break
            except RuntimeError:
                continue
        lay = rng.choice(['flux_surface', 'v_parallel', 'poloidal'])
        fix_axis = rng.randrange(4)
        fix_val = rng.randrange(npts[fix_axis])
        if it % 3 != 2:
            # the LAST point of a dimension that is distributed in the layout the request is made in (v_parallel: r and z): the index
            # that ends the block of the last process along that direction
            fix_axis = (0, 2)[it % 3]
            fix_val = npts[fix_axis] - 1
        two = None
        if it % 2 == 1:
            axes = {'flux_surface': (0, 3), 'v_parallel': (0, 2), 'poloidal': (3, 2)}[lay]
            two = (axes, tuple(rng.randrange(npts[a]) for a in axes))

        def body():
            comm = MPI.COMM_WORLD
            grid, constants, t = setupCylindricalGrid(npts=npts, layout=lay, comm=comm, plotThread=plot, drawRank=draw,
                                                      allocateSaveMemory=True, eps=0.1)
            out = {}
            out['min_all'] = grid.getMin(draw)
            out['max_all'] = grid.getMax(draw)
            out['min_fix'] = grid.getMin(draw, fix_axis, fix_val)
            out['max_fix'] = grid.getMax(draw, fix_axis, fix_val)
            if two is not None:
                # both fixed indices in the two DISTRIBUTED directions of the layout: some processes own neither of them
                out['min_two'] = grid.getMin(draw, list(two[0]), list(two[1]))
                out['max_two'] = grid.getMax(draw, list(two[0])[::-1], list(two[1])[::-1])
            for new in ('poloidal', 'flux_surface', 'v_parallel'):
                grid.setLayout(new)
            blk = grid.getBlockFromDict({fix_axis: fix_val}, comm, draw)
            out['blk'] = None if blk is None else int(blk[3].size)
            # windows: a range of indices, an EMPTY range (both ends of a range slider equal) and a range outside the grid
            w0 = fix_val // 2
            for tag, win in (('window', range(w0, fix_val + 1)), ('empty', range(fix_val, fix_val)),
                             ('outside', range(npts[fix_axis] + 2, npts[fix_axis] + 3))):
                b = grid.getBlockFromDict({fix_axis: win}, comm, draw)
                out['blk_' + tag] = None if b is None else int(b[3].size)
            # the same on a communicator whose rank numbering differs from the grid's own (a Split half, root = its last member)
            half = comm.Split(comm.Get_rank() % 2, comm.Get_rank())
            hroot = half.Get_size() - 1
            hb = grid.getBlockFromDict({fix_axis: fix_val}, half, hroot)
            out['half'] = (half.Get_rank() == hroot, hb is not None)
            full = np.zeros(0)
            if grid.getAllData().size:
                full = np.array(grid.getAllData(), copy=True)
            L = grid.getLayout(grid.currentLayout)
            out['block'] = (tuple(int(x) for x in L.starts), tuple(int(x) for x in L.ends), tuple(L.dims_order), full)
            return out
        case = {'nranks': nranks, 'plotThread': plot, 'drawRank': draw, 'npts': npts, 'layout': lay, 'fix': [fix_axis, fix_val], 'two_fixed': two}
        ref = run_policies(chk, nranks, body, case, 'grid reductions / figure block', policies=('reverse', 'random'))
        if ref is None:
            continue
        # oracle for the values (C17 owns this clause; here only a sanity check that the root got a number and others None)
        vals = ref.values()
        for k in ('min_all', 'max_all', 'min_fix', 'max_fix') + (('min_two', 'max_two') if two is not None else ()):
            if vals[draw][k] is None or any(v[k] is not None for i, v in enumerate(vals) if i != draw):
                chk.fail('C06:reduce-root', 'reduction %s did not deliver its result exactly at the drawing rank' % k, case)
        for i, v in enumerate(vals):
            is_root, got = v['half']
            if is_root != got:
                chk.fail('C06:figure-block-root', 'getBlockFromDict on a sub-communicator: rank %d %s' % (
                    i, 'is the root but got nothing' if is_root else 'is not the root but got a block'), case)
                break
        chk.case(('gridred', nranks, plot, draw, tuple(npts), lay), nontrivial=plot,
                 sample=dict(case, rank0_ops=[t[1] for t in ref.traces[0]][:12]) if it == 0 else None)
        chk.traces_validated += nranks
        chk.count('grid reduction configurations' + (' (plot-only rank)' if plot else ''))


def part_collector_empty_blocks(chk):
    """DiagnosticCollector.collect + reduce on grids that are over-decomposed (a computing process owns no points): every process must reach
    every reduction (finding F23: the local min / max of an empty block raised before the collective)"""
    from pygyro.model.layout import getLayoutHandler
    from pygyro.model.grid import Grid
    from pygyro.diagnostics.diagnostic_collector import DiagnosticCollector
    common.use_repo(h5=True)
    rng = chk.rng
    std4 = {'flux_surface': [0, 3, 1, 2], 'v_parallel': [0, 2, 1, 3], 'poloidal': [3, 2, 1, 0]}
    for it in range(chk.n(4, 16)):
        npts = [rng.randint(3, 5) for _ in range(4)]
        P = [(npts[0] + 1, 1), (1, npts[2] + 1), (2, npts[2] + 1), (npts[0] + 1, 2)][it % 4]       # one more process than points along a direction
        if P[0] * P[1] > 12:
            P = (npts[0] + 1, 1)
        eta = [np.linspace(0.5, 2, npts[0]), np.linspace(0, 2 * np.pi, npts[1], endpoint=False), np.linspace(0, 1, npts[2], endpoint=False),
               np.linspace(-2, 2, npts[3])]
        lay = 'v_parallel'        # the layout the collector is written for

        def body():
            comm = MPI.COMM_WORLD
            h = getLayoutHandler(comm, std4, list(P), eta)
            f = Grid(eta, [None] * 4, h, lay, comm)
            f.getAllData()[:] = 1.0 + comm.Get_rank()
            h3 = getLayoutHandler(comm, {'v_parallel_2d': [0, 2, 1], 'mode_solve': [1, 2, 0]}, list(P), eta[:3])
            phi = Grid(eta[:3], [None] * 3, h3, 'v_parallel_2d', comm, dtype=np.complex128)
            phi.getAllData()[:] = 1.0
            dc = DiagnosticCollector(comm, 2, 1, f, phi)
            dc.collect(f, phi, 0)
            dc.reduce()
            # extrema of a fixed-index slice (what the slice plotters ask for): the fixed axis is the over-decomposed direction, the other
            # distributed direction, or an undistributed one; a process that is empty in ANOTHER direction still takes part
            for ax in range(4):
                f.getMin(0, ax, npts[ax] - 1)
                f.getMax(0, ax, 0)
            # a checkpoint of the over-decomposed grid, written and read back: file creation, dataset creation, attribute creation and
            # close are collective over the grid's communicator, also for the members that have nothing to write
            f.writeH5Dataset(folder, 3)
            f.getAllData()[:] = -1.0
            f.loadFromFile(folder, 3)
            ok = bool((f.getAllData() == 1.0 + comm.Get_rank()).all())
            return (float(dc.min_val[0]), float(dc.max_val[0]), ok) if comm.Get_rank() == 0 else (None, None, ok)
        folder = tempfile.mkdtemp(prefix='pgc06e')
        case = {'npts': npts, 'process_grid': list(P), 'layout': lay, 'what': 'DiagnosticCollector.collect + reduce, slice extrema, checkpoint write / read with an empty block'}
        ref = run_policies(chk, P[0] * P[1], body, case, 'diagnostic collector', policies=('reverse',))
        import shutil
        shutil.rmtree(folder, ignore_errors=True)
        if ref is None:
            continue
        if not all(v[2] for v in ref.values()):
            chk.fail('C06:checkpoint-empty-block', 'a checkpoint written and read back on an over-decomposed grid does not give back the blocks', case)
        chk.case(('collector-empty', tuple(npts), tuple(P), lay), nontrivial=True)
        chk.traces_validated += P[0] * P[1]
        chk.count('diagnostic collector with an empty block')


def part_checkpoint_plot_rank(chk, drv=None):
    """a checkpoint written (and read back) by a run WITH a plot-only process: file creation, dataset creation (same name, shape and type on
    every member), attribute creation and close are collective over the communicator of the grid, which contains the plot-only process
    (finding F30: that process created the dataset with the shape (0,0,0,0))"""
    import shutil
    import h5py
    common.use_repo(h5=True)
    from pygyro.initialisation.setups import setupCylindricalGrid
    from pygyro.model.process_grid import compute_2d_process_grid
    rng = chk.rng
    work = tempfile.mkdtemp(prefix='pgc06p')
    try:
        for it in range(chk.n(4, 16)):
            while True:
                nranks = [3, 4, 5, 3][it % 4]
                draw = [0, nranks - 1, 1, 2][it % 4]
                npts = [rng.choice([4, 5, 6]), 8, rng.choice([4, 6]), rng.choice([6, 7])]
                try:
                    compute_2d_process_grid(npts, nranks - 1)
                    break
                except RuntimeError:
                    continue
            lay = ['v_parallel', 'flux_surface', 'poloidal'][it % 3]
            folder = os.path.join(work, 'run%d' % it)
            os.makedirs(folder)

            def body():
                comm = MPI.COMM_WORLD
                grid, constants, t = setupCylindricalGrid(npts=npts, layout=lay, comm=comm, plotThread=True, drawRank=draw, eps=0.1)
                grid.writeH5Dataset(folder, 5)
                kept = np.array(grid.getAllData(), copy=True)
                grid.getAllData()[:] = -1.0
                grid.loadFromFile(folder, 5)
                return bool(np.array_equal(np.asarray(grid.getAllData()), kept))
            case = {'nranks': nranks, 'drawRank': draw, 'npts': npts, 'layout': lay, 'what': 'checkpoint write / read with a plot-only process'}
            ref = run_policies(chk, nranks, body, case, 'checkpoint with a plot-only process', policies=('reverse', 'random'))
            if ref is None:
                continue
            if not all(ref.values()):
                chk.fail('C06:checkpoint-plot-rank', 'a checkpoint written and read back by a run with a plot-only process does not give back the blocks', case)
            std4 = {'flux_surface': [0, 3, 1, 2], 'v_parallel': [0, 2, 1, 3], 'poloidal': [3, 2, 1, 0]}
            # correspondence: the collectives of parallel HDF5 recorded on every rank during writeH5Dataset vs Model/Traces.lean
            # checkpointTrace (the loadFromFile that follows opens the file once more and closes it)
            if drv is not None:
                mo = drv.call({'op': 'checkpoint_trace', 'nglobal': npts, 'ord': std4[lay], 'file': 'grid_000005.h5'})
                want = [(c['op'], c['name'], tuple(c['shape'])) for c in mo['trace']]
                for rk in range(nranks):
                    rec = [t for t in ref.traces[rk] if str(t[1]).startswith('h5py.')][:len(want)]
                    got = []
                    for t in rec:
                        op_ = t[1][len('h5py.'):]
                        if op_ == 'create_dataset':
                            got.append((op_, t[2][0], tuple(int(x) for x in t[2][1])))
                        elif op_ == 'attrs.create':
                            got.append((op_, t[2], (4,)))
                        else:
                            got.append((op_, t[2], ()))
                    if got != want:
                        chk.diff('collectives of writeH5Dataset on rank %d' % rk, case, want, got)
                        break
            with h5py.File(os.path.join(folder, 'grid_000005.h5'), 'r') as fh:
                shp = tuple(fh['dset'].shape)
            if shp != tuple(npts[d] for d in std4[lay]):
                chk.fail('C06:checkpoint-plot-rank', 'the dataset of a checkpoint written with a plot-only process has the shape %s' % (shp,), case,
                         expected=[npts[d] for d in std4[lay]], actual=list(shp))
            chk.case(('ckpt-plot', nranks, draw, tuple(npts), lay), nontrivial=True)
            chk.traces_validated += nranks
            chk.count('checkpoint with a plot-only process')
    finally:
        shutil.rmtree(work, ignore_errors=True)


def part_setup_restart(chk):
    """set-up, setupSave (bcast iff no folder name), checkpoint write and the restart set-up (setupFromFile), with and without a
    plot-only rank: every member must issue the same collectives on the same communicators"""
    import shutil
    common.use_repo(h5=True)
    from pygyro.initialisation.setups import setupCylindricalGrid, setupFromFile
    from pygyro.utilities.savingTools import setupSave
    from pygyro.model.process_grid import compute_2d_process_grid
    rng = chk.rng
    work = tempfile.mkdtemp(prefix='pgc06s')
    cwd = os.getcwd()
    os.chdir(work)
    try:
        for it in range(chk.n(6, 30)):
            while True:
                nranks = rng.choice([3, 4, 5] if it % 2 == 0 else [2, 3, 4, 5])
                plot = rng.random() < 0.7
                draw = rng.randrange(nranks) if plot else 0
                npts = [rng.choice([4, 5, 6]), 8, rng.choice([4, 6]), rng.choice([6, 7])]
                try:
                    compute_2d_process_grid(npts, nranks - (1 if plot else 0))
                    break
                except RuntimeError:
                    continue
            lay = rng.choice(['flux_surface', 'v_parallel', 'poloidal'])
            # by position, not by draw: every other case lets the root choose and announce the folder name, from a root that is not rank 0
            named = it % 2 == 1
            folder = os.path.join(work, 'run%d' % it) if named else None
            t_save = rng.choice([0, 7, 120])
            nw_ = nranks - (1 if plot else 0)
            # the process that creates / announces the folder
            save_root = (1 + rng.randrange(nw_ - 1)) if (it % 2 == 0 and nw_ > 1) else (rng.randrange(nw_) if rng.random() < 0.6 else 0)

            def body_write():
                # a run without plot-only rank sets up, announces/creates its folder and writes a checkpoint
                comm = MPI.COMM_WORLD
                grid, constants, t = setupCylindricalGrid(npts=npts, layout=lay, comm=comm, allocateSaveMemory=True, eps=0.1)
                f = setupSave(constants, folder, comm, save_root)
                # when the root chooses the name, the broadcast is the synchronisation between the root and the others: a rank that has
                # received the name uses the folder at once.  (With a name given by the caller nothing synchronises the ranks inside
                # setupSave; the next use of the folder is the collective creation of the checkpoint file.)
                if folder is None and not os.path.isdir(f):
                    raise FileNotFoundError('rank %d: setupSave returned the folder %r but it does not exist yet' % (comm.Get_rank(), os.path.basename(f)))
                if folder is None:
                    open(os.path.join(f, 'rank_%d.log' % comm.Get_rank()), 'w').close()
                grid.writeH5Dataset(f, t_save)
                return f

            # variants: the resuming run is one of several on the machine (its communicator is a Split half of the world, one more
            # process stands outside and takes part in nothing); the folder holds the parameter file but no checkpoint yet
            outsider = it % 3 == 1 or (it % 3 == 2 and rng.random() < 0.5)
            no_ckpt = it % 3 == 1 or (it % 3 == 0 and rng.random() < 0.4)

            def body():
                # ... and a later run (possibly with a plot-only rank) resumes from it
                world = MPI.COMM_WORLD
                comm = world
                if outsider:
                    comm = world.Split(0 if world.Get_rank() < nranks else 1, world.Get_rank())
                    if world.Get_rank() >= nranks:
                        return ('outsider', t_exp, True, True)
                f = fname[0]
                kw = {'layout': lay} if no_ckpt else {}
                g2, c2, t2 = setupFromFile(f, comm=comm, plotThread=plot, drawRank=draw, allocateSaveMemory=True, **kw)
                lo = g2.getMin(draw)
                hi = g2.getMax(draw)
                g2.setLayout('v_parallel')
                return (os.path.basename(f), int(t2), lo is not None, hi is not None)
            nw = nranks - (1 if plot else 0)
            fname = [None]
            case = {'nranks': nranks, 'plotThread': plot, 'drawRank': draw, 'npts': npts, 'layout': lay, 'folder_given': named, 'time': t_save,
                    'setupSave_root': save_root}
            for d in os.listdir(work):
                if d.startswith('simulation_'):
                    shutil.rmtree(os.path.join(work, d), ignore_errors=True)
            case_w = dict(case, phase='set-up + setupSave + checkpoint write', nranks=nw)
            refw = run_policies(chk, nw, body_write, case_w, 'set-up / save', policies=('reverse', 'random'))
            if refw is None:
                continue
            if len(set(refw.values())) != 1:
                chk.fail('C06:setup-disagreement', 'ranks disagree on the save folder: %s' % (refw.values(),), case_w)
                continue
            fname[0] = refw.values()[0]
            t_exp = 0 if no_ckpt else t_save
            if no_ckpt:
                for x in os.listdir(fname[0]):
                    if x.startswith('grid_'):
                        os.remove(os.path.join(fname[0], x))
            case.update(outsider_process=outsider, folder_without_checkpoint=no_ckpt)
            ref = run_policies(chk, nranks + (1 if outsider else 0), body, case, 'restart set-up', policies=('reverse', 'random'))
            for d in os.listdir(work):
                shutil.rmtree(os.path.join(work, d), ignore_errors=True)
            if ref is None:
                continue
            vals = [v for v in ref.values() if v[0] != 'outsider']
            if len({v[0] for v in vals}) != 1 or any(v[1] != t_exp for v in vals):
                chk.fail('C06:setup-disagreement', 'ranks disagree on the save folder or the restart time: %s' % (vals,), case)
            chk.case(('setup', nranks, plot, draw, tuple(npts), lay, named), nontrivial=plot,
                     sample=dict(case, rank0_ops=[t[1] for t in ref.traces[0]][:14]) if it == 0 else None)
            chk.traces_validated += nranks
            chk.count('set-up/restart configurations' + (' (plot-only rank)' if plot else ''))
    finally:
        os.chdir(cwd)
        shutil.rmtree(work, ignore_errors=True)


def part_driver(chk):
    """the real driver (setup, setupSave bcast, DiagnosticCollector.reduce, allreduce, checkpoint writes) for one step"""
    import driver_util as du
    import shutil
    work = tempfile.mkdtemp(prefix='pgc06')
    try:
        cfile = du.write_constants(os.path.join(work, 'c.json'), npts=(8, 8, 8, 8), dt=2)
        ref_traces = None
        for k, (nranks, pol) in enumerate(chk.n([(2, 'inorder'), (2, 'reverse')], [(2, 'inorder'), (2, 'reverse'), (2, 'random'), (4, 'inorder'), (4, 'random'), (3, 'inorder'), (3, 'reverse')])):
            st = du.run_driver(nranks, work, 2, 'run%d' % k, cfile, 1, policy=pol, seed=chk.seed)
            case = {'driver': 'fullSimulation.main', 'nranks': nranks, 'policy': pol, 'tEnd': 2, 'saveStep': 1}
            if st[0] != 'ok':
                res = st[2]
                chk.fail('C06:%s:driver' % res.error_kind(), 'driver run: ' + st[1][:240], case)
                continue
            res = st[1]
            ok, r = projections_ok(res, nranks)
            if not ok:
                chk.diff('driver: trace of rank %d is not the projection of the completion log' % r, case)
            ops = [[(MPI.family(t[0]), t[1]) for t in res.traces[r]] for r in range(nranks)]
            key = nranks
            if ref_traces is None or ref_traces[0] != key:
                ref_traces = (key, ops)
            elif ops != ref_traces[1]:
                chk.fail('C06:schedule-dependent-program:driver', 'the driver\'s sequence of collectives depends on the arrival order', case)
            chk.case(('driver', nranks, pol), nontrivial=True,
                     sample={'driver_collectives_rank0': len(ops[0]), 'ops': sorted({o for _, o in ops[0]})} if k == 0 else None)
            chk.traces_validated += nranks
            chk.count('driver runs')
    finally:
        shutil.rmtree(work, ignore_errors=True)


# ----------------------------------------------------------------------------------------------------------------
ROUTE_SCRIPT = r'''
import sys, json
sys.path[0:0] = %r
from pygyro.model.layout import LayoutManager
class D(LayoutManager):
    pass
graphs = json.load(open(sys.argv[1]))
out = []
for g in graphs:
    d = D()
    conn = {k: list(v) for k, v in g}
    full = d._makeConnectionMap(conn)
    names = [k for k, _ in g]
    out.append({'full': bool(full), 'routes': [[None if a == b else list(d._route_map[a][b]) for b in names] for a in names] if len(names) > 1 else None})
print(json.dumps(out))
'''


COLLECTOR_SCRIPT = r'''
import sys, json
sys.path[0:0] = %r
import numpy as np
from mpi4py import MPI
from pygyro.model.layout import getLayoutHandler
from pygyro.model.grid import Grid
from pygyro.diagnostics.diagnostic_collector import DiagnosticCollector

class Rec:
    # the communicator of the collector, recording WHICH row of the table goes into the k-th reduction
    def __init__(self, c):
        self._c, self.log = c, []
    def __getattr__(self, n):
        return getattr(self._c, n)
    def Reduce(self, sendbuf, recvbuf, op=None, root=0):
        self.log.append([float(np.ravel(np.asarray(sendbuf))[0]), repr(op), int(root)])
        return self._c.Reduce(sendbuf, recvbuf, op=op, root=root)

def body():
    comm = MPI.COMM_WORLD
    npts = [4, 5, 4, 6]
    eta = [np.linspace(0.5, 2, npts[0]), np.linspace(0, 2 * np.pi, npts[1], endpoint=False), np.linspace(0, 1, npts[2], endpoint=False), np.linspace(-2, 2, npts[3])]
    h = getLayoutHandler(comm, {'flux_surface': [0, 3, 1, 2], 'v_parallel': [0, 2, 1, 3], 'poloidal': [3, 2, 1, 0]}, [1, 1], eta)
    f = Grid(eta, [None] * 4, h, 'v_parallel', comm)
    h3 = getLayoutHandler(comm, {'v_parallel_2d': [0, 2, 1], 'mode_solve': [1, 2, 0]}, [1, 1], eta[:3])
    phi = Grid(eta[:3], [None] * 3, h3, 'v_parallel_2d', comm, dtype=np.complex128)
    rec = Rec(comm)
    dc = DiagnosticCollector(rec, 2, 1, f, phi)
    for k in range(dc.diagnostics.shape[0]):
        dc.diagnostics[k, :] = 100.0 + k          # row k is recognisable by its values
    dc.reduce()
    return rec.log
print(json.dumps(MPI.run(1, body).values()[0]))
'''


def part_collector_hash_seeds(chk):
    # every real rank is an interpreter of its own with its own string-hash seed: the k-th reduction of DiagnosticCollector.reduce must
    # carry the same quantity on every rank, i.e. the sequence (row of the table, operation, root) may not depend on the seed
    seeds = list(range(chk.n(6, 24)))
    with tempfile.TemporaryDirectory(prefix='pgc06h') as d:
        script = os.path.join(d, 'collector.py')
        open(script, 'w').write(COLLECTOR_SCRIPT % ([str(common.SIMMPI), str(common.REPO)],))
        procs = []
        for hs in seeds:
            env = dict(os.environ, PYTHONHASHSEED=str(hs), PYTHONDONTWRITEBYTECODE='1')
            procs.append((hs, subprocess.Popen([sys.executable, script], stdout=subprocess.PIPE, stderr=subprocess.PIPE, env=env, text=True)))
        logs = {}
        for hs, pr in procs:
            o, e = pr.communicate()
            if pr.returncode != 0:
                chk.fail('C06:collector-crash', 'DiagnosticCollector on one process raised: ' + e[-300:], {'PYTHONHASHSEED': hs})
                return
            logs[hs] = json.loads(o.strip().splitlines()[-1])
    ref = logs[seeds[0]]
    for hs in seeds[1:]:
        if logs[hs] != ref:
            chk.fail('C06:reduction-order-depends-on-hash-seed', 'the sequence of reductions of DiagnosticCollector.reduce (which row of the table, which '
                     'operation) differs between interpreters with PYTHONHASHSEED=%d and %d: ranks would add up different quantities' % (seeds[0], hs),
                     {'what': 'DiagnosticCollector.reduce'}, ref, logs[hs])
            break
    chk.case(('collector-hash-seeds', len(seeds)), nontrivial=True)
    chk.count('collector reductions under different hash seeds', len(seeds))


def rand_graph(rng):
    n = rng.randint(2, 7)
    alphabet = 'abcdefghijklmnopqrstuvwxyz_0123456789'
    names = []
    while len(names) < n:
        s = ''.join(rng.choice(alphabet) for _ in range(rng.randint(1, 8)))
        if s not in names and not s[0].isdigit():
            names.append(s)
    conn = [[] for _ in range(n)]
    # the constructors append in the order: for n' in range(n): for i in range(n'): if compatible(n', i)
    p = rng.choice([0.3, 0.5, 0.8])
    for a in range(n):
        for i in range(a):
            if rng.random() < p or (i == a - 1 and rng.random() < 0.7):
                conn[i].append(a)
                conn[a].append(i)
    return names, conn


def bfs_dist(conn, s):
    dist = {s: 0}
    todo = [s]
    while todo:
        a = todo.pop(0)
        for b in conn[a]:
            if b not in dist:
                dist[b] = dist[a] + 1
                todo.append(b)
    return dist


def part_routes(chk, drv):
    rng = chk.rng
    graphs = [rand_graph(rng) for _ in range(chk.n(120, 1500))]
    payload = [[[names[a], [names[b] for b in conn[a]]] for a in range(len(names))] for names, conn in graphs]
    seeds = list(range(chk.n(6, 48)))
    with tempfile.TemporaryDirectory(prefix='pgc06r') as d:
        fn = os.path.join(d, 'graphs.json')
        json.dump(payload, open(fn, 'w'))
        script = os.path.join(d, 'routes.py')
        open(script, 'w').write(ROUTE_SCRIPT % ([str(common.SIMMPI), str(common.REPO)],))
        procs = []
        for hs in seeds:
            env = dict(os.environ, PYTHONHASHSEED=str(hs), PYTHONDONTWRITEBYTECODE='1')
            procs.append((hs, subprocess.Popen([sys.executable, script, fn], stdout=subprocess.PIPE, stderr=subprocess.PIPE, env=env, text=True)))
        results = {}
        for hs, p in procs:
            o, e = p.communicate()
            if p.returncode != 0:
                raise RuntimeError('route subprocess failed: ' + e[-500:])
            results[hs] = json.loads(o)
    ref = results[seeds[0]]
    for gi, (names, conn) in enumerate(graphs):
        case = {'names': names, 'connections': [[names[b] for b in conn[a]] for a in range(len(names))]}
        for hs in seeds[1:]:
            if results[hs][gi] != ref[gi]:
                chk.fail('C06:route-depends-on-hash-seed', 'route map differs between interpreters with PYTHONHASHSEED=%d and %d' % (seeds[0], hs), case,
                         ref[gi], results[hs][gi])
                break
        # oracle: routes are shortest paths of direct connections
        r = ref[gi]
        n = len(names)
        reach = all(len(bfs_dist(conn, a)) == n for a in range(n))
        if r['full'] != reach:
            chk.fail('C06:connectedness', 'connectedness flag wrong', case)
        if r['routes'] is not None:
            for a in range(n):
                dist = bfs_dist(conn, a)
                for b in range(n):
                    if a == b:
                        continue
                    route = r['routes'][a][b]
                    if b not in dist:
                        if route:
                            chk.fail('C06:route-invalid', 'non-empty route to an unreachable layout', case)
                        continue
                    path = [a] + [names.index(x) for x in route]
                    good = path[-1] == b and len(route) == dist[b] and all(path[i + 1] in conn[path[i]] for i in range(len(path) - 1))
                    if not good:
                        chk.fail('C06:route-invalid', 'stored route %s -> %s is not a shortest path of direct connections: %s' % (names[a], names[b], route), case)
        # model under several tie-break orders
        idx = list(range(n))
        ties = [idx, idx[::-1], rng.sample(idx, n), rng.sample(idx, n)]
        maps = drv.call({'op': 'routes', 'names': names, 'conn': conn, 'ties': ties})['maps']
        if n > 1:
            if any(m != maps[0] for m in maps[1:]):
                chk.diff('model route map depends on the tie-break order', case, maps)
            if maps[0] != r['routes']:
                chk.diff('route map', case, maps[0], r['routes'])
        chk.case(('graph', tuple(names), str(conn)), nontrivial=n >= 4 and reach,
                 sample={'names': names, 'routes_from_first': r['routes'][0] if r['routes'] else None} if gi == 0 else None)
    chk.count('connection graphs', len(graphs))
    chk.count('interpreter hash seeds', len(seeds))


def run(chk):
    chk.rule = ('(a) handler and swapper configurations as in C01/C03 (construction + several transposes) run under 4 scheduler policies (+ all choice '
                'sequences of depth 5 on <=3 ranks for the first configurations): H1-H3 and exact model traces; (b) grid reductions and figure blocks incl. a '
                'plot-only rank; (c) the real driver for one step on 2-4 ranks under different policies; (d) random connection graphs (2-7 layouts, random names) '
                'in interpreters with different string-hash seeds. non-trivial = more than one rank and at least one data-moving collective / graphs with >=4 connected layouts')
    # `_makeConnectionMap` is regenerated from the source (harness/translate_routes.py -> Generated/RoutesGen.lean); Props/C06Gen.lean ties
    # the generated function to the model `Handler.routeMap` of C06Extra for every iteration order of the set of unvisited names
    common.run_translator(chk, 'translate_routes.py')
    chk.proof_side(build=not getattr(chk, 'no_build', False), extra_props=('C06Extra', 'C06Traces', 'C06SwapperTraces', 'C06Gen'))
    drv = common.LeanDriver('C06.lean')
    try:
        part_handlers(chk, drv)
        part_swappers(chk, drv)
        part_routes(chk, drv)
    finally:
        drv.close()
    part_grid_reductions(chk)
    part_collector_empty_blocks(chk)
    part_collector_hash_seeds(chk)
    part_grid_layout_changes(chk)
    part_swapper_plot_rank(chk)
    drv2 = common.LeanDriver('C06.lean')
    try:
        part_checkpoint_plot_rank(chk, drv2)
    finally:
        drv2.close()
    part_setup_restart(chk)
    part_driver(chk)
    chk.assumptions = ['real MPI implements blocking collectives matched per communicator in program order (the abstract machine of Model/Collectives.lean); '
                       'the simulated MPI implements that machine',
                       'the operations parallel HDF5 defines as collective (file open, dataset creation with its arguments, attribute creation, close) are named rendezvous points of the h5py stand-in']
    return chk.finish()
