"""C11 — V-parallel advection evaluates the interpolant at v - c*dt; boundary rule holds.

proof side     : Props/C11.lean (vpar_step_formula, vpar_boundary_rule, vpar_wrap_terminates, vpar_zero_shift_identity,
                 vpar_linear_inside) over Model/VParAdv.lean.
                 Props/C11Gen.lean (tie by translation: Generated/VParGen.lean = `general_v_parallel_advection_eval_step` regenerated
                 from the source on every run, `f_eq` / `eval_spline_1d_scalar` uninterpreted; gen_vpar_eq: generated = model
                 `evalNode` on f[0..n) in the three modes, nothing else written; gen_vpar_periodic_total / _terminates: fuel and
                 termination of the two `while` loops for vMin < vMax; gen_vpar_fEq_null, gen_vpar_other_bound).
correspondence : real `VParallelAdvection.step(f, dt, c, r)` of /repo vs. the model at Q (Drivers/C11.lean).  The model
                 receives the coefficients the real interpolator produced for the same data (contract) and evaluates them
                 exactly; `f_eq` values are tags, compared with the real `f_eq` at the model's arguments.
oracle         : (no model) scipy.interpolate.BSpline on the knot vector the path really uses, evaluated at v - c*dt
                 (resp. the periodic image computed with fractions), real f_eq, literal 0; zero shift = data.
grid level     : the wiring clause belongs to C05; a small re-check on real Grid objects (z distributed over the simulated
                 ranks) is included here.
"""
import math
from fractions import Fraction as Fr

import numpy as np

import common

common.use_repo()

LEVEL = 'proof'
EPS = Fr(1, 2 ** 53)
MARGIN = Fr(1, 2 ** 40)
FUEL = 4000


# ------------------------------------------------------------------------------------------------
# spline spaces

def make_space(rng, kind, ncells, lo, hi):
    """kind: 'cu' (uniform cubic -> closed-form kernels), 'gu<p>' (general kernels, uniform breaks, degree p),
    'gn<p>' (general kernels, non-uniform breaks)"""
    from pygyro.splines.splines import make_knots, BSplines
    if kind == 'cu':
        deg, uniform = 3, True
    else:
        deg, uniform = int(kind[2:]), False
    if kind.startswith('gn'):
        w = (hi - lo) / ncells
        inner = sorted(lo + w * (k + rng.uniform(-0.3, 0.3)) for k in range(1, ncells))
        breaks = np.array([lo] + inner + [hi])
    else:
        breaks = np.linspace(lo, hi, ncells + 1)
    return BSplines(make_knots(breaks, deg, False), deg, False, uniform)


def space_json(b):
    if b.cubic_uniform:
        k = b.knots
        return {'degree': 3, 'cu': True, 'xmin': common.rat(k[0]), 'dx': common.rat(k[2]), 'ncells': int(k[3])}
    return {'degree': int(b.degree), 'knots': common.rats(b.knots)}


def used_knots(b):
    """the knot vector on which the path evaluates (cubic-uniform kernels: equidistant, 3 cells beyond each end)"""
    if b.cubic_uniform:
        xmin, _, dx, nc = b.knots
        return xmin + dx * np.arange(-3, int(nc) + 4), 3
    return np.array(b.knots, dtype=float), int(b.degree)


def min_cell(b):
    if b.cubic_uniform:
        return float(b.knots[2])
    return float(np.min(np.diff(b.breaks)))


def feq_real(C, r, v):
    from pygyro.initialisation.initialiser_funcs import f_eq
    return float(f_eq(float(r), float(v), C.CN0, C.kN0, C.deltaRN0, C.rp, C.CTi, C.kTi, C.deltaRTi))


def feq_tol(C, r, v, ref):
    from pygyro.initialisation.initialiser_funcs import Ti
    ti = float(Ti(float(r), C.CTi, C.kTi, C.deltaRTi, C.rp))
    # d/dv f_eq = -v/Ti f_eq; the argument v carries one rounding of the code's subtraction
    return Fr(64) * EPS * Fr(abs(ref)) * (Fr(4) + Fr(float(v)) ** 2 / Fr(ti)) + Fr(5e-324) * 4


# ------------------------------------------------------------------------------------------------
# exact re-statement of the branch quantities (fractions; used for threshold margins and by the oracle)

def image_exact(foot, vmin, vmax):
    """periodic image as the two loops define it, the number of wraps and the smallest distance of an iterate to the
    threshold it is compared with"""
    d = vmax - vmin
    v, k, m = foot, 0, None

    def upd(m, x):
        return x if m is None or x < m else m
    while True:
        m = upd(m, abs(v - vmin))
        if v < vmin:
            v += d
            k += 1
        else:
            break
    while True:
        m = upd(m, abs(v - vmax))
        if v > vmax:
            v -= d
            k += 1
        else:
            break
    return v, k, m


def float_image(v, vmin, vmax):
    """the same two loops in doubles (only to certify that an on-threshold case is reproduced exactly by doubles)"""
    d = vmax - vmin
    while v < vmin:
        v += d
    while v > vmax:
        v -= d
    return v


def gen_shift(rng, pts, mode):
    """(c, dt, family)"""
    n = len(pts)
    width = pts[-1] - pts[0]
    cell = width / max(1, n - 1)
    fam = rng.choice(['exact', 'exact', 'zero', 'small', 'cells', 'wide', 'wide'])
    if fam == 'zero':
        return (0.0, rng.uniform(-2, 2), fam) if rng.random() < 0.5 else (rng.uniform(-5, 5), 0.0, fam)
    if fam == 'exact':
        for _ in range(40):
            i = rng.randrange(n)
            kind = rng.choice(['vmax', 'vmin', 'node', 'vmax+w', 'vmin-w', 'ulp+', 'ulp-', 'vmax+2w', 'vmin-3w'])
            c = rng.choice([1.0, -1.0, 2.0, 0.5, -0.25])
            if kind == 'ulp+':
                i, target = n - 1, float(np.nextafter(pts[-1], np.inf))
            elif kind == 'ulp-':
                i, target = 0, float(np.nextafter(pts[0], -np.inf))
            else:
                target = {'vmax': pts[-1], 'vmin': pts[0], 'node': pts[rng.randrange(n)], 'vmax+w': pts[-1] + width,
                          'vmin-w': pts[0] - width, 'vmax+2w': pts[-1] + 2 * width, 'vmin-3w': pts[0] - 3 * width}[kind]
            dt = (pts[i] - target) / c
            if Fr(float(pts[i])) - Fr(c) * Fr(dt) == Fr(float(target)) and float(pts[i] - c * dt) == float(target):
                return c, float(dt), 'exact:' + kind
        fam = 'cells'
    sign = rng.choice([-1.0, 1.0])
    if fam == 'small':
        mag = rng.uniform(0.01, 0.9) * cell
    elif fam == 'cells':
        mag = rng.uniform(1, max(2, n // 2)) * cell
    else:
        mag = rng.uniform(1.0, 6.0) * width
    c = sign * rng.uniform(0.2, 30.0)
    return c, float(mag / abs(c)), fam


# ------------------------------------------------------------------------------------------------

def kernel_cases(chk, drv, C):
    from pygyro.splines.splines import Spline1D
    from pygyro.splines.spline_interpolators import SplineInterpolator1D
    from pygyro.advection.advection import VParallelAdvection
    from scipy.interpolate import BSpline
    rng = chk.rng
    kinds = ['cu', 'cu', 'cu', 'gu1', 'gu2', 'gu3', 'gu4', 'gu5', 'gn1', 'gn2', 'gn3', 'gn4', 'gn5']
    modes = ['fEq', 'null', 'periodic']
    worst = 0.0
    excluded = 0
    prof_names = ('CTi', 'kTi', 'deltaRTi', 'CTe', 'kTe', 'deltaRTe', 'kN0', 'deltaRN0')
    prof_default = {k: getattr(C, k) for k in prof_names}
    for it in range(chk.n(420, 6000)):
        kind = kinds[it % len(kinds)] if it < 3 * len(kinds) * 3 else rng.choice(kinds)
        mode = modes[(it // len(kinds)) % 3] if it < 3 * len(kinds) * 3 else rng.choice(modes)
        edge = modes.index(mode)
        deg = 3 if kind == 'cu' else int(kind[2:])
        ncells = rng.choice([1, 2, 3]) if rng.random() < 0.1 else rng.randint(4, 14)
        if kind == 'cu':
            ncells = max(ncells, 3)   # (uniform cubic with < 3 cells: interpolation points coincide, see C08/C09 findings)
        dom = rng.choice(['dyadic', 'dyadic', 'default', 'random'])
        if dom == 'dyadic':
            lo, hi = rng.choice([(-4.0, 4.0), (-8.0, 8.0), (0.0, 2.0), (-1.0, 3.0)])
            if rng.random() < 0.5:
                ncells = rng.choice([4, 8, 16]) if kind != 'cu' else rng.choice([4, 8, 16])
        elif dom == 'default':
            lo, hi = float(C.vMin), float(C.vMax)
        else:
            lo = rng.uniform(-9, 1)
            hi = lo + rng.uniform(1, 12)
        basis = make_space(rng, kind, ncells, lo, hi)
        pts = np.array(basis.greville, dtype=float)
        n = len(pts)
        r = rng.choice([float(C.rMin), float(C.rMax), float(C.rp), rng.uniform(float(C.rMin), float(C.rMax))])
        dk = rng.choice(['random', 'random', 'feq', 'scaled', 'const'])
        if dk == 'random':
            f0 = np.array([rng.uniform(-1, 1) for _ in range(n)])
        elif dk == 'feq':
            f0 = np.array([feq_real(C, r, v) * (1 + 0.1 * rng.uniform(-1, 1)) for v in pts])
        elif dk == 'scaled':
            f0 = np.array([rng.uniform(-1, 1) for _ in range(n)]) * 2.0 ** rng.randint(-30, 30)
        else:
            f0 = np.full(n, rng.uniform(-3, 3))
        c, dt, fam = gen_shift(rng, pts, mode)
        if it % 11 == 4:
            # feet that leave the domain by very little (far above rounding, far below a cell): the boundary rule has no tolerance
            c = [1.0, -1.0, 0.5, -2.0][(it // 11) % 4]
            dt = [1e-6, 2e-5, 1e-9, 3e-7, 6e-5][(it // 44) % 5] / abs(c)
            fam = 'tiny'
        case = {'kind': kind, 'ncells': ncells, 'lo': lo, 'hi': hi, 'mode': mode, 'r': r, 'c': c, 'dt': dt,
                'family': fam, 'f': [float(x) for x in f0], 'nonuniform_breaks': [float(x) for x in basis.breaks]}
        # --- the real code
        # every second case with profile constants away from their defaults (the electron and ion temperature profiles coincide by
        # default); the boundary value of the property is the ION equilibrium (feq_real reads the same Constants object)
        prof = dict(prof_default)
        if it % 2 == 1:
            prof = {'CTi': rng.uniform(0.6, 1.4), 'kTi': rng.uniform(0.05, 0.4), 'deltaRTi': rng.uniform(0.8, 3.0),
                    'CTe': rng.uniform(0.6, 1.4), 'kTe': rng.uniform(0.05, 0.4), 'deltaRTe': rng.uniform(0.8, 3.0),
                    'kN0': rng.uniform(0.02, 0.1), 'deltaRN0': rng.uniform(1.5, 4.0)}
            case['profile_constants'] = prof
        # every fourth case the constants object gets its profile only AFTER the operators were built (a scan that re-uses its operators):
        # the boundary value is the equilibrium of the constants at the time of the step
        late = it % 4 == 3
        case['constants_set_after_construction'] = late
        for k_, v_ in (prof_default if late else prof).items():
            setattr(C, k_, v_)
        # another operator on the same space with another boundary mode is built (and used once) first in the same process
        decoy = VParallelAdvection([None, None, None, pts], basis, C, modes[(edge + 1) % 3])
        decoy.step(f0.copy(), 0.5 * dt + 0.1, -c, r)
        adv = VParallelAdvection([None, None, None, pts], basis, C, mode)
        if late:
            for k_, v_ in prof.items():
                setattr(C, k_, v_)
        # the line is handed over as a strided view every third time (a line of a 4-D array in another memory order)
        big = np.full(2 * n, 3.5)
        f = big[::2] if it % 3 == 0 else f0.copy()
        f[:] = f0
        try:
            adv.step(f, dt, c, r)
            if it % 3 == 0 and not (big[1::2] == 3.5).all():
                chk.fail('C11:memory-layout', 'step on a strided line touched the memory between its entries', case)
        except Exception as e:  # noqa: BLE001
            chk.fail('C11:step-raises', 'VParallelAdvection.step raised %s: %s' % (type(e).__name__, str(e)[:120]), case)
            continue
        # --- contract: coefficients of the interpolant of the old data, from the real interpolator (public API)
        sp = Spline1D(basis)
        SplineInterpolator1D(basis).compute_interpolant(f0.copy(), sp)
        coeffs = np.array(sp.coeffs, dtype=float)
        cmax = Fr(float(np.max(np.abs(coeffs)))) if n else Fr(0)
        slope = Fr(2 * deg) * cmax / Fr(min_cell(basis))
        kk, kdeg = used_knots(basis)
        ref_spl = BSpline(kk, coeffs, kdeg, extrapolate=True)
        vmin, vmax = Fr(float(pts[0])), Fr(float(pts[-1]))
        width = vmax - vmin
        cdt = Fr(c) * Fr(dt)
        out = drv.call({'op': 'vpar', 'spline': space_json(basis), 'coeffs': common.rats(coeffs),
                        'pts': common.rats(pts), 'dt': common.rat(dt), 'c': common.rat(c), 'r': common.rat(r),
                        'edge': edge, 'fuel': FUEL})
        if 'error' in out:
            raise RuntimeError('driver: ' + out['error'])
        branches = set()
        for i, nd in enumerate(out['nodes']):
            foot = Fr(float(pts[i])) - cdt
            foot_f = float(pts[i] - c * dt)                       # the double the code forms
            certified = Fr(foot_f) == foot
            if Fr(nd['foot']) != foot:
                chk.diff('foot', dict(case, node=i), nd['foot'], str(foot))
                continue
            nc = dict(case, node=i, foot=float(foot))
            if mode == 'periodic':
                img, wraps, m = image_exact(foot, vmin, vmax)
                certified = certified and Fr(float_image(foot_f, float(pts[0]), float(pts[-1]))) == img
                inside = True
            else:
                img, wraps = foot, 0
                m = min(abs(foot - vmin), abs(foot - vmax))
                inside = vmin <= foot <= vmax
            if (m == 0 and not certified) or (0 < m < MARGIN * width):
                excluded += 1
                chk.count('excluded: foot/iterate within 2^-40 of a threshold')
                continue
            if m == 0:
                chk.count('on-threshold node compared (doubles certified exact)')
            posscale = Fr(wraps + 2) * (abs(Fr(float(pts[i]))) + abs(cdt) + abs(vmin) + abs(vmax))
            got = Fr(float(f[i]))
            # ------------- oracle (no model)
            if inside:
                branches.add('inside' if wraps == 0 else 'periodic-wrap')
                exp = Fr(float(ref_spl(float(img))))
                tol = Fr(64) * EPS * (Fr(deg + 1) * cmax + slope * posscale)
                if abs(got - exp) > tol:
                    sig = 'C11:inside-value' if wraps == 0 else 'C11:periodic-image'
                    chk.fail(sig, 'node value is not the interpolant of the old data at %s' %
                             ('v - c*dt' if wraps == 0 else 'the periodic image of v - c*dt'), nc,
                             expected=float(exp), actual=float(got))
                if cdt == 0 and abs(got - Fr(float(f0[i]))) > Fr(256) * EPS * Fr(n) * cmax:
                    chk.fail('C11:zero-shift', 'c*dt = 0 does not reproduce the data', nc, float(f0[i]), float(got))
            elif mode == 'fEq':
                branches.add('fEq-fill')
                exp_f = feq_real(C, r, foot_f)
                if abs(got - Fr(exp_f)) > feq_tol(C, r, foot_f, exp_f):
                    chk.fail('C11:fEq-fill', 'foot outside [vMin,vMax]: value is not f_eq(r, v - c*dt)', nc, exp_f, float(got))
            else:
                branches.add('null-fill')
                if got != 0:
                    chk.fail('C11:null-fill', 'foot outside [vMin,vMax]: value is not 0', nc, 0.0, float(got))
            # ------------- correspondence with the model
            if nd['tag'] == 'none':
                chk.diff('model out of fuel', nc, None, float(got))
            elif nd['tag'] == 'num':
                if not nd.get('spanok', True):
                    chk.diff('model span search failed', nc)
                    continue
                if mode == 'periodic' and Fr(nd['at']) != img:
                    chk.diff('periodic image', nc, nd['at'], str(img))
                mv = Fr(nd['val'])
                a0 = Fr(nd['abs0']) if 'abs0' in nd else Fr(0)
                tol = Fr(64) * EPS * (a0 + slope * posscale)
                d = abs(got - mv)
                if d > tol:
                    chk.diff('value', nc, float(mv), float(got))
                elif tol > 0:
                    worst = max(worst, float(d / tol))
                if inside is False and mode == 'null' and mv != 0:
                    chk.diff('null fill', nc, float(mv), float(got))
            else:  # feq tag
                ref = feq_real(C, Fr(nd['r']), Fr(nd['v']))
                if mode != 'fEq' or Fr(nd['r']) != Fr(r) or abs(got - Fr(ref)) > feq_tol(C, r, foot_f, ref):
                    chk.diff('fEq tag', nc, {'r': nd['r'], 'v': nd['v'], 'f_eq': ref}, float(got))
        for b in branches:
            chk.count('branch ' + b)
        chk.count('family ' + fam.split(':')[0])
        chk.count('path ' + ('cubic-uniform' if kind == 'cu' else 'general deg=%d %s' % (deg, 'non-uniform' if kind.startswith('gn') else 'uniform')))
        nontrivial = (cdt != 0) and len(branches) > 0
        chk.case(('vpar', kind, ncells, mode, fam, round(float(cdt), 12), dom), nontrivial=nontrivial,
                 sample={'kind': kind, 'ncells': ncells, 'mode': mode, 'c*dt': float(cdt), 'family': fam,
                         'branches': sorted(branches), 'f_new[:3]': [float(x) for x in f[:3]]} if it < 3 else None)
    for k_, v_ in prof_default.items():
        setattr(C, k_, v_)
    chk.notes['excluded_near_threshold_nodes'] = excluded
    chk.notes['worst_model_difference_over_tolerance'] = round(worst, 4)


def linearity(chk, C):
    """test: the step is linear in the data where every foot is inside (vpar_linear_inside; the interpolation contract
    makes the coefficients linear in the data) — measured on the real code"""
    from pygyro.advection.advection import VParallelAdvection
    rng = chk.rng
    for it in range(chk.n(20, 200)):
        kind = rng.choice(['cu', 'gu2', 'gn3', 'gn5'])
        basis = make_space(rng, kind, rng.randint(4, 10), -4.0, 4.0)
        pts = np.array(basis.greville, dtype=float)
        n = len(pts)
        adv = VParallelAdvection([None, None, None, pts], basis, C, 'periodic')
        f1 = np.array([rng.uniform(-1, 1) for _ in range(n)])
        f2 = np.array([rng.uniform(-1, 1) for _ in range(n)])
        a = rng.uniform(-3, 3)
        c, dt = rng.uniform(-9, 9), rng.uniform(-1, 1)
        g = a * f1 + f2
        o1, o2 = f1.copy(), f2.copy()
        adv.step(g, dt, c, 0.5)
        adv.step(o1, dt, c, 0.5)
        adv.step(o2, dt, c, 0.5)
        scale = (abs(a) + 1) * (np.abs(f1).max() + np.abs(f2).max())
        err = np.abs(g - (a * o1 + o2)).max()
        if err > 4096 * 2.0 ** -53 * n * scale * 2 * basis.degree * 8.0 / min_cell(basis):
            chk.fail('C11:linearity', 'periodic step is not linear in the data', {'kind': kind, 'a': a, 'c': c, 'dt': dt},
                     actual=float(err))
        chk.count('test: linear in the data (periodic mode)')
        # a step with zero displacement on an object that has just been used with a non-zero one (c = 0 on some lines of the
        # grid-level loops, dt = 0): the nodal values stay what they are (the interpolant at its own nodes), in every boundary mode
        for mode in ('fEq', 'null', 'periodic'):
            adv2 = VParallelAdvection([None, None, None, pts], basis, C, mode)
            warm = f1.copy()
            adv2.step(warm, dt, c, 0.5)
            for (c0, dt0) in ((0.0, dt if dt != 0 else 0.3), (c, 0.0)):
                h = f2.copy()
                adv2.step(h, dt0, c0, 0.5)
                err0 = np.abs(h - f2).max()
                if err0 > 4096 * 2.0 ** -53 * n * np.abs(f2).max() * 2 * basis.degree * 8.0 / min_cell(basis):
                    chk.fail('C11:zero-displacement', 'a step with c*dt = 0 after a step with c*dt != 0 on the same object changes the nodal values',
                             {'kind': kind, 'mode': mode, 'previous': {'c': c, 'dt': dt}, 'c': c0, 'dt': dt0}, actual=float(err0))
            chk.count('test: zero displacement after a non-zero step')


def grid_wiring(chk, C):
    """small re-check of the grid-level clause (property C05 owns it): with r and z distributed over the simulated ranks
    every (r, z, theta) line must be advected with the gradient at its own global position, i.e. the assembled result of
    gridStepKeepGradient equals the serial line-by-line result of the kernel-level `step`."""
    from mpi4py import MPI
    import pygyro.initialisation.setups as setups
    from pygyro.advection.advection import VParallelAdvection
    rng = chk.rng
    npts = [4, 6, 6, 8]
    grids = [(1, 2), (2, 1), (2, 3)] if chk.quick() else [(1, 1), (1, 2), (2, 1), (2, 2), (2, 3), (1, 3), (3, 2), (4, 2)]

    def setup(forced):
        old = setups.compute_2d_process_grid
        setups.compute_2d_process_grid = lambda npts_, size: forced
        try:
            return setups.setupCylindricalGrid(layout='v_parallel', npts=list(npts), comm=MPI.COMM_WORLD,
                                               eps=0.05, m=2, n=1)
        finally:
            setups.compute_2d_process_grid = old
    for forced in grids:
        seed = rng.randrange(1 << 30)
        dt = rng.choice([0.7, -1.3])
        # data and gradient table, deterministic in the global position; dims order of 'v_parallel' is (r, z, theta, v)
        full = np.random.RandomState(seed).uniform(-1, 1, size=(npts[0], npts[2], npts[1], npts[3]))
        table = np.random.RandomState(seed + 1).uniform(-2, 2, size=(npts[0], npts[2], npts[1]))
        # some (r, z, theta) lines are identically zero (empty phase space): with the equilibrium edge the nodes whose foot leaves the
        # velocity domain still receive f_eq(r, foot)
        full[np.random.RandomState(seed + 2).uniform(size=full.shape[:3]) < 0.25] = 0.0

        def body():
            grid, constants, _ = setup(forced)
            lay = grid.getLayout('v_parallel')
            assert tuple(lay.dims_order) == (0, 2, 1, 3)
            sl = tuple(slice(s, e) for s, e in zip(lay.starts, lay.ends))
            grid.getAllData()[:] = full[sl]
            local = table[lay.starts[0]:lay.ends[0]].copy()     # [local r, global z, theta]
            vp = VParallelAdvection(grid.eta_grid, grid.getSpline(3), constants)
            vp.gridStepKeepGradient(grid, local, dt)
            return sl, np.array(grid.getAllData()).copy()

        def ref_body():
            grid, constants, _ = setup((1, 1))
            k = VParallelAdvection(grid.eta_grid, grid.getSpline(3), constants)
            out = full.copy()
            for i in range(npts[0]):
                for j in range(npts[2]):
                    for q in range(npts[1]):
                        k.step(out[i, j, q], dt, table[i, j, q], grid.eta_grid[0][i])
            return out
        res = MPI.run(int(np.prod(forced)), body)
        case = {'npts': npts, 'process_grid': list(forced), 'dt': dt, 'seed': seed}
        if not res.ok:
            chk.fail('C11:gridstep-raises', 'gridStepKeepGradient raised: ' + str(res.first_error())[:200], case)
            continue
        G = np.full(full.shape, np.nan)
        for sl, data in res.values():
            G[sl] = data
        rr = MPI.run(1, ref_body)
        if not rr.ok:
            raise RuntimeError(str(rr.first_error()))
        ref = rr.values()[0]
        if not np.array_equal(G, ref):
            bad = [int(x) for x in np.argwhere(~(G == ref))[0]]
            chk.fail('C11:gridstep-wiring', 'grid-level step does not advect line (r,z,theta) with the gradient at that global position',
                     dict(case, first_bad_index_r_z_theta_v=bad), expected=float(ref[tuple(bad)]), actual=float(G[tuple(bad)]))
        chk.count('grid-level wiring, ranks=%d' % int(np.prod(forced)))
        chk.case(('grid', tuple(forced), dt), nontrivial=forced[1] > 1)
        chk.traces_validated += 1


def grid_sequence(chk, C):
    """the driver's Strang sequence on real objects: `gridStep` (computes the parallel gradient of phi into the caller's table and
    advects with it) followed by `gridStepKeepGradient` with another time step (re-uses the table).  Afterwards (a) the table must
    still hold the parallel gradient of phi at the line's own global position (computed again with the same ParallelGradient
    object), (b) both steps must have advected every line with exactly that gradient (line-by-line kernel-level `step`)."""
    from props import c05
    import layout_util as lu
    from pygyro.advection.advection import VParallelAdvection
    rng = chk.rng
    npts = (6, 8, 8, 9)
    for kf, forced in enumerate([(1, 2), (2, 2)] if chk.quick() else [(1, 1), (1, 2), (2, 1), (2, 2), (3, 2), (2, 4)]):
        # by position: a zero-length second step (it must leave the data alone), then the other pairs
        dt1, dt2 = [(0.35, 0.0), (-0.4, 1.3), (0.35, 0.7), (0.5, -0.25)][kf % 4]

        def body():
            o = c05.build(npts, forced, 0.8, start='v_parallel', seed=3)
            f, phi = o['f'], o['phi']
            f.setLayout('v_parallel')
            phi.setLayout('v_parallel_1d')
            c05.fill_phi(phi, npts, 'v_parallel_1d', 7)
            lay = f.getLayout('v_parallel')
            nr = lay.shape[0]
            f0 = np.array(f.getAllData()).copy()
            pgv = np.full([nr, npts[2], npts[1]], np.nan)
            o['vpar'].gridStep(f, phi, o['pg'], pgv, dt1)
            table1 = pgv.copy()
            o['vpar'].gridStepKeepGradient(f, pgv, dt2)
            table2 = pgv.copy()
            got = np.array(f.getAllData()).copy()
            # reference on this rank: gradient again, then line by line with a fresh advection object
            grad = np.empty([nr, npts[2], npts[1]])
            for i, _ in f.getCoords(0):
                o['pg'].parallel_gradient(np.real(phi.get2DSlice(i)), i, grad[i])
            k = VParallelAdvection(f.eta_grid, f.getSpline(3), o['constants'])
            ref = f0.copy()
            zs = list(f.getGlobalIdxVals(1))
            for d in (dt1, dt2):
                for i, r in f.getCoords(0):
                    for j, zg in enumerate(zs):
                        for q in range(ref.shape[2]):
                            k.step(ref[i, j, q], d, grad[i, zg, q], r)
            return {'table1': np.array_equal(table1, grad), 'table2': np.array_equal(table2, grad), 'same': np.array_equal(got, ref),
                    'maxdiff': float(np.max(np.abs(got - ref))) if got.size else 0.0}
        res = lu.run_ranks(forced[0] * forced[1], body, policy='random', seed=chk.seed)
        case = {'npts': list(npts), 'process_grid': list(forced), 'dt_gridStep': dt1, 'dt_gridStepKeepGradient': dt2}
        if not res.ok:
            chk.fail('C11:gridstep-raises', 'gridStep / gridStepKeepGradient raised: ' + str(res.first_error())[:200], case)
            continue
        for rk, v in enumerate(res.values()):
            if not v['table1'] or not v['table2']:
                chk.fail('C11:gradient-table', 'after gridStep%s the caller\'s table no longer holds the parallel gradient of the potential'
                         % ('' if not v['table1'] else ' + gridStepKeepGradient'), dict(case, rank=rk))
                break
            if not v['same']:
                chk.fail('C11:gridstep-sequence', 'gridStep followed by gridStepKeepGradient does not advect every line with the gradient at its own '
                         'global position (max difference %.3e)' % v['maxdiff'], dict(case, rank=rk))
                break
        chk.count('grid-level gridStep + gridStepKeepGradient sequences, ranks=%d' % (forced[0] * forced[1]))
        chk.case(('gridseq', tuple(forced), dt1, dt2), nontrivial=forced[1] > 1)
        chk.traces_validated += 1


def run(chk):
    from pygyro.initialisation.constants import Constants
    chk.rule = ('kernel cases: (spline path: uniform-cubic closed-form kernels / general kernels degree 1-5 on uniform or '
                'non-uniform breaks) x (fEq, null, periodic) x shift family (exact: foot exactly on vMin/vMax/a node/one ulp '
                'outside/k widths away, doubles certified exact; zero; < 1 cell; several cells; 1-6 domain widths; both signs); '
                'non-trivial = c*dt != 0 and at least one node compared; distinct by (path, cells, mode, family, c*dt)')
    # Props/C11Gen.lean is about Generated/VParGen.lean = `general_v_parallel_advection_eval_step` as the source says it NOW
    common.run_translator(chk, 'translate_pure.py', '--only', 'vpar')
    chk.proof_side(build=not getattr(chk, 'no_build', False), extra_props=('C11Gen',))
    C = Constants()
    drv = common.LeanDriver('C11.lean')
    try:
        kernel_cases(chk, drv, C)
    finally:
        drv.close()
    linearity(chk, C)
    grid_wiring(chk, C)
    grid_sequence(chk, C)
    chk.assumptions = [
        'compute_interpolant is a contract: the model evaluates the coefficients returned by the real interpolator for the same data (residual of that solve: C08)',
        'both spline paths evaluate the same spline (C07 cubic_eq_general); the model evaluates the cubic-uniform path on the equidistant knot vector xmin+dx*(i-3)',
        'f_eq (exp/tanh) is not modelled: the model returns the tag FEQ(r, v) and the harness evaluates the real f_eq there',
        'comparison tolerance 64*eps*(sum_j |c_j||B_j(x)| + |S\'|_max * (wraps+2) * (|v|+|c*dt|+|vMin|+|vMax|)): rounding of the evaluation + rounding of the evaluation point',
        'nodes whose foot (or a wrap iterate) lies within 2^-40*(vMax-vMin) of vMin/vMax are excluded unless the doubles are certified exact',
    ]
    return chk.finish()
