"""C13 — the parallel gradient is the field-aligned finite-difference derivative.

proof side    : Props/C13.lean (pargrad_regimes_eq_mod, pargrad_three_loops_eq_one, pargrad_formula, pargrad_refused_iff,
                pargrad_linear(_coeffs), weights_sum_zero, pargrad_constants_zero, pargrad_fieldline_constant_zero,
                pargrad_commutes_z_shift, stencil_symmetric_even_order, stencil_odd_order,
                fd_exact_for_polynomials_partial, fd_truncation_bound)
correspondence: real `ParallelGradient(spline, eta_grid, layout, constants, order).parallel_gradient(phi_r, i, der)` vs the
                ℚ model (Drivers/C10.lean: `pargrad` = the three loops with numpy's index wrap, `regimes`, `fd_setup`,
                `moments`).  Contracts handed to the model as exact rationals: theta-spline coefficients of every row from
                the real interpolator, the weights returned by numpy.linalg.solve (their moment residual is measured
                exactly and bounded), bz and the reduced positions recomputed in numpy as the code does.
oracle        : (model-independent) numpy/scipy/Fraction implementation of the stated formula (exact rational FD weights,
                independent periodic theta-spline), zero on constants and on discrete field-line constants, linearity,
                commutation with np.roll along z, exactness on polynomials in z, refusal for nz <= order; convergence
                order smoke test (thorough tier, labelled as a test).
"""
from fractions import Fraction as F

import numpy as np

import common
from props.c10 import theta_space, real_coefs, OracleSpline, fr, Guard, point_sensitivity

LEVEL = 'proof'
FACTOR = 64.0


def fd_weights_exact(order):
    """solve the moment system Σ_j s_j^i c_j = δ_{i1} in Fractions (Gauss-Jordan); centred-when-even stencil of the statement"""
    n = order + 1
    start = -(order // 2)
    s = [start + j for j in range(n)]
    A = [[F(sj) ** i for sj in s] + [F(1 if i == 1 else 0)] for i in range(n)]
    for col in range(n):
        piv = next(r for r in range(col, n) if A[r][col] != 0)
        A[col], A[piv] = A[piv], A[col]
        p = A[col][col]
        A[col] = [x / p for x in A[col]]
        for r in range(n):
            if r != col and A[r][col] != 0:
                m = A[r][col]
                A[r] = [x - m * y for x, y in zip(A[r], A[col])]
    return s, [A[i][n] for i in range(n)]


def gen_case(rng, fam):
    order = rng.choice([2, 3, 4, 5, 6])
    nz = rng.choice([order + 1, order + 1, order + 2, rng.randint(order + 1, 13)])
    deg, uniform = rng.choice([(3, True), (3, False), (3, True), (5, False), (2, False), (4, False)])
    nq = rng.randint(deg + 2, 10)
    if fam == 'exact':
        return dict(fam=fam, sub=rng.randrange(1 << 30), order=order, nz=nz, nq=nq, deg=deg, uniform=uniform,
                    dz=rng.choice([1.0, 0.5, 0.25, 2.0, 0.75]), z0=rng.choice([0.0, -1.25]), iota=0.0, R0=None,
                    r=[0.5, 1.0, 2.25], nprocs=[1], rank=[0], perturb=False)
    dist = rng.choice([([1], [0]), ([2], [1]), ([3], [2]), ([2], [0])])
    return dict(fam=fam, sub=rng.randrange(1 << 30), order=order, nz=nz, nq=nq, deg=deg, uniform=uniform,
                dz=rng.uniform(0.05, 30.0), z0=rng.uniform(-2, 2),
                iota=rng.choice([0.8, -0.8, 0.3, 1.7, 25.0]) * rng.uniform(0.5, 1.5),
                # (the magnetic axis r = 0 may be a grid line: b_z = 1 there, the field-line shift iota dz k / R0 is still there)
                R0=rng.choice([None, 10.0, 239.8081535, 3.7]), r=sorted([0.0 if rng.random() < 0.34 else rng.uniform(0.1, 14.5)] + [rng.uniform(0.1, 14.5) for _ in range(4)]),
                nprocs=dist[0], rank=dist[1], perturb=(not uniform and rng.random() < 0.4))


def build(case):
    from pygyro.model.layout import Layout
    from pygyro.advection.advection import ParallelGradient
    from pygyro.initialisation.constants import Constants
    rng = np.random.RandomState(case['sub'])
    bs, kn, mknots = theta_space(case['nq'], case['deg'], case['uniform'], rng, case.get('perturb', False))
    theta = bs.greville.copy()
    z = case['z0'] + case['dz'] * np.arange(case['nz'])
    if case.get('strat', case['sub']) % 4 == 1:
        # the z grid as the set-up builds it for some periodic spline spaces (degree 5, general path): the first Greville point,
        # within rounding of zMin, has been wrapped to the OTHER end of the period - the same point of the periodic direction (F31)
        z[0] = case['z0'] + case['dz'] * case['nz']
    r = np.array(case['r'], float)
    eta = [r, theta, z]
    C = Constants()
    C.iotaVal = case['iota']
    if case.get('R0') is not None:
        C.R0 = case['R0']
    if case.get('strat', case['sub']) % 5 == 4 and len(case['nprocs']) == 1:
        # a layout that stores z first and r second (r distributed over the SECOND direction of the process grid)
        pz = 2 if case['nz'] >= 2 else 1
        lay = Layout('z_r_theta', [pz, case['nprocs'][0]], [2, 0, 1], eta, [case['sub'] % pz, case['rank'][0]])
    else:
        lay = Layout('v_parallel_2d', list(case['nprocs']), [0, 2, 1], eta, list(case['rank']))
    # another operator on the same spline space, grid and block but with other constants is built first in the same
    # process (a parameter scan): nothing may be shared between operators except what depends on the grid alone
    C2 = Constants()
    C2.iotaVal = 0.0 if case['iota'] != 0.0 else 0.7
    C2.R0 = 7.0 if case.get('R0') is None else 2.0 * case['R0']
    ParallelGradient(bs, eta, lay, C2, order=case['order'])
    # a rotational transform that depends on the radius (a Constants object whose `iota` is overridden), on every kind of radial block
    # (finding F18, repaired: the table of theta positions covered all radii but was read with the local radial index)
    rdep = case['iota'] != 0.0 and case.get('strat', case['sub']) % 3 == 0

    r_first, r_last = float(r[0]), float(r[-1])

    def make_iota(i0):
        if not rdep:
            return None
        if case.get('strat', case['sub']) % 6 == 3:
            # reversed shear: exactly the same value on the first and the last radius of the grid, other values in between
            return lambda rr=C.rp: i0 * (1.0 + 0.15 * (np.asarray(rr, dtype=float) - r_first) * (np.asarray(rr, dtype=float) - r_last))
        return lambda rr=C.rp: i0 * (1.0 + 0.15 * np.asarray(rr, dtype=float))
    if rdep:
        C.iota = make_iota(case['iota'])
    pg = ParallelGradient(bs, eta, lay, C, order=case['order'])
    # the operator has been built: its tables are fixed.  The Constants object it was given is changed afterwards (re-used to set up
    # another operator); the reference computations use an untouched copy
    Cref = Constants()
    Cref.iotaVal = case['iota']
    Cref.R0 = C.R0
    if rdep:
        Cref.iota = make_iota(case['iota'])
    C.iotaVal = -3.3 * (1.0 + abs(case['iota']))
    C.R0 = 0.37 * C.R0
    if rdep:
        C.iota = lambda r=C.rp: 0.0 * np.asarray(r, dtype=float) - 1.7
    C = Cref
    rs = int(lay.starts[lay.inv_dims_order[0]])
    return dict(bs=bs, kn=kn, mknots=mknots, theta=theta, z=z, r=r, C=C, lay=lay, pg=pg, rs=rs,
                nr=int(lay.shape[lay.inv_dims_order[0]]), rng=rng, eta=eta)


def code_inputs(case, B, ri, shifts):
    """bz and the reduced theta positions as the code computes them (same numpy operations, same order)"""
    C = B['C']
    r = B['r'][B['rs'] + ri:B['rs'] + ri + 1]
    bz = (1 / np.sqrt(1 + (r * C.iota(r) / C.R0) ** 2))[0]
    dz = B['z'][2] - B['z'][1]            # the step between two inner points (the first point of a periodic grid may be wrapped)
    rr = B['r'][B['rs'] + ri]
    pts = [np.mod(B['theta'] + C.iota(rr) * (dz * l) / C.R0, 2 * np.pi) for l in shifts]
    return float(bz), float(dz), pts


def reference(case, B, ri, phi):
    """the stated formula, independently (exact FD weights, scipy periodic spline)"""
    nz, nq, order = case['nz'], case['nq'], case['order']
    C = B['C']
    s, w = fd_weights_exact(order)
    dz = float(B['z'][2] - B['z'][1])
    r = float(B['r'][B['rs'] + ri])
    iota = float(np.asarray(C.iota(np.array([r]))).ravel()[0])        # the rotational transform of THIS radius
    bz = 1.0 / np.sqrt(1.0 + (r * iota / C.R0) ** 2)
    osp = OracleSpline(B['kn'], case['deg'], B['theta']).fit([phi[a] for a in range(nz)])
    ref = np.zeros((nz, nq))
    scale = np.zeros((nz, nq))
    pmax = np.abs(phi).max(axis=1)
    for k, sk in enumerate(s):
        x = np.mod(B['theta'] + iota * dz * sk / C.R0, 2 * np.pi)
        for a in range(nz):
            row = (a + sk) % nz
            ref[a] += float(w[k]) * osp.eval(row, x)
            scale[a] += abs(float(w[k])) * pmax[row]
    return ref * bz / dz, scale * bz / abs(dz), s, w


def run_case(chk, drv, case, stats):
    with Guard(chk, 'C13:raises', 'constructing ParallelGradient or calling parallel_gradient', case):
        return _run_case(chk, drv, case, stats)


def _run_case(chk, drv, case, stats):
    B = build(case)
    pg, bs, nz, nq, order = B['pg'], B['bs'], case['nz'], case['nq'], case['order']
    rng = B['rng']
    ri = int(rng.randint(B['nr']))
    if case.get('look_at') == 'first':
        ri = 0
    elif case.get('look_at') == 'inner' and B['nr'] >= 3:
        ri = B['nr'] // 2
    elif case.get('look_at') == 'last':
        ri = B['nr'] - 1 - int(rng.randint(3))
    tag = dict(case, rIdx=ri)
    phi = rng.uniform(-1, 1, size=(nz, nq)) * rng.choice([1.0, 1e3, 1e-3])
    if case.get('strat', case['sub']) % 4 == 1:
        # a potential of very small amplitude (the early linear phase) / a small variation on a large offset
        phi = phi * 1e-9 / max(1e-300, float(np.abs(phi).max())) if case.get('strat', case['sub']) % 8 == 1 else 1e3 + 1e-3 * phi / float(np.abs(phi).max())
    der = np.full((nz, nq), np.nan)
    if case.get('strat', 0) % 5 == 2 and nq != nz:
        # a call that the object refuses (the slice handed over theta-first) and that the caller catches comes first: it may leave
        # nothing behind in the object
        try:
            pg.parallel_gradient(np.ascontiguousarray(phi.T), ri, np.empty((nq, nz)))
        except Exception:  # noqa: BLE001
            pass
        tag['refused_call_first'] = True
    out = pg.parallel_gradient(phi, ri, der)
    if not np.isfinite(der).all():
        chk.fail('C13:nonfinite', 'parallel_gradient produced nan/inf from finite data', tag)
        return
    if out is not der and not np.array_equal(out, der):
        chk.fail('C13:return', 'parallel_gradient does not return/fill the array passed as der', tag)

    # ---------------- model
    setup = drv.call({'op': 'fd_setup', 'order': order})
    sh = [int(x) for x in setup['shifts']]
    weights = [float(x) for x in pg._coeffs]
    if len(weights) != order + 1:
        chk.diff('number of FD weights', tag, order + 1, len(weights))
        return
    # contract of numpy.linalg.solve: moment residual of the weights the real solver returned, measured exactly
    res = common.unrats(drv.call({'op': 'moments', 'order': order, 'weights': common.rats(weights)})['residual'])
    for i, rr in enumerate(res):
        sc = sum(abs(F(s) ** i * fr(w)) for s, w in zip(sh, weights)) + 1
        stats['moment'] = max(stats['moment'], float(abs(rr) / (F(common.EPS) * sc)))
        if abs(rr) > 4096 * F(common.EPS) * sc:
            chk.diff('moment system residual of the FD weights (row %d)' % i, tag, 0, float(rr))
    bz, dz, pts = code_inputs(case, B, ri, sh)
    coefs = real_coefs(bs, [phi[a] for a in range(nz)])
    mo = drv.call({'op': 'pargrad', 'nz': nz, 'nq': nq, 'order': order, 'knots': B['mknots'], 'degree': case['deg'],
                   'coefs': [common.rats(c) for c in coefs], 'pts': [common.rats(p) for p in pts],
                   'weights': common.rats(weights), 'bz': common.rat(bz), 'dz': common.rat(dz)})
    if 'error' in mo:
        raise RuntimeError(mo['error'])
    if mo['der'] is None:
        chk.diff('model refuses (IndexError / nz <= order) but the code returned', tag)
        return
    M = [max(abs(fr(x)) for x in c) for c in coefs]
    fac = abs(fr(bz) / fr(dz))
    bad = None
    worst = F(0)
    sens = [point_sensitivity(B['kn'], B['theta'], float(np.asarray(B['C'].iota(B['r'][B['rs'] + ri:B['rs'] + ri + 1])).ravel()[0]) * (dz * l) / B['C'].R0) for l in sh]
    for a in range(nz):
        scale = fac * sum(abs(fr(weights[k])) * sens[k] * M[(a + sh[k]) % nz] for k in range(order + 1))
        for q in range(nq):
            ex = F(mo['der'][a][q])
            err = abs(fr(der[a, q]) - ex)
            if scale > 0:
                worst = max(worst, err / (F(common.EPS) * scale))
            if not common.close(der[a, q], ex, scale, FACTOR) and bad is None:
                bad = (a, q, float(ex), float(der[a, q]), float(scale))
    stats['worst'] = max(stats['worst'], float(worst))
    if bad is not None:
        chk.diff('ParallelGradient.parallel_gradient output', tag, {'a,q,model': bad[:3], 'scale': bad[4]}, bad[3])
    # mechanism: stencil / loop bounds of the object (state named by the property; exact)
    st = {'shifts': [int(x) for x in pg._shifts], 'fwd': int(pg._fwdSteps), 'bkwd': int(pg._bkwdSteps)}
    if st != {'shifts': sh, 'fwd': setup['fwd'], 'bkwd': setup['bkwd']}:
        stats['mech_disagree'] += 1

    # ---------------- oracles on the real code (no Lean model below)
    oracle(chk, case, B, tag, ri, phi, der)
    chk.case(('pargrad', case['fam'], order, nz, nq, case['deg'], case['uniform'], case['sub'] if case['fam'] != 'exact' else case['dz']),
             nontrivial=True, sample={'case': tag, 'der00_model': mo['der'][0][0], 'der00_code': float(der[0, 0])})
    chk.count('pargrad order=%d' % order)
    chk.count('pargrad nz-order=%s' % ('1' if nz == order + 1 else '2' if nz == order + 2 else '>2'))
    chk.count('pargrad spline deg=%d uniform_flag=%s' % (case['deg'], case['uniform']))
    chk.count('pargrad %s r-block start=%s' % (case['fam'], '0' if B['rs'] == 0 else '>0'))


def oracle(chk, case, B, tag, ri, phi, der):
    pg, nz, nq, order = B['pg'], case['nz'], case['nq'], case['order']
    rng = B['rng']
    ref, scale, s, w = reference(case, B, ri, phi)
    tol = 2.0 ** -30 * scale + 1e-300
    d = np.abs(der - ref)
    if not (d <= tol).all():
        a, q = np.unravel_index(np.argmax(d - tol), d.shape)
        chk.fail('C13:formula', 'parallel_gradient differs from bz/dz times the order-%d finite-difference combination of the theta-spline '
                 'along the field line' % order, tag,
                 expected={'a': int(a), 'q': int(q), 'value': float(ref[a, q]), 'stencil': s, 'weights': [str(x) for x in w]},
                 actual=float(der[a, q]))
    _, sc1, _, _ = reference(case, B, ri, np.ones((nz, nq)))
    unit = float(sc1.max())                     # bz/dz * Σ|w_k|
    # constants
    cval = float(rng.choice([3.5, -2.0, 1e6]))
    g = np.empty((nz, nq))
    pg.parallel_gradient(np.full((nz, nq), cval), ri, g)
    if not (np.abs(g) <= 2.0 ** -40 * abs(cval) * unit).all():
        chk.fail('C13:constants', 'the parallel gradient of a constant is not zero', tag, expected=0.0, actual=float(np.abs(g).max()))
    # the zero potential, written into an output array that holds an earlier result (linearity with a = b = 0; the driver
    # re-uses parGradVals[i] every time step): the output may not depend on what the array held before
    g0 = der.copy() + 1.0
    pg.parallel_gradient(np.zeros((nz, nq)), ri, g0)
    if g0.any():
        chk.fail('C13:zero-potential', 'the parallel gradient of the zero potential, written into a used output array, is not zero', tag,
                 expected=0.0, actual=float(np.abs(g0).max()))
    g0 = np.full((nz, nq), 7.25)
    pg.parallel_gradient(phi, ri, g0)
    if not np.array_equal(g0, der):
        chk.fail('C13:output-history', 'the result depends on the previous contents of the output array', tag,
                 actual=float(np.abs(g0 - der).max()))
    # memory layouts and element types the caller may use: a strided output (a plane of a table stored in another order), a
    # Fortran-ordered potential, an integer-valued and a single-precision potential; the output is float64 and must be what the
    # same values give as float64 C arrays
    big = np.full((nz, 2 * nq), 5.5)
    dv = big[:, ::2]
    pg.parallel_gradient(phi, ri, dv)
    if not np.array_equal(dv, der) or not (big[:, 1::2] == 5.5).all():
        chk.fail('C13:strided-output', 'a non-contiguous output array is not filled (or memory next to it is touched)', tag,
                 actual=float(np.abs(dv - der).max()))
    g1 = np.empty((nz, nq))
    pg.parallel_gradient(np.asfortranarray(phi), ri, g1)
    if not np.array_equal(g1, der):
        chk.fail('C13:fortran-input', 'a Fortran-ordered potential gives another result than the same values in C order', tag,
                 actual=float(np.abs(g1 - der).max()))
    for nm, arr in (('int64', rng.randint(-9, 10, size=(nz, nq)).astype(np.int64)), ('float32', phi.astype(np.float32))):
        ga, gb = np.empty((nz, nq)), np.empty((nz, nq))
        pg.parallel_gradient(arr, ri, ga)
        pg.parallel_gradient(arr.astype(np.float64), ri, gb)
        if not (np.abs(ga - gb) <= 2.0 ** -40 * max(1.0, float(np.abs(arr).max())) * unit).all():
            chk.fail('C13:input-dtype', 'a potential given as %s gives another result than the same values as float64' % nm, dict(tag, dtype=nm),
                     actual=float(np.abs(ga - gb).max()))
    # the caller keeps ONE array for the potential and updates it in place between two calls (the buffer of a time loop): the second
    # call sees the new values (here: doubled, a power of two, so the result doubles exactly)
    buf = np.array(phi, copy=True)
    gb1, gb2 = np.empty((nz, nq)), np.empty((nz, nq))
    pg.parallel_gradient(buf, ri, gb1)
    buf *= 2.0
    pg.parallel_gradient(buf, ri, gb2)
    if not np.array_equal(gb1, der) or not np.array_equal(gb2, 2.0 * der):
        chk.fail('C13:same-array-updated-in-place', 'the same array object, updated in place between two calls, does not give the gradient of its '
                 'new values', tag, actual=float(np.abs(gb2 - 2.0 * der).max()))
    # linearity
    a_, b_ = float(rng.uniform(-2, 2)), float(rng.uniform(-2, 2))
    p2 = rng.uniform(-1, 1, size=(nz, nq))
    d2, d3 = np.empty((nz, nq)), np.empty((nz, nq))
    pg.parallel_gradient(p2, ri, d2)
    pg.parallel_gradient(a_ * phi + b_ * p2, ri, d3)
    if not (np.abs(d3 - (a_ * der + b_ * d2)) <= 2.0 ** -36 * (abs(a_) * np.abs(phi).max() + abs(b_)) * unit).all():
        chk.fail('C13:linear', 'parallel_gradient(a f + b g) != a grad(f) + b grad(g)', tag,
                 actual=float(np.abs(d3 - (a_ * der + b_ * d2)).max()))
    # commutation with cyclic shifts in z
    m = int(rng.randint(1, nz))
    d4 = np.empty((nz, nq))
    pg.parallel_gradient(np.roll(phi, m, axis=0).copy(), ri, d4)
    if not (np.abs(d4 - np.roll(der, m, axis=0)) <= 2.0 ** -40 * np.abs(phi).max() * unit).all():
        chk.fail('C13:zshift', 'parallel_gradient does not commute with np.roll along z', dict(tag, roll=m),
                 actual=float(np.abs(d4 - np.roll(der, m, axis=0)).max()))
    # polynomial exactness of the weights, seen through the real code: no twist, phi = p(z) (constant in theta),
    # rows whose stencil does not cross the periodic seam
    if case['iota'] == 0.0:
        cf = [float(rng.randint(-3, 4)) for _ in range(order + 1)]
        zu = case['z0'] + case['dz'] * np.arange(nz)          # positions without the periodic wrap of the first point
        zc = zu - zu[nz // 2]
        pz = sum(c * zc ** k for k, c in enumerate(cf))
        dpz = sum(k * c * zc ** (k - 1) for k, c in enumerate(cf) if k > 0)
        d5 = np.empty((nz, nq))
        pg.parallel_gradient(np.repeat(pz[:, None], nq, axis=1), ri, d5)
        lo, hi = -min(s), nz - max(s)
        for a in range(lo, hi):
            if not (np.abs(d5[a] - dpz[a]) <= 2.0 ** -30 * np.abs(pz).max() * unit + 1e-300).all():
                chk.fail('C13:polynomial', 'finite-difference weights are not exact on a polynomial of degree <= order', dict(tag, coeffs=cf, row=a),
                         expected=float(dpz[a]), actual=float(d5[a, 0]))
                break
        chk.count('oracle polynomial exactness rows=%d' % max(0, hi - lo))


def fieldline_constants(chk):
    """discrete field-line constants: iota*dz/R0 = k * (theta cell), nq | k*nz, phi[a, q] = G[(q - k a) mod nq]"""
    from pygyro.model.layout import Layout
    from pygyro.advection.advection import ParallelGradient
    from pygyro.initialisation.constants import Constants
    rng = chk.rng
    for it in range(chk.n(12, 120)):
        order = rng.choice([2, 3, 4, 5, 6])
        deg, uniform = rng.choice([(3, True), (3, False), (5, False), (2, False)])
        nq = rng.randint(max(deg + 2, 5), 9)
        k = rng.choice([1, -1, 2])
        mult = rng.randint(1, 3)
        nz = nq * mult
        if nz <= order:
            nz = nq * (order // nq + 1)
        nprng = np.random.RandomState(rng.randrange(1 << 30))
        bs, kn, _ = theta_space(nq, deg, uniform, nprng)
        theta = bs.greville.copy()
        C = Constants()
        C.iotaVal = rng.choice([0.8, -1.3])
        dz = k * (2 * np.pi / nq) * C.R0 / C.iotaVal
        if dz < 0:
            dz, k = -dz, -k
        z = dz * np.arange(nz)
        r = np.array([0.5, 3.0])
        lay = Layout('v_parallel_2d', [1], [0, 2, 1], [r, theta, z], [0])
        case = {'order': order, 'deg': deg, 'uniform': uniform, 'nq': nq, 'nz': nz, 'k': k, 'iota': C.iotaVal, 'dz': float(dz)}
        G = nprng.uniform(-1, 1, size=nq)
        phi = np.array([[G[(q - k * a) % nq] for q in range(nq)] for a in range(nz)])
        der = np.empty((nz, nq))
        g = Guard(chk, 'C13:raises', 'constructing ParallelGradient or calling parallel_gradient', case)
        with g:
            pg = ParallelGradient(bs, [r, theta, z], lay, C, order=order)
            pg.parallel_gradient(phi, 1, der)
        if g.raised:
            continue
        bzdz = 1.0 / dz * sum(abs(float(x)) for x in fd_weights_exact(order)[1])
        if not (np.abs(der) <= 2.0 ** -34 * bzdz).all():
            chk.fail('C13:fieldline-constant', 'the gradient of a function constant along field lines is not zero', case,
                     expected=0.0, actual=float(np.abs(der).max()))
        chk.case(('flc', order, deg, uniform, nq, nz, k), nontrivial=True)
        chk.count('oracle field-line constants')


def refusal_and_regimes(chk, drv):
    """nz <= order is refused by the constructor; the model's regime table against numpy's own index resolution"""
    from pygyro.model.layout import Layout
    from pygyro.advection.advection import ParallelGradient
    from pygyro.initialisation.constants import Constants
    nprng = np.random.RandomState(5)
    bs, kn, _ = theta_space(6, 3, True, nprng)
    for order in (2, 3, 4, 5, 6):
        for nz in sorted({max(2, order - 1), order, order + 1}):
            eta = [np.array([1.0]), bs.greville.copy(), 0.5 * np.arange(nz)]
            lay = Layout('v_parallel_2d', [1], [0, 2, 1], eta, [0])
            try:
                ParallelGradient(bs, eta, lay, Constants(), order=order)
                refused = False
            except AssertionError:
                refused = True
            except Exception as e:  # noqa: BLE001
                refused = 'other: %s' % type(e).__name__
            mo = drv.call({'op': 'pargrad', 'nz': nz, 'nq': 1, 'order': order, 'knots': ['0', '1'], 'degree': 0,
                           'coefs': [['0']] * nz, 'pts': [['0']] * (order + 1), 'weights': ['0'] * (order + 1), 'bz': '1', 'dz': '1'})
            if (mo['der'] is None) != (refused is True):
                chk.diff('refusal nz <= order', {'order': order, 'nz': nz}, mo['der'] is None, refused)
            if (nz <= order) != (refused is True):
                chk.fail('C13:refusal', 'grids with nz <= order are not refused exactly (assert nz > order)', {'order': order, 'nz': nz},
                         expected=nz <= order, actual=refused)
            chk.count('refusal cases')
        for nz in range(order + 1, order + 8):
            rows = drv.call({'op': 'regimes', 'nz': nz, 'order': order})['rows']
            n = order + 1
            start = 1 - (n + 1) // 2
            idx = np.arange(nz)
            for i in range(nz):
                for j in range(n):
                    s = j + start
                    want = int(idx[(i - s) % nz])
                    if rows[i][j] != want:
                        chk.diff('regime table', {'order': order, 'nz': nz, 'i': i, 'j': j}, rows[i][j], want)
            chk.case(('regimes', order, nz), nontrivial=(order % 2 == 1))


def convergence_smoke(chk):
    """TEST (not a proof obligation): observed order of the z-derivative of a smooth periodic function, no twist"""
    from pygyro.model.layout import Layout
    from pygyro.advection.advection import ParallelGradient
    from pygyro.initialisation.constants import Constants
    nprng = np.random.RandomState(3)
    bs, kn, _ = theta_space(8, 3, True, nprng)
    obs = {}
    for order in (2, 3, 4, 5, 6):
        errs = []
        for nz in (16, 32):
            Lz = 4.0
            z = Lz * np.arange(nz) / nz
            eta = [np.array([1.0]), bs.greville.copy(), z]
            C = Constants()
            C.iotaVal = 0.0
            lay = Layout('v_parallel_2d', [1], [0, 2, 1], eta, [0])
            phi = np.repeat(np.sin(2 * np.pi * z / Lz)[:, None], 8, axis=1)
            der = np.full_like(phi, np.inf)
            with Guard(chk, 'C13:raises', 'constructing ParallelGradient or calling parallel_gradient', {'order': order, 'nz': nz}):
                pg = ParallelGradient(bs, eta, lay, C, order=order)
                pg.parallel_gradient(phi, 0, der)
            errs.append(np.abs(der - (2 * np.pi / Lz) * np.cos(2 * np.pi * z / Lz)[:, None]).max())
        with np.errstate(all='ignore'):
            rate = float(np.log2(errs[0] / errs[1]))
        if not np.isfinite(rate):
            continue
        obs[order] = round(rate, 2)
        if rate < order - 0.7:
            chk.fail('C13:convergence-smoke', 'TEST: observed convergence order %.2f below the stated order %d' % (rate, order),
                     {'order': order, 'nz': [16, 32]}, expected='>= %d' % order, actual=rate)
        chk.count('convergence smoke tests')
    chk.notes['observed_convergence_order (test)'] = obs


def run(chk):
    common.use_repo()
    chk.rule = ('one evaluation = one ParallelGradient object (orders 2-6, nz from order+1, theta splines of degree 2-5 general / '
                'cubic uniform, r blocks with start 0 and > 0) + one parallel_gradient on random data compared entry-wise with the ℚ model, '
                'plus 5 further calls for the identities; exact family: dyadic dz, iota=0; generic: random doubles, iota != 0; '
                'distinct by (family, order, nz, nq, spline, sub-seed)')
    chk.proof_side(build=not getattr(chk, 'no_build', False), extra_props=('C13Extra',))
    drv = common.LeanDriver('C10.lean')
    stats = {'worst': 0.0, 'moment': 0.0, 'mech_disagree': 0}
    try:
        refusal_and_regimes(chk, drv)
        for it in range(chk.n(35, 350)):
            run_case(chk, drv, gen_case(chk.rng, 'exact'), stats)
        for it in range(chk.n(45, 450)):
            # `strat` (the position in the run, not a random number) decides which special features a case gets: every run of the check
            # has every feature, whatever the seed
            case_ = dict(gen_case(chk.rng, 'generic'), strat=it)
            if it % 7 == 5:
                # the magnetic axis r = 0 is the first grid line, held by this process, and it is the surface that is looked at
                case_['r'] = [0.0] + sorted(case_['r'])[1:]
                case_.update(nprocs=[1], rank=[0], look_at='first')
            if it % 15 == 8:
                # thousands of flux surfaces on this process (a serial run of a production grid), looking at the LAST one
                rr_ = chk.rng
                case_.update(r=sorted(rr_.uniform(0.1, 14.5) for _ in range(6000)), nprocs=[1], rank=[0], look_at='last',
                             order=rr_.choice([4, 5, 6]), nz=12, nq=max(9, case_['deg'] + 2))
            if it % 12 == 3:
                # reversed shear (equal values of iota on the first and the last radius) with ALL radii on this process, looking at an
                # inner surface
                case_.update(nprocs=[1], rank=[0], look_at='inner')
            run_case(chk, drv, case_, stats)
        fieldline_constants(chk)
        if not chk.quick():
            convergence_smoke(chk)
    finally:
        drv.close()
    chk.notes['max |code - model| / (eps * scale)'] = round(stats['worst'], 3)
    chk.notes['max moment residual / (eps * Σ|s^i c|)'] = round(stats['moment'], 3)
    chk.notes['tolerance_factor'] = FACTOR
    chk.notes['mechanism_disagreements (stencil / loop bounds)'] = stats['mech_disagree']
    chk.assumptions = [
        'contract: FD weights are those returned by numpy.linalg.solve in the real object; their exact moment residual is bounded by 4096 eps Σ|s^i c|',
        'contract: theta-spline coefficients from the real SplineInterpolator1D (interpolation = C08); bz and the % (2 pi) reduction recomputed '
        'in numpy with the code\'s operation order and handed to the model as exact rationals',
        'convergence order is analytic: proved part = exactness on polynomials + truncation bound; the thorough tier adds a smoke test',
    ]

    def search():
        r2 = __import__('random').Random(chk.seed + 91)
        for it in range(150):
            case = gen_case(r2, 'exact' if it % 2 == 0 else 'generic')
            B = build(case)
            ri = int(B['rng'].randint(B['nr']))
            phi = B['rng'].uniform(-1, 1, size=(case['nz'], case['nq']))
            der = np.empty_like(phi)
            B['pg'].parallel_gradient(phi, ri, der)
            before = len(chk.failures)
            oracle(chk, case, B, dict(case, rIdx=ri), ri, phi, der)
            if len(chk.failures) > before:
                return chk.failures.pop(before)
        return None
    return chk.finish(search)
