"""C10 — flux-surface advection is a field-aligned shift along z.

proof side    : Props/C10.lean (flux_step_formula, stencil_centred, lagrange_weights_are_basis/_sum_one/_on_node,
                flux_preserves_constants, flux_linear(_coeffs), flux_commutes_z_shift, flux_exact_shift)
                Props/C10Gen.lean (tie by translation: Generated/FluxGen.lean = `flux_advection` regenerated from the source on every
                run; gen_flux_advection_eq / _sum: generated = Model `fluxAdvection` = Σ_k coeffs[k]·vals[i,j,k] for all sizes,
                other entries untouched; gen_flux_step_formula)
                Props/C10Gen2.lean (tie by translation: Generated/LagValsGen.lean = `general_get_lagrange_vals` regenerated on every run
                [int array `shifts`, `(i - s) % nz` on a possibly negative integer = non-negative remainder, `empty_like`, the whole-array
                assignment `new_q[:] = (qVals + thetaShifts[j]) % (2*pi)` as the element-wise loop, spline evaluation uninterpreted];
                gen_lagrange_vals_eq: generated = Model `getLagrangeVals` on the len(qVals) theta indices, untouched elsewhere;
                gen_lagrange_vals_entry: vals[(i-s_j) mod nz, k, j] = E((q_k + thetaShift_j) % 2pi))
correspondence: real `FluxSurfaceAdvection(...).step(f, cIdx, rIdx)` of /repo vs. the ℚ model (Drivers/C10.lean: `flux_setup`
                = `_getLagrangePts`, `flux_step` = the two loops).  Contracts passed to the model as exact rationals: the
                theta-spline coefficients the real interpolator produces for every row, `zDist = -v*bz*dt` and the reduced
                evaluation points `(theta + dtheta*s) % 2pi` recomputed in numpy exactly as the code does (from the *model's*
                shifts).  Exact family: dyadic dz, v, dt, iota = 0, displacements of -7..+7 cells and half cells (floor and
                `zPts == zPos` decisions must agree); generic family: random, iota != 0, cases within 2^-40 of a floor
                threshold discarded and counted.
oracle        : (model-independent) numpy/scipy/Fraction implementation of the *stated* formula (degree-(nL-1) Lagrange
                interpolation along the field line of an independently computed periodic theta-spline) and the algebraic
                consequences on the real code: constants, linearity, commutation with np.roll along z, exact circular shift.
"""
from fractions import Fraction as F

import math
import numpy as np

import common

LEVEL = 'proof'
TWO_PI = None  # set after numpy import of the code's constant (2*pi as the code computes it)


# ----------------------------------------------------------------------------------------------
# helpers shared with c13.py

def theta_space(nq, deg, uniform_flag, rng, perturb=False):
    """a periodic theta spline space of the real code + the knot vector of the general model for it (rational strings)"""
    from pygyro.splines.splines import make_knots, BSplines
    br = np.linspace(0, 2 * np.pi, nq + 1)
    if perturb:
        w = (2 * np.pi / nq) * 0.3
        br[1:-1] += np.array([rng.uniform(-w, w) for _ in range(nq - 1)])
    kn = make_knots(br, deg, True)
    bs = BSplines(kn, deg, True, bool(uniform_flag))
    if bs.cubic_uniform:
        xmin, _, dx, nc = [x for x in bs.knots]
        mk = [F(float(xmin)) + k * F(float(dx)) for k in range(-3, int(nc) + 4)]
        mknots = ['%d/%d' % (x.numerator, x.denominator) for x in mk]
    else:
        mknots = common.rats(bs.knots)
    return bs, kn, mknots


def real_coefs(bs, rows):
    """theta-spline coefficients the real interpolator produces for each row (contract input of the model)"""
    from pygyro.splines.splines import Spline1D
    from pygyro.splines.spline_interpolators import SplineInterpolator1D
    it, sp = SplineInterpolator1D(bs), Spline1D(bs)
    out = []
    for row in rows:
        it.compute_interpolant(np.ascontiguousarray(row), sp)
        out.append(sp.coeffs.copy())
    return out


class OracleSpline:
    """independent periodic interpolating spline (scipy BSpline design matrices + numpy solve); no pygyro spline code"""

    def __init__(self, knots, deg, xg):
        from scipy.interpolate import BSpline
        self.BS, self.t, self.k = BSpline, np.asarray(knots, float), deg
        self.n = len(knots) - 2 * deg - 1           # cells = periodic basis functions
        self.lo, self.hi = self.t[deg], self.t[-deg - 1]
        self.A = self._design(np.asarray(xg, float))

    def _design(self, x):
        x = np.asarray(x, float)
        x = np.where(x >= self.hi, x - (self.hi - self.lo), x)
        D = self.BS.design_matrix(x, self.t, self.k).toarray()
        A = np.zeros((len(x), self.n))
        for j in range(D.shape[1]):
            A[:, j % self.n] += D[:, j]
        return A

    def fit(self, rows):
        self.C = np.linalg.solve(self.A, np.asarray(rows, float).T)      # (n, nrows)
        return self

    def eval(self, row, x):
        return self._design(x) @ self.C[:, row]


def lagrange_exact(nodes, x):
    """Lagrange basis polynomials on `nodes` at `x`, all Fractions (product formula; on a node: the indicator)"""
    out = []
    for j, xj in enumerate(nodes):
        p = F(1)
        for k, xk in enumerate(nodes):
            if k != j:
                p *= (x - xk) / (xj - xk)
        out.append(p)
    return out


def coeff_condition(z, dz, zDist, sh, c):
    """kappa_j (units of eps): first-order bound of the float error of the barycentric coefficient j, caused by the
    cancellation in zPos - zPts (absolute error <= eps*A each) and in the node differences"""
    z, dz, zDist = F(z), F(dz), F(zDist)
    smax = max(abs(s) for s in sh)
    A = 2 * (abs(z) + abs(zDist) + abs(dz) * smax)
    d = [zDist - dz * s for s in sh]
    n = len(sh)
    kap = []
    for j in range(n):
        lam = F(1)
        for k in range(n):
            if k != j:
                lam /= dz * (sh[j] - sh[k])
        t = F(0)
        for k in range(n):
            if k == j:
                continue
            p = F(1)
            for l in range(n):
                if l != j and l != k:
                    p *= abs(d[l])
            t += A * abs(lam) * p
        kap.append(t + abs(c[j]) * ((n - 1) * A / abs(dz) + 20))
    return kap


def fr(x):
    return F(float(x))


def point_sensitivity(kn, theta, shift_mag):
    """1 + |unreduced argument| / (4 h_min): head-room for a re-association of the float expression of an evaluation point
    (<= 2 ulp of the unreduced argument) times the Lipschitz bound 2 max|coef| / h_min of a spline with simple knots"""
    h = min(F(float(b)) - F(float(a)) for a, b in zip(kn[:-1], kn[1:]) if b > a)
    return 1 + (fr(np.abs(theta).max()) + abs(fr(shift_mag))) / (4 * h)


# ----------------------------------------------------------------------------------------------
# case construction

def build(case):
    """real objects for a case dict; returns everything the comparisons need"""
    from pygyro.model.layout import Layout
    from pygyro.advection.advection import FluxSurfaceAdvection
    from pygyro.initialisation.constants import Constants
    rng = np.random.RandomState(case['sub'])
    bs, kn, mknots = theta_space(case['nq'], case['deg'], case['uniform'], rng, case.get('perturb', False))
    theta = bs.greville.copy()
    z = case['z0'] + case['dz'] * np.arange(case['nz'])
    r = np.array(case['r'], float)
    v = np.array(case['v'], float)
    eta = [r, theta, z, v]
    C = Constants()
    C.iotaVal = case['iota']
    if case.get('R0') is not None:
        C.R0 = case['R0']

    def profile(K):
        # a rotational transform that depends on the radius and vanishes exactly on one radial grid line: iota(r) = a (r - r0)
        if case.get('iota_profile'):
            a, r0 = case['iota_profile']
            K.iota = lambda rr=K.rp, a=a, r0=r0: a * (np.asarray(rr, dtype=float) - r0)
    profile(C)
    lay = Layout('flux_surface', list(case['nprocs']), [0, 3, 1, 2], eta, list(case['rank']))
    args = (eta, [bs, None], lay, case['dt'], C)
    if case['nL'] != 6:
        fa = FluxSurfaceAdvection(*args, zDegree=case['nL'] - 1)
    else:
        fa = FluxSurfaceAdvection(*args)
    rs, vs = int(lay.starts[lay.inv_dims_order[0]]), int(lay.starts[lay.inv_dims_order[3]])
    # the operator has been built: its tables are fixed.  The Constants object it was given is changed afterwards (re-used to set up
    # another operator); the reference computations use an untouched copy
    Cref = Constants()
    Cref.iotaVal = case['iota']
    Cref.R0 = C.R0
    profile(Cref)
    if case.get('iota_profile'):
        C.iota = lambda rr=C.rp: np.full_like(np.asarray(rr, dtype=float), 9.9)
    C.iotaVal = -3.3 * (1.0 + abs(case['iota']))
    C.R0 = 0.37 * C.R0
    C = Cref
    return dict(bs=bs, kn=kn, mknots=mknots, theta=theta, z=z, r=r, v=v, C=C, lay=lay, fa=fa, rs=rs, vs=vs,
                nr=int(lay.shape[lay.inv_dims_order[0]]), nv=int(lay.shape[lay.inv_dims_order[3]]), rng=rng)


def code_inputs(case, B, rIdx, cIdx):
    """zDist, dtheta as the code computes them (same numpy operations, same order), from the case's own numbers"""
    C = B['C']
    r = B['r'][B['rs'] + rIdx:B['rs'] + rIdx + 1]
    vv = B['v'][B['vs'] + cIdx]
    dz = B['z'][2] - B['z'][1]
    iota = C.iota(r)
    dtheta = (dz * iota / C.R0)[0]
    bz = (1 / np.sqrt(1 + (r * iota / C.R0) ** 2))[0]
    zDist = -vv * bz * case['dt']
    return float(dz), float(B['z'][1]), float(zDist), float(dtheta), float(bz)


def near_threshold(zDist, dz):
    q = F(zDist) / F(dz)
    fl = q.numerator // q.denominator
    d = min(q - fl, fl + 1 - q)
    return d != 0 and d < F(1, 2 ** 40) * max(1, abs(q))


def exact_case(rng, chk, it):
    nz = rng.randint(7, 12)
    deg, uniform = rng.choice([(3, True), (3, False), (3, True), (5, False), (2, False), (4, False), (1, False)])
    nq = rng.randint(deg + 2, 10)
    dz = rng.choice([1.0, 0.5, 0.25, 0.125, 2.0, 0.75, 1.5])
    dt = rng.choice([1.0, 0.5, 0.25, 2.0])
    hs = [rng.randint(-14, 14) for _ in range(3)] + [rng.choice([-14, -2, 0, 2, 14, 1, -1])]     # half cells
    v = sorted(set(-h * dz / (2 * dt) for h in hs))
    return dict(fam='exact', sub=rng.randrange(1 << 30), nz=nz, nq=nq, deg=deg, uniform=uniform, dz=dz,
                z0=rng.choice([0.0, -1.25, 3.5]), dt=dt, v=v, r=[0.5, 1.0, 2.25], iota=0.0, R0=None,
                nprocs=[1], rank=[0], nL=6)


def near_node_case(rng, chk, it):
    """exact family, feet a tiny dyadic distance (2^-18 .. 2^-34 of a cell) away from a node, on either side: the on-node branch of the
    barycentric weights must NOT be taken, and the floor must fall on the correct side"""
    c = exact_case(rng, chk, it)
    dz, dt = c['dz'], c['dt']
    v = []
    for _ in range(4):
        m = rng.randint(-9, 9)
        delta = rng.choice([1, -1]) * 2.0 ** -rng.randint(18, 34)
        v.append(-(m + delta) * dz / dt)
    c['v'] = sorted(set(v))
    c['near_node'] = True
    return c


def generic_case(rng, chk, it):
    nz = rng.randint(7, 12)
    deg, uniform = rng.choice([(3, True), (3, False), (3, True), (5, False), (2, False), (4, False)])
    nq = rng.randint(deg + 2, 10)
    dz = rng.uniform(0.05, 3.0)
    dt = rng.uniform(0.01, 2.0)
    span = rng.choice([0.6, 3.0, 8.0])
    v = sorted(rng.uniform(-span, span) * dz / dt for _ in range(4))
    r = sorted(rng.uniform(0.1, 14.5) for _ in range(4))
    dist = rng.choice([([1], [0]), ([2], [1]), ([2, 2], [1, 1]), ([1, 2], [0, 1])])
    prof = None
    if it % 4 == 3:
        prof = (rng.choice([0.4, -0.7, 1.3]), r[rng.randrange(4)])
    return dict(fam='generic', iota_profile=prof, sub=rng.randrange(1 << 30), nz=nz, nq=nq, deg=deg, uniform=uniform, dz=dz,
                z0=rng.uniform(-2, 2), dt=dt * rng.choice([1, -1]), v=v, r=r,
                iota=rng.choice([0.8, -0.8, 0.3, 1.7, 25.0]) * rng.uniform(0.5, 1.5),
                R0=rng.choice([None, 10.0, 239.8081535, 3.7]), nprocs=dist[0], rank=dist[1],
                perturb=(not uniform and rng.random() < 0.4), nL=rng.choice([6, 6, 6, 4, 5, 8]))


# ----------------------------------------------------------------------------------------------
# one case: correspondence + oracles

class Guard:
    """an exception raised inside /repo's code on a valid input is a failure of the property, not a harness error"""
    KINDS = (IndexError, ValueError, AssertionError, ZeroDivisionError, FloatingPointError, TypeError, AttributeError, KeyError)

    def __init__(self, chk, sig, what, case):
        self.chk, self.sig, self.what, self.case = chk, sig, what, case
        self.raised = False

    def __enter__(self):
        return self

    def __exit__(self, et, e, tb):
        if et is None or not issubclass(et, self.KINDS):
            return False
        import traceback
        fr_ = traceback.extract_tb(tb)
        if not any('pygyro' in x.filename for x in fr_):
            return False
        self.raised = True
        self.chk.fail(self.sig, '%s raised %s: %s' % (self.what, et.__name__, str(e)[:120]), self.case, expected='a result',
                      actual=['%s:%d' % (x.filename.split('/')[-1], x.lineno) for x in fr_[-3:]])
        return True


def run_case(chk, drv, case, stats):
    with Guard(chk, 'C10:raises', 'constructing FluxSurfaceAdvection or calling step', case):
        return _run_case(chk, drv, case, stats)


def _run_case(chk, drv, case, stats):
    if case['fam'] == 'generic':
        # another operator on the same grid, layout block and dt but with other constants is built first in the same process
        # (a scan over iota / R0): nothing may be shared between operators except what depends on the grid alone
        build(dict(case, iota_profile=None, iota=(0.0 if case['sub'] % 2 else -2.5 * case['iota']), R0=(None if case.get('R0') is not None else 7.0)))
    B = build(case)
    fa, bs, nz, nq, nL = B['fa'], B['bs'], case['nz'], case['nq'], case['nL']
    rng = B['rng']
    rIdx, cIdx = int(rng.randint(B['nr'])), int(rng.randint(B['nv']))
    dz, z1, zDist, dtheta, bz = code_inputs(case, B, rIdx, cIdx)
    tag = dict(case, rIdx=rIdx, cIdx=cIdx)
    if case['fam'] == 'generic' and near_threshold(zDist, dz):
        chk.count('discarded: within 2^-40 of a floor threshold')
        return
    f0 = rng.uniform(-1, 1, size=(nq, nz)) * rng.choice([1.0, 1e3, 1e-3])
    f = f0.copy()
    # the indices of the surface counted from the end in part of the cases (cIdx - nv, rIdx - nr name the same surface)
    neg = case['sub'] % 4
    fa.step(f, cIdx - (B['nv'] if neg in (1, 3) else 0), rIdx - (B['nr'] if neg in (2, 3) else 0))
    tag['indices_from_the_end'] = {0: 'none', 1: 'v', 2: 'r', 3: 'r and v'}[neg]
    if not np.isfinite(f).all():
        chk.fail('C10:nonfinite', 'step produced nan/inf from finite data', tag, actual=int((~np.isfinite(f)).sum()))
        return

    # ---------------- model
    setup = drv.call({'op': 'flux_setup', 'z': common.rat(z1), 'dz': common.rat(dz), 'zDist': common.rat(zDist), 'nL': nL})
    if 'error' in setup:
        raise RuntimeError(setup['error'])
    sh = [int(s) for s in setup['shifts']]
    lc = common.unrats(setup['coeffs'])
    # evaluation points: exactly the numpy expression of general_get_lagrange_vals, with the model's shifts
    pts = [((B['theta'] + np.float64(dtheta) * s) % (2 * np.pi)) for s in sh]
    coefs = real_coefs(bs, [f0[:, i] for i in range(nz)])
    req = {'op': 'flux_step', 'nz': nz, 'nq': nq, 'nL': nL, 'knots': B['mknots'], 'degree': case['deg'],
           'coefs': [common.rats(c) for c in coefs], 'pts': [common.rats(p) for p in pts],
           'shifts': sh, 'lcoeffs': setup['coeffs']}
    mo = drv.call(req)
    if 'error' in mo:
        raise RuntimeError(mo['error'])
    kap = coeff_condition(z1, dz, zDist, sh, lc)
    M = [max(abs(fr(x)) for x in c) for c in coefs]
    worst = F(0)
    bad = None
    sens = [point_sensitivity(B['kn'], B['theta'], np.float64(dtheta) * s) for s in sh]
    for q in range(nq):
        for i in range(nz):
            ex = F(mo['out'][q][i])
            scale = sum((abs(lc[k]) * sens[k] + kap[k] / 64) * M[(i + sh[k]) % nz] for k in range(nL))
            err = abs(fr(f[q, i]) - ex)
            if scale > 0:
                worst = max(worst, err / (F(common.EPS) * scale))
            if not common.close(f[q, i], ex, scale, FACTOR) and bad is None:
                bad = (q, i, float(ex), float(f[q, i]), float(scale))
    stats['worst'] = max(stats['worst'], float(worst))
    if bad is not None:
        chk.diff('FluxSurfaceAdvection.step output', tag, {'q,i,model': bad[:3], 'scale': bad[4]}, bad[3])
    # mechanism agreement (state named by the property; recorded, decides only in the exact family where it is exact)
    # (the table is private state of the operator: if its shape is not the one this harness knows, the comparison is skipped and the
    # outputs alone decide)
    try:
        st_sh = [int(s) for s in fa._shifts[rIdx, cIdx]]
    except (TypeError, IndexError, AttributeError):
        st_sh = None
        chk.count('stencil table not in the known shape: mechanism comparison skipped')
    if st_sh == sh:
        stats['shifts_agree'] += 1
    elif case['fam'] == 'exact' and st_sh is not None:
        chk.diff('stencil shifts (exact family)', tag, sh, st_sh)
    qq = F(zDist) / F(dz)
    if case['iota'] == 0.0 and qq.denominator == 1:
        # contract of flux_exact_shift measured: the model's output is S_row(theta_q) exactly, the data is f0[q, row]
        m_ = int(qq)
        for q in range(nq):
            for i in range(nz):
                row = (i + m_) % nz
                if M[row] > 0:
                    stats['interp'] = max(stats['interp'], float(abs(F(mo['out'][q][i]) - fr(f0[q, row])) / (F(common.EPS) * M[row])))
    if case['fam'] == 'exact':
        # closed form (Props/C10.flux_step_formula) evaluated by the driver must equal the literal loops
        if stats['closed_form_checked'] < 3:
            mo2 = drv.call(dict(req, op='field_sum'))
            if mo2.get('out') != mo['out']:
                chk.diff('model self-check: loops vs closed form', tag)
            stats['closed_form_checked'] += 1

    # ---------------- oracles on the real code (no Lean model below this line)
    ok = oracle_formula(chk, case, B, tag, rIdx, cIdx, f0, f)
    ok &= oracle_identities(chk, case, B, tag, rIdx, cIdx, f0, f)
    q = F(zDist) / F(dz)
    on_node = (q.denominator == 1)
    chk.case(('flux', case['fam'], nz, nq, case['deg'], case['uniform'], nL, str(q) if case['fam'] == 'exact' else case['sub']),
             nontrivial=(zDist != 0),
             sample={'case': tag, 'shifts': sh, 'out00_model': mo['out'][0][0], 'out00_code': float(f[0, 0])})
    chk.count('flux %s: %s' % (case['fam'], 'foot on node' if on_node else 'foot between nodes'))
    chk.count('flux spline deg=%d uniform_flag=%s' % (case['deg'], case['uniform']))
    chk.count('flux displacement cells=%s' % ('<-3' if q < -3 else '>3' if q > 3 else '[-3,3]'))
    return ok


def formula_reference(case, B, rIdx, cIdx, f0):
    """the stated formula, independently: exact (Fraction) stencil + Lagrange weights, scipy periodic spline in theta"""
    nz, nq, nL = case['nz'], case['nq'], case['nL']
    C = B['C']
    r = float(B['r'][B['rs'] + rIdx])
    vv = float(B['v'][B['vs'] + cIdx])
    zg = B['z']
    dz = F(float(zg[1])) - F(float(zg[0]))
    iota = float(np.asarray(C.iota(np.array([r])))[0])
    bz = 1.0 / np.sqrt(1.0 + (r * iota / C.R0) ** 2)
    zDist = -F(vv) * F(float(bz)) * F(float(case['dt']))
    cells = zDist / dz
    b = cells.numerator // cells.denominator
    first = -(nL // 2) + 1 if nL % 2 == 0 else -((nL + 1) // 2) + 1
    sh = [b + first + k for k in range(nL)]
    L = lagrange_exact([F(s) for s in sh], cells)
    osp = OracleSpline(B['kn'], case['deg'], B['theta']).fit([f0[:, i] for i in range(nz)])
    ref = np.zeros((nq, nz))
    scale = np.zeros((nq, nz))
    dth = float(dz) * iota / C.R0
    fmax = np.abs(f0).max(axis=0)
    for k, s in enumerate(sh):
        x = np.mod(B['theta'] + dth * s, 2 * np.pi)
        for i in range(nz):
            row = (i + s) % nz
            ref[:, i] += float(L[k]) * osp.eval(row, x)
            scale[:, i] += abs(float(L[k])) * fmax[row]
    return ref, scale, sh, L, cells


def oracle_formula(chk, case, B, tag, rIdx, cIdx, f0, f):
    ref, scale, sh, L, cells = formula_reference(case, B, rIdx, cIdx, f0)
    amp = 1 + float(abs(cells)) + abs(float(B['z'][1])) / abs(case['dz'])
    tol = 2.0 ** -30 * scale * amp + 1e-300
    d = np.abs(f - ref)
    if not (d <= tol).all():
        q, i = np.unravel_index(np.argmax(d - tol), d.shape)
        chk.fail('C10:formula', 'step differs from the degree-%d Lagrange interpolation, along the field line, of the theta-spline at the foot '
                 '(stencil centred on the foot, periodic wrap)' % (case['nL'] - 1), tag,
                 expected={'q': int(q), 'i': int(i), 'value': float(ref[q, i]), 'stencil': sh, 'weights': [float(x) for x in L]},
                 actual=float(f[q, i]))
        return False
    return True


def oracle_identities(chk, case, B, tag, rIdx, cIdx, f0, f):
    fa, nz, nq, nL = B['fa'], case['nz'], case['nq'], case['nL']
    rng = B['rng']
    ok = True
    _, scale1, sh, L, cells = formula_reference(case, B, rIdx, cIdx, np.ones_like(f0))
    amp = 1 + float(abs(cells)) + abs(float(B['z'][1])) / abs(case['dz'])
    lsum = float(sum(abs(x) for x in L))
    # constants
    cval = float(rng.choice([3.5, -2.0, 1e6, 7e-5]))
    g = np.full((nq, nz), cval)
    fa.step(g, cIdx, rIdx)
    if not (np.abs(g - cval) <= 2.0 ** -40 * abs(cval) * lsum * amp).all():
        chk.fail('C10:constants', 'a constant is not preserved by step', tag, expected=cval,
                 actual=float(g.flat[np.argmax(np.abs(g - cval))]))
        ok = False
    # linearity
    a, b = float(rng.uniform(-2, 2)), float(rng.uniform(-2, 2))
    g0 = rng.uniform(-1, 1, size=(nq, nz))
    h = a * f0 + b * g0
    g1 = g0.copy()
    fa.step(g1, cIdx, rIdx)
    fa.step(h, cIdx, rIdx)
    mx = (abs(a) * np.abs(f0).max() + abs(b)) * lsum * amp
    if not (np.abs(h - (a * f + b * g1)) <= 2.0 ** -36 * mx).all():
        chk.fail('C10:linear', 'step(a f + b g) != a step(f) + b step(g)', tag,
                 actual=float(np.abs(h - (a * f + b * g1)).max()))
        ok = False
    # history-freedom / linearity with zero data: after the steps above (the operator's work arrays are used), the zero
    # field stays zero, and a field with some identically zero z-lines gives what a sum of two steps gives
    z0 = np.zeros((nq, nz))
    fa.step(z0, cIdx, rIdx)
    if z0.any():
        chk.fail('C10:zero-field', 'step(0) on a used operator is not 0', tag, expected=0.0, actual=float(np.abs(z0).max()))
        ok = False
    keep = np.array([rng.random() < 0.4 for _ in range(nz)])
    if keep.any() and not keep.all():
        part = f0 * keep[None, :]
        rest = f0 - part
        p1, p2 = part.copy(), rest.copy()
        fa.step(h.copy(), cIdx, rIdx)              # dirty the work arrays with other data first
        fa.step(p1, cIdx, rIdx)
        fa.step(p2, cIdx, rIdx)
        if not (np.abs((p1 + p2) - f) <= 2.0 ** -36 * np.abs(f0).max() * lsum * amp).all():
            chk.fail('C10:zero-lines', 'step(f with some z-lines zero) + step(the rest) != step(f)', dict(tag, kept_lines=[int(i) for i in np.nonzero(keep)[0]]),
                     actual=float(np.abs((p1 + p2) - f).max()))
            ok = False
    # memory layouts the caller may use: a strided window of a larger array (a plane of a 4-D array in another order), Fortran order
    big = np.full((nq, 2 * nz), 9.75)
    fv = big[:, ::2]
    fv[:] = f0
    fa.step(fv, cIdx, rIdx)
    ff = np.asfortranarray(f0.copy())
    fa.step(ff, cIdx, rIdx)
    if not np.array_equal(fv, f) or not (big[:, 1::2] == 9.75).all() or not np.array_equal(ff, f):
        chk.fail('C10:memory-layout', 'step on a non-contiguous (strided / Fortran-ordered) array does not give what it gives on a C-contiguous copy',
                 tag, actual=[float(np.abs(fv - f).max()), float(np.abs(ff - f).max())])
        ok = False
    # commutation with cyclic shifts in z
    m = int(rng.randint(1, nz))
    fr_ = np.roll(f0, m, axis=1).copy()
    fa.step(fr_, cIdx, rIdx)
    if not (np.abs(fr_ - np.roll(f, m, axis=1)) <= 2.0 ** -44 * np.abs(f0).max() * lsum * amp).all():
        chk.fail('C10:zshift', 'step does not commute with np.roll along z', dict(tag, roll=m),
                 actual=float(np.abs(fr_ - np.roll(f, m, axis=1)).max()))
        ok = False
    # exact circular shift: no twist, whole number of cells
    if case['iota'] == 0.0 and cells.denominator == 1:
        mm = int(cells)
        ref = np.roll(f0, -mm, axis=1)
        if not (np.abs(f - ref) <= 2.0 ** -40 * np.abs(f0).max()).all():
            chk.fail('C10:exact-shift', 'displacement of a whole number of cells without twist is not an exact circular shift',
                     dict(tag, cells=mm), expected='np.roll(f, %d, axis=1)' % (-mm),
                     actual=float(np.abs(f - ref).max()))
            ok = False
        chk.count('oracle exact circular shift m=%s' % ('0' if mm == 0 else 'neg' if mm < 0 else 'pos'))
    return ok


FACTOR = 64.0


def nominal_cases(chk):
    """oracle only: a displacement that is NOMINALLY a whole number n of cells (v*b_z*dt = n*dz with iota = 0) on a z grid whose step is
    not exactly representable (0.1, 0.3, 1/3, 2*pi/nz ...).  In floating point the quotient zDist/dz may round to the integer n while
    zDist is not an exact multiple of dz: whatever the stencil chosen, the foot is within rounding of node n and the result must be
    the circular shift by n cells up to rounding."""
    from pygyro.model.layout import Layout
    from pygyro.advection.advection import FluxSurfaceAdvection
    from pygyro.initialisation.constants import Constants
    rng = chk.rng
    for it in range(chk.n(60, 400)):
        nz = rng.randint(7, 12)
        deg, uniform = rng.choice([(3, True), (3, False), (5, False), (2, False)])
        nq = rng.randint(deg + 2, 9)
        dz = rng.choice([0.1, 0.3, 0.7, 1.0 / 3.0, 2 * math.pi / nz, 1506.7590666130668 / nz, rng.uniform(0.05, 3.0)])
        dt = rng.choice([1.0, 1.0, 0.5, 2.0, 0.1])
        ns = sorted(set(rng.randint(-2 * nz, 2 * nz) for _ in range(4)))
        v = sorted(set(-(n * dz) / dt for n in ns))
        case = dict(fam='nominal', sub=rng.randrange(1 << 30), nz=nz, nq=nq, deg=deg, uniform=uniform, dz=dz, z0=rng.choice([0.0, 0.0, -1.25, dz]),
                    dt=dt, v=v, r=[0.5, 1.0, 2.25], iota=0.0, R0=None, nprocs=[1], rank=[0], nL=6)
        with Guard(chk, 'C10:raises', 'constructing FluxSurfaceAdvection or calling step', case):
            B = build(case)
            fa = B['fa']
            f0 = B['rng'].uniform(-1, 1, size=(nq, nz))
            for cIdx, vv in enumerate(B['v']):
                dz_c, _, zDist, _, _ = code_inputs(case, B, 0, cIdx)
                n = int(round(zDist / dz_c))
                if abs(zDist / dz_c - n) > 1e-9:
                    continue
                f = f0.copy()
                fa.step(f, cIdx, 0)
                ref = np.roll(f0, -n, axis=1)
                err = float(np.abs(f - ref).max())
                if not err <= 1e-9 * (1 + abs(n)):
                    chk.fail('C10:nominal-shift', 'a displacement of (nominally) %d whole cells without twist is not the circular shift by %d cells '
                             '(max difference %.3e; float quotient zDist/dz = %r)' % (n, n, err, zDist / dz_c), dict(case, cIdx=cIdx, cells=n),
                             expected='np.roll(f, %d, axis=1)' % (-n), actual=err)
                chk.case(('nominal', nz, deg, uniform, repr(dz), n), nontrivial=n != 0)
        chk.count('nominal whole-cell displacements on non-representable steps')


def run(chk):
    common.use_repo()
    chk.rule = ('one evaluation = one FluxSurfaceAdvection object + one step(f, cIdx, rIdx) on random data compared entry-wise with the '
                'ℚ model (and 4 further steps for the identities); exact family: dyadic dz, v, dt, iota=0, displacement = h/2 cells, '
                'h in -14..14; generic: random doubles, iota != 0, r/v distributed layouts, nL in {4,5,6,8}; non-trivial = non-zero '
                'displacement; distinct by (family, nz, nq, spline degree/flag, nL, displacement or sub-seed)')
    # Props/C10Gen.lean is about Generated/FluxGen.lean = `flux_advection` as the source says it NOW: regenerate it first
    common.run_translator(chk, 'translate_pure.py', '--only', 'flux')
    # Props/C10Gen2.lean: Generated/LagValsGen.lean = `general_get_lagrange_vals` (the table `flux_advection` contracts)
    common.run_translator(chk, 'translate_pure.py', '--only', 'lagvals')
    chk.proof_side(build=not getattr(chk, 'no_build', False), extra_props=('C10Gen', 'C10Gen2'))
    drv = common.LeanDriver('C10.lean')
    stats = {'worst': 0.0, 'shifts_agree': 0, 'closed_form_checked': 0, 'interp': 0.0}
    rng = chk.rng
    try:
        n_exact, n_gen = chk.n(45, 450), chk.n(45, 450)
        for it in range(n_exact):
            c_ = exact_case(rng, chk, it)
            if it % 8 == 5:
                # an operator for a time step that is exactly zero (a stage of weight 0; an identity used for testing): every surface is
                # left as it is, whatever constants.dt says
                c_['dt'] = 0.0
                c_['v'] = [-1.5, 0.0, 2.0, 7.25]
                chk.count('operators built with dt = 0')
            run_case(chk, drv, c_, stats)
        for it in range(n_gen):
            run_case(chk, drv, generic_case(rng, chk, it), stats)
        for it in range(chk.n(12, 120)):
            run_case(chk, drv, near_node_case(rng, chk, it), stats)
            chk.count('near-node cases')
    finally:
        drv.close()
    nominal_cases(chk)
    chk.notes['max |code - model| / (eps * scale)'] = round(stats['worst'], 3)
    chk.notes['tolerance_factor'] = FACTOR
    chk.notes['interpolation contract: max |S_row(theta_q) - f[q,row]| / (eps * max|coef|)'] = round(stats['interp'], 3)
    chk.notes['mechanism_agreement'] = {'stencil shifts equal to the model': stats['shifts_agree']}
    chk.assumptions = [
        'contract: theta-spline coefficients are taken from the real SplineInterpolator1D on the same rows (interpolation = C08)',
        'contract: zDist = -v*bz*dt, dtheta = dz*iota/R0 and the % (2 pi) reduction are recomputed in numpy with the code\'s own '
        'operation order from the case\'s numbers and handed to the model as exact rationals (sqrt and pi are not modelled)',
        'uniform-cubic spline spaces are compared against the general B-spline model on the knots xmin + k*dx (same function)',
    ]

    def search():
        r2 = __import__('random').Random(chk.seed + 77)
        for it in range(150):
            case = exact_case(r2, chk, it) if it % 2 == 0 else generic_case(r2, chk, it)
            B = build(case)
            rIdx, cIdx = int(B['rng'].randint(B['nr'])), int(B['rng'].randint(B['nv']))
            dz, z1, zDist, dtheta, bz = code_inputs(case, B, rIdx, cIdx)
            if case['fam'] == 'generic' and near_threshold(zDist, dz):
                continue
            f0 = B['rng'].uniform(-1, 1, size=(case['nq'], case['nz']))
            f = f0.copy()
            B['fa'].step(f, cIdx, rIdx)
            before = len(chk.failures)
            tag = dict(case, rIdx=rIdx, cIdx=cIdx)
            if not np.isfinite(f).all():
                return {'signature': 'C10:nonfinite', 'what': 'step produced nan/inf from finite data', 'case': tag}
            oracle_formula(chk, case, B, tag, rIdx, cIdx, f0, f) and oracle_identities(chk, case, B, tag, rIdx, cIdx, f0, f)
            if len(chk.failures) > before:
                return chk.failures.pop(before)
        return None
    return chk.finish(search)
