"""C18 — checkpoints round-trip exactly and a restarted run continues the original one.

proof side     : harness/translate_driver.py regenerates lean/PygyroVerif/Generated/TimeLoop.lean from /repo/fullSimulation.py
                 (+ layout tables of setups.py, file-name formats of grid.py/setups.py); `lake build PygyroVerif.Props.C18`;
                 Props/C18.lean (write_read_roundtrip, padded_lex_order, latest_selected, restart_time_parsed, loop_split,
                 final_state_checkpointed, no_zero_division, pass_is_function_of_f, restart_equals_continue, ...).
correspondence : real HDF5 files through the mpio shim (write with p ranks / read with p' ranks) vs the array-store model;
                 real file names / max(glob) / parsed restart time vs the name model; the real driver's files, final time and
                 number of diagnostic lines vs the generated script executed by the model (Drivers/C17.lean, op `loop`).
oracle         : bitwise equality of what is read with the global array; which checkpoint a restart loads; equality of all
                 constants after print->parse and under key permutations; final checkpoints of split vs unsplit driver runs.
"""
import itertools
import json
import os
import shutil
import subprocess
import sys
import tempfile

import numpy as np

import common

common.use_repo(h5=True)
from mpi4py import MPI  # noqa: E402
import h5py  # noqa: E402
import layout_util as lu  # noqa: E402

LEVEL = 'proof'
STD4 = {'flux_surface': [0, 3, 1, 2], 'v_parallel': [0, 2, 1, 3], 'poloidal': [3, 2, 1, 0]}
GEN = common.LEAN / 'PygyroVerif' / 'Generated'


# ------------------------------------------------------------------------------------------------
# proof side

def regenerate(chk):
    """run the translator (stdlib only) on the repo under test, then build Props/C18 (not part of the library root)"""
    p = subprocess.run([sys.executable, str(common.VERIF / 'harness' / 'translate_driver.py'), '--repo', str(common.REPO),
                        '--out', common.generated_dir(chk)], capture_output=True, text=True)
    chk.notes['translator'] = (p.stdout + p.stderr).strip()[-400:]
    if p.returncode != 0:
        chk.proof_broken.append({'theorem': 'translator (fullSimulation.py has a shape the translator does not recognise)',
                                 'log': (p.stdout + p.stderr)[-1500:]})
        return None
    if not getattr(chk, 'no_build', False):
        b = subprocess.run(['lake', 'build', 'PygyroVerif.Props.C18'], cwd=common.LEAN, capture_output=True, text=True)
        if b.returncode != 0:
            chk.proof_broken.append({'theorem': 'lake build PygyroVerif.Props.C18 (theorems about the generated driver script)',
                                     'log': (b.stdout + b.stderr)[-3000:]})
    return json.load(open(os.path.join(common.generated_dir(chk), 'TimeLoop.json')))


# ------------------------------------------------------------------------------------------------
# A. HDF5 round trip, write with p ranks / read with p' ranks

def proc_grids(max_ranks):
    return [(a, b) for a in range(1, max_ranks + 1) for b in range(1, max_ranks + 1) if a * b <= max_ranks]


def special_floats(rs, shape, cplx):
    a = rs.normal(size=shape) * np.exp(rs.uniform(-30, 30, size=shape))
    flat = a.ravel()
    k = min(len(flat), 6)
    flat[:k] = [-0.0, np.inf, -np.inf, 5e-324, 1.7976931348623157e308, np.nan][:k]     # bit patterns that survive only an exact copy
    rs.shuffle(flat)
    a = flat.reshape(shape)
    if cplx:
        return a + 1j * rs.normal(size=shape)
    return a


def write_with(folder, P, lays, name, eta, Gphys, t, conv, dtype):
    """the real Grid.writeH5Dataset on prod(P) simulated ranks; Gphys is indexed physically"""
    from pygyro.model.layout import getLayoutHandler
    from pygyro.model.grid import Grid
    nd = Gphys.ndim

    def body():
        comm = MPI.COMM_WORLD
        h = getLayoutHandler(comm, lays, list(P), eta)
        g = Grid(eta, [None] * nd, h, name, comm, dtype=dtype)
        g.getAllData()[:] = lu.expected_block(Gphys, g.getLayout(name))
        g.writeH5Dataset(folder, t, conv)
        return True
    return lu.run_ranks(int(np.prod(P)), body)


def read_with(folder, P, lays, name, eta, nd, t, conv, dtype):
    from pygyro.model.layout import getLayoutHandler
    from pygyro.model.grid import Grid

    def body():
        comm = MPI.COMM_WORLD
        h = getLayoutHandler(comm, lays, list(P), eta)
        g = Grid(eta, [None] * nd, h, name, comm, dtype=dtype)
        g.getAllData()[:] = -777.0
        g.loadFromFile(folder, t, conv)
        L = g.getLayout(name)
        out = {'blk': np.array(g.getAllData(), copy=True), 'starts': [int(x) for x in L.starts], 'ends': [int(x) for x in L.ends],
               'coords': [[int(x) for x in L.mpi_starts(k)].index(int(L.starts[k])) for k in range(nd)]}
        # the loaded field must be the grid's field, not only what getAllData() shows right after the load: change layout and back
        others = [n for n in lays if n != name]
        if others:
            g.setLayout(others[0])
            g.setLayout(name)
            out['after_layout_change'] = np.array(g.getAllData(), copy=True)
        return out
    return lu.run_ranks(int(np.prod(P)), body)


def same_bits(a, b):
    a, b = np.ascontiguousarray(a), np.ascontiguousarray(b)
    return a.shape == b.shape and a.dtype == b.dtype and a.tobytes() == b.tobytes()


def roundtrip_cases(chk, drv, work):
    rng = chk.rng
    grids = proc_grids(chk.n(4, 8))
    n_cases = chk.n(24, 120)
    for it in range(n_cases):
        nd = rng.choice([4, 4, 3])
        PW, PR = rng.choice(grids), rng.choice(grids)
        if it % 4 == 0:
            PR = PW                                             # same partition (the only case upstream tests)
        m = max(PW + PR)
        npts = [rng.choice([m, m + 1, rng.randint(m, max(m, 6))]) for _ in range(nd)]
        if nd == 4:
            lays = dict(STD4)
        else:
            lays = {'v_parallel_2d': [0, 2, 1], 'mode_solve': [1, 2, 0]}
        name = rng.choice(sorted(lays))
        ord_ = lays[name]
        cplx = nd == 3 and rng.random() < 0.7
        dtype = np.complex128 if cplx else float
        eta = lu.eta_grids(npts)
        rs = np.random.RandomState(rng.randrange(1 << 31))
        exact_payload = it % 2 == 0
        if exact_payload:
            # payload = flat offset in the stored (layout) axis order: the model can name every element
            stored_shape = [npts[d] for d in ord_]
            Gst = np.arange(int(np.prod(stored_shape)), dtype=float).reshape(stored_shape)
            if cplx:
                Gst = Gst + 1j * (Gst + 0.5)
            Gphys = np.transpose(Gst, np.argsort(ord_))
        else:
            Gphys = special_floats(rs, npts, cplx)
        t = rng.choice([0, 7, 123, 40000, 999999])
        conv = rng.choice(['grid', 'phi'])
        folder = os.path.join(work, 'rt%d' % it)
        os.mkdir(folder)
        case = {'nd': nd, 'npts': npts, 'layout': name, 'order': ord_, 'P_write': list(PW), 'P_read': list(PR), 'complex': cplx, 't': t}
        w = write_with(folder, PW, lays, name, eta, Gphys, t, conv, dtype)
        if not w.ok:
            chk.fail('C18:write-crash', 'Grid.writeH5Dataset raised: ' + str(w.first_error())[:200], case)
            continue
        # the file itself: global array in the recorded layout, layout attribute
        fn = os.path.join(folder, '%s_%06d.h5' % (conv, t))
        if sorted(os.listdir(folder)) != [os.path.basename(fn)]:
            chk.fail('C18:file-name', 'checkpoint not written under {folder}/{name}_{time:06}.h5', case, expected=os.path.basename(fn),
                     actual=sorted(os.listdir(folder)))
            continue
        f = h5py.File(fn, 'r')
        dset, lay_attr = np.array(f['/dset']), [int(x) for x in f['/dset'].attrs['Layout']]
        f.close()
        want = np.transpose(Gphys, ord_)
        if not same_bits(dset, np.ascontiguousarray(want).astype(dset.dtype)) or lay_attr != list(ord_):
            chk.fail('C18:file-content', 'the dataset is not the global field in the recorded layout (or wrong Layout attribute)', case,
                     expected={'layout': ord_}, actual={'layout': lay_attr, 'equal': bool(np.array_equal(dset, want))})
            continue
        req = rng.choice([t, None])
        if t < 999999 and rng.random() < 0.6:
            # a later checkpoint with other values in the same folder: an explicitly requested time (t = 0 included) must still be the one loaded
            w2 = write_with(folder, PW, lays, name, eta, Gphys * 2 + 1, t + rng.choice([1, 5, 1000]), conv, dtype)
            if not w2.ok:
                chk.fail('C18:write-crash', 'Grid.writeH5Dataset raised: ' + str(w2.first_error())[:200], case)
                continue
            req = t
            case = dict(case, later_checkpoint_present=True, requested_time=t)
        r = read_with(folder, PR, lays, name, eta, nd, req, conv, dtype)
        if not r.ok:
            chk.fail('C18:read-crash', 'Grid.loadFromFile raised: ' + str(r.first_error())[:200], case)
            continue
        rv = r.values()
        for ri, o in enumerate(rv):
            sl = tuple(slice(s, e) for s, e in zip(o['starts'], o['ends']))
            if not same_bits(o['blk'], np.ascontiguousarray(want[sl]).astype(o['blk'].dtype)):
                chk.fail('C18:roundtrip', 'a process does not get back, bit for bit, its block of the written global field', dict(case, rank=ri))
                break
            if 'after_layout_change' in o and not same_bits(o['after_layout_change'], np.ascontiguousarray(want[sl]).astype(o['blk'].dtype)):
                chk.fail('C18:load-not-in-grid-memory', 'after loadFromFile, a layout change and back does not show the loaded field '
                         '(the load did not go into the grid\'s own memory)', dict(case, rank=ri))
                break
        if exact_payload:
            dimsW = [[npts[ord_[k]], (list(PW) + [1] * nd)[k]] for k in range(nd)]
            dimsR = [[npts[ord_[k]], (list(PR) + [1] * nd)[k]] for k in range(nd)]
            order = [list(c) for c in itertools.product(*[range(p) for _, p in dimsW])]
            rng.shuffle(order)
            mo = drv.call({'op': 'roundtrip', 'dimsW': dimsW, 'dimsR': dimsR, 'order': order, 'readers': [o['coords'] for o in rv]})
            if 'error' in mo:
                raise RuntimeError(mo['error'])
            for ri, o in enumerate(rv):
                got = [int(x) for x in np.real(o['blk']).ravel()]
                if mo['blocks'][ri] != got or mo['shapes'][ri] != list(o['blk'].shape):
                    chk.diff('block read back', dict(case, rank=ri), mo['blocks'][ri][:12], got[:12])
        chk.count('roundtrip p=%d -> p\'=%d' % (int(np.prod(PW)), int(np.prod(PR))) if chk.quick() is False else
                  'roundtrip %s ranks' % ('same' if PW == PR else 'different'))
        chk.case(('rt', nd, tuple(npts), name, PW, PR, cplx), nontrivial=PW != PR and max(PW + PR) > 1,
                 sample=case if it == 1 else None)


# ------------------------------------------------------------------------------------------------
# B. which checkpoint is loaded, restart time; names

def write_constants(path, npts, dt=2, **kw):
    d = {"npts": list(npts), "dt": dt, "iotaVal": 0.0, "m": 2, "n": 1, "eps": 1e-3}
    d.update(kw)
    json.dump(d, open(path, 'w'))


def latest_cases(chk, drv, work):
    from pygyro.initialisation.setups import setupFromFile, setupCylindricalGrid
    from pygyro.utilities.savingTools import setupSave
    rng = chk.rng
    for it in range(chk.n(6, 16)):
        folder = os.path.join(work, 'lat_%d' % it)          # underscore and dot in the folder name on purpose
        # also characters that mean something to glob (every position of the list is used in turn: no draw decides whether a class occurs)
        folder = folder + ['[1]', '', '_grid_8x8x4', '_[a-c]x', '_v1.5', '.grid_16', '_run*2', '.d_x', '_q?'][it % 9]
        if rng.random() < 0.3 or it % 4 == 2:
            # a parent directory whose name looks like a checkpoint name
            folder = os.path.join(work, 'scan_grid_%d' % rng.choice([3, 16, 250]), os.path.basename(folder))
            os.makedirs(os.path.dirname(folder), exist_ok=True)
        npts = [rng.randint(4, 6) for _ in range(4)]
        PW = rng.choice(proc_grids(4))
        PR_n = rng.choice([1, 2, 3, 4])
        npts = [max(n, 4) for n in npts]
        if it % 2 == 1:
            npts = [npts[0]] * 4
        times = sorted(set(rng.choice([rng.randrange(10 ** k, 10 ** (k + 1)) for k in range(7)] + [0, 9, 10, 99999, 100000, 999999, 1000000, 10000001])
                           for _ in range(rng.randint(2, 6) if it % 3 else 1)))      # every third folder holds ONE checkpoint
        if len(times) == 1 and times[0] == 0:
            times = [rng.choice([7, 120, 4500])]
        rng.shuffle(times)
        if it % 2 == 0 and len(times) > 1 and times[-1] == max(times):
            times[0], times[-1] = times[-1], times[0]      # the newest checkpoint (largest time) is NOT the file written last
        want_time = rng.choice([None, None, rng.choice(times)])
        if it % 3 == 1 and len(times) > 1:
            want_time = rng.choice(sorted(times)[:-1])           # an explicit time point that is NOT the newest checkpoint
        if it % 9 in (0, 2, 3, 5):
            # folder names with [ ] or that look like checkpoint names: the restart looks for the latest checkpoint itself
            want_time = None
        layname = rng.choice(sorted(STD4))
        base = np.random.RandomState(it).normal(size=npts)
        cfile = os.path.join(work, 'c_%d.json' % it)
        # every fourth folder: the file gives rp (the peak of the profiles) away from the middle of the radial domain (finding F25)
        file_kw = {'rp': [4.25, 9.5][it // 4 % 2]} if it % 4 == 2 else {}
        write_constants(cfile, npts, **file_kw)
        # (times of more than six digits included: the names are then no longer ordered like the times; finding F10, repaired)
        # documented keyword overrides of the set-up (the radial / velocity domain): what the run used is what the parameter file must
        # give back at the restart
        over = rng.choice([{}, {}, {'rMin': 1.0, 'rMax': 9.0}, {'rMax': 11.5}, {'vMax': 6.0}, {'rMin': 0.5, 'vMax': 8.25}])
        if it % 4 == 0:
            over = [{'rp': 5.0}, {'rMin': 1.0, 'rMax': 9.0, 'rp': 3.5}, {'rp': 10.25, 'vMax': 6.0}][it // 4 % 3]
        elif it % 4 == 2:
            over = [{}, {'vMax': 6.0}][it // 8 % 2]
        attrs_w = {}
        stale_params = it % 3 == 1
        aux_times = sorted({max(times) + 7, min(times) + 1, rng.choice(times) + 3, 5} - set(times))

        def prepare():
            comm = MPI.COMM_WORLD
            # the folder and initParams.json are made by the real setupSave from a real Constants object
            if stale_params:
                # the folder was used before by a run with other constants: its parameter file must be replaced
                g0, c0, _ = setupCylindricalGrid(constantFile=cfile, layout=layname, comm=comm, eps=0.5, m=3, n=2)
                setupSave(c0, folder, comm)
            grid, constants, t0 = setupCylindricalGrid(constantFile=cfile, layout=layname, comm=comm, allocateSaveMemory=True, **over)
            setupSave(constants, folder, comm)
            attrs_w[comm.Get_rank()] = public_attrs(constants)
            for t in times:
                grid.getAllData()[:] = lu.expected_block(base + t, grid.getLayout(layname))
                grid.writeH5Dataset(folder, t)
            # a second family of checkpoints in the same folder under another name, some of them newer than every grid_* file
            for t in aux_times:
                grid.getAllData()[:] = lu.expected_block(2 * base - t, grid.getLayout(layname))
                grid.writeH5Dataset(folder, t, 'aux')
            return [[float(y) for y in x] for x in grid.eta_grid]
        # process grid is chosen by the code itself here (compute_2d_process_grid)
        w = lu.run_ranks(int(np.prod(PW)), prepare)
        case = {'npts': npts, 'times': times, 'requested': want_time, 'ranks_write': int(np.prod(PW)), 'ranks_read': PR_n,
                'layout': layname, 'folder': os.path.relpath(folder, work), 'keyword_overrides': over}
        if not w.ok:
            chk.fail('C18:prepare-crash', 'setupCylindricalGrid/setupSave/writeH5Dataset raised: ' + str(w.first_error())[:200], case)
            continue

        def restart():
            comm = MPI.COMM_WORLD
            kw = {} if want_time is None else {'timepoint': want_time}
            grid, constants, t = setupFromFile(folder, comm=comm, allocateSaveMemory=True, layout='v_parallel', **kw)
            L = grid.getLayout(grid.currentLayout)
            out = {'t': t, 'layout': grid.currentLayout, 'blk': np.array(grid.getAllData(), copy=True),
                   'eta': [[float(y) for y in x] for x in grid.eta_grid],
                   'starts': [int(x) for x in L.starts], 'ends': [int(x) for x in L.ends], 'constants': public_attrs(constants)}
            # the latest checkpoint of the OTHER family, by name (loadFromFile wants the grid in the layout of the file)
            grid.setLayout(layname)
            grid.loadFromFile(folder, None, 'aux')
            L = grid.getLayout(grid.currentLayout)
            out['aux'] = (np.array(grid.getAllData(), copy=True), tuple(L.dims_order), [int(x) for x in L.starts], [int(x) for x in L.ends])
            # a grid that is NOT in the recorded layout asks for the file: refused, or (if accepted) the block of the global field in
            # the grid's own layout - never the other layout's data under this layout's name
            other = [n for n in sorted(STD4) if n != layname][it % 2]
            grid.setLayout(other)
            L = grid.getLayout(other)
            # the loaded field is the grid's field from now on: a layout change after the load moves IT
            out['aux_moved'] = (other, np.array(grid.getAllData(), copy=True), tuple(L.dims_order), [int(x) for x in L.starts], [int(x) for x in L.ends])
            try:
                grid.loadFromFile(folder, max(times))
                out['wrong_layout'] = (other, np.array(grid.getAllData(), copy=True), tuple(L.dims_order), [int(x) for x in L.starts], [int(x) for x in L.ends])
            except Exception as e:  # noqa: BLE001
                out['wrong_layout'] = (other, type(e).__name__)
            return out
        r = lu.run_ranks(PR_n, restart)
        if not r.ok:
            chk.fail('C18:restart-crash', 'setupFromFile raised: ' + str(r.first_error())[:200], case)
            continue
        exp_t = max(times) if want_time is None else want_time
        want = np.transpose(base + exp_t, STD4['v_parallel'])
        eta_w = w.values()[0]
        for ri, o in enumerate(r.values()):
            if o['eta'] != eta_w:
                bad_ax = [i for i in range(4) if o['eta'][i] != eta_w[i]]
                chk.fail('C18:restart-grid', 'the restarted run lives on other grid points than the run that wrote the checkpoint (axes %s)' % bad_ax,
                         dict(case, rank=ri), expected={'first_last': [[e[0], e[-1]] for e in eta_w]}, actual={'first_last': [[e[0], e[-1]] for e in o['eta']]})
                break
        cw = attrs_w.get(0)
        # what the first run used: the keyword overrides, then the numbers of the file, (rp: the middle of the domain when not given)
        if cw:
            given = dict(json.load(open(cfile)), **over)
            exp_c = dict(given)
            exp_c.setdefault('rp', 0.5 * (given.get('rMin', 0.1) + given.get('rMax', 14.5)))
            badc = sorted(k for k, v in exp_c.items() if k in cw and cw[k] != v)
            if badc:
                chk.fail('C18:setup-constants', 'setupCylindricalGrid does not use the constants of the parameter file / the keyword overrides: %s' % (
                    ', '.join('%s: %r, used %r' % (k, exp_c[k], cw[k]) for k in badc)), dict(case, file=file_kw))
        for ri, o in enumerate(r.values()):
            bad = [k for k in cw if k in o['constants'] and repr(o['constants'][k]) != repr(cw[k])] if cw else []
            if bad:
                chk.fail('C18:restart-constants', 'the constants of the restarted run differ from those the first run used and saved: %s' % (
                    ', '.join('%s %r -> %r' % (k, cw[k], o['constants'][k]) for k in bad[:4])), dict(case, rank=ri, overrides=over))
                break
        for ri, o in enumerate(r.values()):
            sl = tuple(slice(s, e) for s, e in zip(o['starts'], o['ends']))
            if o['t'] != exp_t or o['layout'] != 'v_parallel' or not same_bits(o['blk'], np.ascontiguousarray(want[sl])):
                loaded = None
                for t in times:
                    if np.array_equal(o['blk'], np.transpose(base + t, STD4['v_parallel'])[sl]):
                        loaded = t
                chk.fail('C18:latest', 'the restart does not resume from the checkpoint with the largest (or the requested) time, bit for bit',
                         dict(case, rank=ri), expected={'t': exp_t}, actual={'t': o['t'], 'content_of_time': loaded, 'layout': o['layout']})
                break
        for ri, o in enumerate(r.values()):
            blk, order, st, en = o['aux']
            wa = np.transpose(2 * base - max(aux_times), order)[tuple(slice(a, b) for a, b in zip(st, en))]
            if not same_bits(blk, np.ascontiguousarray(wa)):
                chk.fail('C18:latest-by-name', 'loadFromFile(folder, None, "aux") does not load the latest checkpoint of that name',
                         dict(case, rank=ri, aux_times=aux_times))
                break
        for ri, o in enumerate(r.values()):
            other, blk, order, st, en = o['aux_moved']
            wa = np.transpose(2 * base - max(aux_times), order)[tuple(slice(a, b) for a, b in zip(st, en))]
            if blk.shape != wa.shape or not same_bits(blk, np.ascontiguousarray(wa)):
                chk.fail('C18:load-then-move', 'after loadFromFile and a layout change (to %s) the grid does not hold the loaded field' % other,
                         dict(case, rank=ri, aux_times=aux_times))
                break
        for ri, o in enumerate(r.values()):
            wl = o['wrong_layout']
            if len(wl) > 2:
                other, blk, order, st, en = wl
                wa = np.transpose(base + max(times), order)[tuple(slice(a, b) for a, b in zip(st, en))]
                if blk.shape != wa.shape or not same_bits(blk, np.ascontiguousarray(wa)):
                    chk.fail('C18:load-other-layout', 'loadFromFile into a grid in layout %s accepted a checkpoint recorded in layout %s and left data that '
                             'is not the global field in the grid\'s layout' % (other, layname), dict(case, rank=ri, grid_layout=other))
                    break
        # correspondence: names and latest
        mo = drv.call({'op': 'names', 'folder': folder, 'conv': 'grid', 'times': times})
        real = sorted(x for x in os.listdir(folder) if x.startswith('grid_'))
        if sorted(os.path.basename(n) for n in mo['names']) != real:
            chk.diff('checkpoint names', case, mo['names'], real)
        if want_time is None and mo['time'] != r.values()[0]['t']:
            chk.diff('restart time', case, mo['time'], r.values()[0]['t'])
        chk.count('latest: %d checkpoints, %s' % (len(times), 'requested time' if want_time is not None else 'max'))
        chk.case(('latest', tuple(sorted(times)), want_time, PR_n), nontrivial=len(set(len(str(t)) for t in times)) > 1,
                 sample=dict(case, resumed_at=r.values()[0]['t']) if it == 0 else None)
    # names alone: the real format vs the model, incl. the 7-digit observation (F10)
    ts = [0, 1, 9, 10, 99, 100, 12345, 99999, 100000, 999999, 1000000, 1000001, 12345678] + [rng.randrange(10 ** 7) for _ in range(chk.n(20, 200))]
    mo = drv.call({'op': 'names', 'folder': 'a_b.c/d', 'conv': 'grid', 'times': ts})
    real = ["{0}/{1}_{2:06}.h5".format('a_b.c/d', 'grid', t) for t in ts]
    if mo['names'] != real:
        chk.diff('"{:06}" names', {'times': ts[:13]}, mo['names'][:13], real[:13])
    newest = max(real, key=lambda f: int(f.split('_')[-1].split('.')[0]))
    if mo['latest'] != newest or mo['time'] != max(ts):
        chk.diff('latest name / parsed time', {'n': len(ts)}, [mo['latest'], mo['time']], [newest, max(ts)])
    chk.evaluations += len(ts)
    six = [t for t in ts if t < 10 ** 6]
    if max("%06d" % t for t in six) != "%06d" % max(six):
        chk.fail('C18:lex-order', 'lexicographic order of %06d names differs from numeric order below 10^6', {'times': six[:20]})
    chk.notes['F10'] = ('"%06d" % 1000000 < "%06d" % 999999 is ' + str("%06d" % 1000000 < "%06d" % 999999) +
                        ': beyond six digits the lexicographic maximum is not the newest checkpoint; the code selects by parsed time since the fix')


# ------------------------------------------------------------------------------------------------
# C. the parameter file

def fresh_folder_cases(chk, work, drv=None):
    """a run that lets setupSave choose its folder gets a folder of its own: one that did not exist before, whatever simulation_* entries
    (with gaps in the numbering, files of that name, checkpoints of older runs) the working directory holds - else a later restart
    continues a FOREIGN run from a foreign time"""
    from pygyro.initialisation.constants import Constants
    from pygyro.utilities.savingTools import setupSave
    rng = chk.rng
    cwd = os.getcwd()
    for it in range(chk.n(4, 12)):
        wd = os.path.join(work, 'cwd%d' % it)
        os.makedirs(wd)
        existing = [[0, 2], [1], [0, 1, 3], [2, 5], [0, 1, 2], []][it % 6]
        for k in existing:
            os.makedirs(os.path.join(wd, 'simulation_%d' % k))
            open(os.path.join(wd, 'simulation_%d' % k, 'grid_000100.h5'), 'w').close()
        if it % 3 == 1:
            open(os.path.join(wd, 'simulation_notes.txt'), 'w').close()          # a FILE whose name matches simulation_*
        before = set(os.listdir(wd))
        nranks = [1, 2, 3][it % 3]
        root = rng.randrange(nranks)
        os.chdir(wd)
        try:
            res = lu.run_ranks(nranks, lambda: setupSave(Constants(), None, MPI.COMM_WORLD, root))
        finally:
            os.chdir(cwd)
        case = {'existing_entries': sorted(before), 'nranks': nranks, 'root': root}
        if not res.ok:
            chk.fail('C18:setupSave-crash', 'setupSave(constants, None, comm, root) raised: ' + str(res.first_error())[:200], case)
            continue
        names = set(res.values())
        if len(names) != 1:
            chk.fail('C18:fresh-folder', 'the processes disagree on the folder of the run: %s' % sorted(names), case)
            continue
        f = names.pop()
        if os.path.basename(f.rstrip('/')) in before or not os.path.isfile(os.path.join(wd, f, 'initParams.json')) \
           or os.listdir(os.path.join(wd, f)) != ['initParams.json']:
            chk.fail('C18:fresh-folder', 'setupSave without a folder name did not give the run a new folder of its own (it returned %r; it holds %s)'
                     % (f, sorted(os.listdir(os.path.join(wd, f))) if os.path.isdir(os.path.join(wd, f)) else 'nothing'), case)
        if drv is not None:
            mo = drv.call({'op': 'first_free', 'existing': existing})
            if 'simulation_%s' % mo['index'] != os.path.basename(f.rstrip('/')):
                chk.diff('folder chosen by setupSave', case, 'simulation_%s' % mo['index'], f)
        chk.count('fresh folder chosen by setupSave')
        chk.case(('fresh', tuple(sorted(before)), nranks), nontrivial=bool(existing))


def public_attrs(c):
    out = {}
    for k in dir(c):
        v = getattr(c, k)
        if not callable(v) and k[0] != '_':
            out[k] = v
    return out


SYMBOLIC = {
    "B0": 1.0, "R0": 239.8081535, "rMin": 0.1, "rMax": 14.5, "zMin": 0.0, "zMax": "R0*2*pi", "vMax": 7.32, "vMin": "-vMax",
    "eps": 1e-6, "eps0": 8.854187817e-12, "kN0": 0.055, "kTi": 0.27586, "kTe": "kTi", "deltaRTi": 1.45, "deltaRTe": "deltaRTi",
    "deltaRN0": "2.0*deltaRTe", "deltaR": "4.0*deltaRN0/deltaRTi", "CTi": 1.0, "CTe": "CTi", "m": 15, "n": -11, "iotaVal": 0.8,
    "npts": [8, 8, 8, 8], "splineDegrees": [3, 3, 3, 3], "dt": 2}
RP_DEPS = {"rMin+4.5": ["rMin"], "rMax-deltaRTi": ["rMax", "deltaRTi"], "0.25*(rMin+rMax)": ["rMin", "rMax"]}
DEPS = {"zMax": ["R0"], "vMin": ["vMax"], "kTe": ["kTi"], "deltaRTe": ["deltaRTi"], "deltaRN0": ["deltaRTe"],
        "deltaR": ["deltaRN0", "deltaRTi"], "CTe": ["CTi"]}


def rp_setter_cases(chk, drv, fn):
    """the setters of rMin / rMax (which move rp), set_defaults and an rp given in the file: the real parser against
    Model/Checkpoint.lean getConstantsRp (values scaled by 16000 so that the model computes in integers)"""
    from fractions import Fraction
    from pygyro.initialisation.constants import get_constants
    from pygyro.initialisation.default_constants import defaults
    rng = chk.rng
    S = 16000
    dfl = [[k, int(round(v * S))] for k, v in defaults.items() if k in ('rMin', 'rMax', 'kN0', 'deltaRTi') and abs(v * S - round(v * S)) < 1e-9]
    exprs = {'rMin+4.5': (['rMin'], 4.5), 'rMin+rMax': (['rMin', 'rMax'], 0.0), 'deltaRTi+rMin+0.5': (['deltaRTi', 'rMin'], 0.5),
             'rp+0.5': (['rp'], 0.5), 'rp+rp': (['rp', 'rp'], 0.0), 'rp+deltaRTi': (['rp', 'deltaRTi'], 0.0)}       # the model's expressions are sums
    rp_exprs = [e for e in exprs if not e.startswith('rp')]
    for it in range(chk.n(60, 600)):
        items = []
        ends = [('both', 'both', 'rMin', 'rMax', 'none')[it % 5]][0]
        if ends in ('both', 'rMin'):
            items.append(('rMin', rng.choice([0.125, 0.5, 1.0, 2.25])))
        if ends in ('both', 'rMax'):
            items.append(('rMax', rng.choice([8.0, 9.5, 12.75, 20.0])))
        kind = ('number', 'absent', 'expr', 'number')[it // 5 % 4]
        if kind == 'number':
            items.append(('rp', rng.choice([3.25, 5.0, 6.5, 11.0])))
        elif kind == 'expr':
            ok = [e for e in rp_exprs if all(x in dict(items) or x == 'deltaRTi' for x in exprs[e][0])]
            if ok:
                items.append(('rp', rng.choice(ok)))
        items.append(('deltaRTi', rng.choice([1.5, 2.0])))
        if rng.random() < 0.5:
            items.append(('kN0', rng.choice([0.0625, 0.125])))
        reads_rp = None
        if it % 3 == 1 and (kind != 'absent' or ends == 'both'):
            # another constant given by an expression that READS rp (finding F29): it sees the rp of the file (or, without one, the
            # middle of the domain), never a transient value
            reads_rp = ('deltaRN0', rng.choice(['rp+0.5', 'rp+rp', 'rp+deltaRTi']))
            items.append(reads_rp)
        items.append(('npts', [8, 8, 8, 8]))
        rng.shuffle(items)
        json.dump(dict(items), open(fn, 'w'))
        try:
            c = get_constants(fn)
            real = {k: getattr(c, k) for k in ('rMin', 'rMax', 'rp', 'deltaRTi', 'kN0') + (('deltaRN0',) if reads_rp else ())}
        except AssertionError:
            real = None
        data = []
        for k, v in items:
            if k == 'npts':
                continue
            if isinstance(v, str):
                data.append([k, exprs[v][0], int(exprs[v][1] * S)])
            else:
                data.append([k, None, int(v * S)])
        mo = drv.call({'op': 'constants_rp', 'data': data, 'defaults': dfl})
        case = {'file_order': [k for k, _ in items], 'file': {k: v for k, v in items if k != 'npts'}}
        fixed = mo['fixed']
        if (real is None) != (fixed is None):
            chk.diff('get_constants refuses / accepts unlike the model with the setters', case, fixed, real)
            continue
        if real is not None:
            bad = sorted(k for k in real if fixed.get(k) is None or abs(Fraction(real[k]) - Fraction(fixed[k], S)) > Fraction(1, 10 ** 12))
            if bad:
                # which side is right: the property says what the file gives is what the constants are
                given = {k: v for k, v in items if not isinstance(v, str) and k in real}
                wrong = sorted(k for k in given if real[k] != given[k])
                if wrong:
                    chk.fail('C18:constants-value', 'a constant given as a number in the parameter file is not reproduced by the parser (%s)' % (
                        ', '.join('%s: file %r, parser %r' % (k, given[k], real[k]) for k in wrong)), case)
                else:
                    chk.diff('constants with the setters of rMin / rMax', case, {k: fixed.get(k) for k in bad}, {k: real[k] for k in bad})
            # oracle without the model: rp is what the file says, else the middle of the domain
            d = dict(items)
            if isinstance(d.get('rp'), str):
                deps, cst = exprs[d['rp']]
                exp_rp = sum(real[x] for x in deps) + cst
            elif 'rp' in d:
                exp_rp = d['rp']
            else:
                exp_rp = 0.5 * (real['rMin'] + real['rMax'])
            if real['rp'] != exp_rp:
                chk.fail('C18:constants-rp', 'rp is not what the parameter file gives (or, without rp in the file, the middle of the domain)',
                         case, expected=exp_rp, actual=real['rp'])
            elif reads_rp:
                deps, cst = exprs[reads_rp[1]]
                exp_v = sum(real[x] for x in deps) + cst
                if real['deltaRN0'] != exp_v:
                    chk.fail('C18:constants-expr', 'an expression of the parameter file that reads rp (%s) was not evaluated with the rp of the '
                             'constants' % reads_rp[1], case, expected=exp_v, actual=real['deltaRN0'])
        chk.count('constants with setters: ends %s, rp %s' % (ends, kind))
        chk.case(('rp', tuple(k for k, _ in items), kind), nontrivial=True, sample=dict(case, rp=real and real['rp']) if it == 0 else None)


def constants_cases(chk, drv, work):
    from pygyro.initialisation.constants import get_constants, Constants
    from pygyro.utilities.savingTools import setupSave
    rng = chk.rng
    base_items = list(SYMBOLIC.items())
    fn = os.path.join(work, 'sym.json')
    json.dump(dict(base_items), open(fn, 'w'))
    ref = public_attrs(get_constants(fn))
    # oracle for the symbolic values: plain Python arithmetic
    import math
    exp = {"zMax": 239.8081535 * 2 * math.pi, "vMin": -7.32, "kTe": 0.27586, "deltaRTe": 1.45, "deltaRN0": 2.0 * 1.45,
           "deltaR": 4.0 * (2.0 * 1.45) / 1.45, "CTe": 1.0}
    for k, v in exp.items():
        if ref[k] != v:
            chk.fail('C18:constants-expr', 'symbolic expression in the parameter file evaluated wrongly', {'key': k}, expected=v, actual=ref[k])
    for it in range(chk.n(40, 400)):
        items = list(base_items)
        if it % 4 == 1:
            items.append(("CN0", rng.choice([0.5, 0.992378037, 1.25])))          # an explicitly given CN0 is a constant like any other
        if it % 3 == 2:
            # other spellings of the same expressions (decimal literals without a leading / trailing digit, parentheses, other operator order)
            alt = {"deltaRN0": rng.choice(["2.0*deltaRTe", ".5*4.0*deltaRTe", "2.*deltaRTe", "(deltaRTe+deltaRTe)", "deltaRTe/.5"]),
                   "deltaR": rng.choice(["4.0*deltaRN0/deltaRTi", "deltaRN0/deltaRTi*4", "(4.0*deltaRN0)/(deltaRTi)", "deltaRN0/(.25*deltaRTi)"]),
                   "vMin": rng.choice(["-vMax", "-1*vMax", "0-vMax", "-(vMax)"]), "zMax": rng.choice(["R0*2*pi", "2*pi*R0", "R0*(pi+pi)", "pi*R0/.5"])}
            items = [(k, alt.get(k, v)) for k, v in items]
        rp_given = None
        if it % 4 == 2:
            # rp (the peak of the profiles) given in the file, as a number or an expression: a constant like any other, although the
            # setters of rMin and rMax move it to the middle of the domain (finding F25)
            rp_given = [5.0, "rMin+4.5", 3.25, "rMax-deltaRTi", "0.25*(rMin+rMax)"][it // 4 % 5]
            items.append(("rp", rp_given))
        zeros = it % 7 == 3
        if zeros:
            # constants that are exactly zero (no perturbation, an axisymmetric mode, a flat density profile): a value like any other
            zv = {'eps': 0.0, 'm': 0, 'n': 0, 'kN0': 0.0, 'iotaVal': 0.0}
            pick = rng.sample(sorted(zv), rng.randint(1, 4))
            items = [(k, (zv[k] if k in pick else v)) for k, v in items]
        rng.shuffle(items)
        if it % 5 == 0:
            # vary the values, keep the dependency structure
            items = [(k, (v * rng.choice([0.5, 2.0, 3.0]) if isinstance(v, float) and k not in ('rMin', 'rMax', 'zMin') else v)) for k, v in items]
        json.dump(dict(items), open(fn, 'w'))
        try:
            c = get_constants(fn)
        except Exception as e:  # noqa: BLE001
            chk.fail('C18:constants-order-crash', 'get_constants raised for a permutation of a well-founded file: %s: %s' % (type(e).__name__, e),
                     {'order': [k for k, _ in items]})
            continue
        got = public_attrs(c)
        given = dict(items)
        wrong = sorted(k for k, v in items if not isinstance(v, str) and k in got and got[k] != v)
        if wrong:
            chk.fail('C18:constants-value', 'a constant given as a number in the parameter file is not reproduced by the parser',
                     {'order': [k for k, _ in items], 'keys': wrong}, expected={k: given[k] for k in wrong}, actual={k: got[k] for k in wrong})
        if 'CN0' in given and got.get('CN0') != given['CN0']:
            chk.fail('C18:constants-CN0', 'an explicitly given CN0 is not reproduced by the parser', {'order': [k for k, _ in items]},
                     expected=given['CN0'], actual=got.get('CN0'))
        # oracle (no model): every symbolic entry equals its expression evaluated, in dependency order, with THIS file's values
        import math as _m
        env = {k: v for k, v in items if not isinstance(v, str)}
        pend = {k: v for k, v in items if isinstance(v, str)}
        while pend:
            for k in list(pend):
                if all(d in env for d in (RP_DEPS[pend[k]] if k == 'rp' else DEPS[k])):
                    env[k] = eval(pend.pop(k), {'pi': _m.pi, '__builtins__': {}}, dict(env))
        env.setdefault('rp', 0.5 * (env['rMin'] + env['rMax']))
        badk = sorted(k for k in list(DEPS) + ['rp'] if got.get(k) != env[k])
        if badk:
            chk.fail('C18:constants-expr', 'a symbolic entry of the parameter file does not equal its expression evaluated with the values of the file',
                     {'order': [k for k, _ in items], 'values': {k: v for k, v in items if isinstance(v, float)}},
                     expected={k: env[k] for k in badk}, actual={k: got.get(k) for k in badk})
        if it % 5 != 0 and it % 3 != 2 and not zeros:
            refc = dict(ref, CN0=given['CN0']) if 'CN0' in given else dict(ref)
            if rp_given is not None:
                refc['rp'] = env['rp']
                if 'CN0' not in given:
                    refc.pop('CN0')                    # CN0 is computed from rp (compared in the print -> parse round trip)
            bad = sorted(k for k in refc if got.get(k) != refc[k])
            if bad:
                chk.fail('C18:constants-order', 'the constants depend on the order of the keys in the parameter file', {'order': [k for k, _ in items]},
                         expected={k: refc[k] for k in bad}, actual={k: got.get(k) for k in bad})
        # print -> parse round trip, through the real setupSave
        folder = os.path.join(work, 'cs%d' % it)

        def body():
            return setupSave(c, folder, MPI.COMM_WORLD)
        res = lu.run_ranks(1, body)
        if not res.ok:
            chk.fail('C18:setupSave-crash', 'setupSave raised: ' + str(res.first_error())[:200], {'it': it})
            continue
        try:
            back = public_attrs(get_constants(os.path.join(folder, 'initParams.json')))
        except Exception as e:  # noqa: BLE001
            chk.fail('C18:constants-roundtrip-crash', 'initParams.json written by setupSave cannot be read back: %s: %s' % (type(e).__name__, e), {'it': it})
            continue
        if back != got:
            bad = sorted(k for k in got if back.get(k) != got[k])
            chk.fail('C18:constants-roundtrip', 'initParams.json does not reproduce the constants', {'keys': bad},
                     expected={k: got[k] for k in bad}, actual={k: back.get(k) for k in bad})
        # printed order permuted as well
        pr = list(json.load(open(os.path.join(folder, 'initParams.json'))).items())
        rng.shuffle(pr)
        json.dump(dict(pr), open(fn, 'w'))
        back2 = public_attrs(get_constants(fn))
        if back2 != got:
            bad = sorted(k for k in got if back2.get(k) != got[k])
            chk.fail('C18:constants-roundtrip-order', 'a permuted initParams.json does not reproduce the constants', {'keys': bad})
        shutil.rmtree(folder, ignore_errors=True)
        # correspondence: the dependency-ordered parser terminates / refuses as the model says
        mo = drv.call({'op': 'constants', 'data': [[k, (RP_DEPS[v] if k == 'rp' else DEPS.get(k)) if isinstance(v, str) else None] for k, v in items]})
        if not mo['ok']:
            chk.diff('model refuses a well-founded parameter file', {'order': [k for k, _ in items]}, mo)
        chk.count('constants permutations')
        chk.case(('const', tuple(k for k, _ in items)), nontrivial=True, sample={'order': [k for k, _ in items][:8]} if it == 0 else None)
    rp_setter_cases(chk, drv, fn)
    # refusals: cyclic / undefined reference
    for bad_items, why in (([("a_", 1)], None),
                           ([("kTe", "kTi"), ("kTi", "kTe")], 'cycle'),
                           ([("kTe", "CTe"), ("B0", 1.0)], 'reference to a constant that is not in the file'),
                           ([("B0", 1.0), ("kTe", "kTi"), ("kTi", "deltaRTe"), ("deltaRTe", "kTe")], 'cycle of three')):
        if why is None:
            continue
        json.dump(dict(bad_items), open(fn, 'w'))
        try:
            get_constants(fn)
            refused = False
        except AssertionError:
            refused = True
        except Exception:  # noqa: BLE001
            refused = True
        mo = drv.call({'op': 'constants', 'data': [[k, ([v] if isinstance(v, str) else None)] for k, v in bad_items]})
        if refused != (not mo['ok']):
            chk.diff('refusal of an ill-founded parameter file (%s)' % why, {'items': bad_items}, mo['ok'], not refused)
        chk.count('constants refusals')


# ------------------------------------------------------------------------------------------------
# D. the driver: N steps, stop, restart, M steps  vs  N+M steps

def phidat(folder):
    p = os.path.join(folder, 'phiDat.txt')
    return [l.rstrip('\n') for l in open(p)] if os.path.exists(p) else []


def driver_run(du, ranks, work, tEnd, folder, cfile, saveStep, tMax=100000):
    r = du.run_driver(ranks, work, tEnd, folder, cfile, saveStep, tMax=tMax)
    return r


def model_run(drv, prog, saveStep, tEnd, dt, loadable, fileTime, clock, fuel=200):
    mo = drv.call({'op': 'loop', 'program': prog['program'], 'saveStep': saveStep, 'tEnd': tEnd, 'dt': dt, 'loadable': loadable,
                   'fileTime': fileTime, 'clock': clock, 'fuel': fuel})
    if 'error' in mo:
        raise RuntimeError(mo['error'])
    return mo


def files_of(folder):
    return sorted(x for x in os.listdir(folder) if x.endswith('.h5'))


def compare_with_model(chk, mo, folder, before_files, before_lines, case):
    """files newly written and diagnostic lines newly printed by one real run vs the events of the model run"""
    new = sorted(set(files_of(folder)) - set(before_files)) if before_files is not None else files_of(folder)
    exp = sorted(set('%s_%06d.h5' % ('phi' if e[1] else 'grid', e[2]) for e in mo['events'] if e[0] == 'ckpt'))
    # a checkpoint re-written under the same name is not "new"
    exp_new = sorted(set(exp) - set(before_files or []))
    if new != exp_new:
        chk.diff('checkpoints written by the driver', case, exp_new, new)
    nlines = len(phidat(folder)) - before_lines
    exp_lines = sum(max(0, e[2] - e[1]) for e in mo['events'] if e[0] == 'lines')
    if nlines != exp_lines:
        chk.diff('number of diagnostic lines printed by the driver', case, exp_lines, nlines)
    if mo['crashed']:
        chk.diff('model predicts ZeroDivisionError', case, True, False)


def split_case(chk, drv, prog, du, work, S, N, M, ranks1, ranks2, ranks_ref, dt=2, tag='', const_kw=None):
    """returns a failure dict or None; records correspondence diffs"""
    const_kw = const_kw or {}
    cfile = os.path.join(work, 'const_dt%d_%s.json' % (dt, '_'.join('%s%s' % kv for kv in sorted(const_kw.items())) or 'std'))
    if not os.path.exists(cfile):
        du.write_constants(cfile, dt=dt, **const_kw)
    uid = '%s_S%d_N%d_M%d_r%d%d%d%s' % (tag, S, N, M, ranks1, ranks2, ranks_ref, 'k' if const_kw else '')
    A, B = os.path.join(work, 'A' + uid), os.path.join(work, 'B' + uid)
    case = {'saveStep': S, 'N': N, 'M': M, 'ranks_first': ranks1, 'ranks_restart': ranks2, 'ranks_unsplit': ranks_ref, 'dt': dt,
            'constants': const_kw}
    tE1, tE2 = N * dt, (N + M) * dt
    r = driver_run(du, ranks_ref, work, tE2, A, cfile, S)
    if r[0] != 'ok':
        return {'signature': 'C18:driver-crash', 'what': 'unsplit driver run raised: ' + r[1][:300], 'case': case}
    compare_with_model(chk, model_run(drv, prog, S, tE2, dt, False, 0, []), A, None, 0, dict(case, run='unsplit'))
    r = driver_run(du, ranks1, work, tE1, B, cfile, S)
    if r[0] != 'ok':
        return {'signature': 'C18:driver-crash', 'what': 'first part of the split run raised: ' + r[1][:300], 'case': case}
    mo1 = model_run(drv, prog, S, tE1, dt, False, 0, [])
    compare_with_model(chk, mo1, B, None, 0, dict(case, run='first part'))
    f1, l1 = files_of(B), len(phidat(B))
    grid_files = [x for x in f1 if x.startswith('grid_')]
    newest = max(int(x.split('_')[1].split('.')[0]) for x in grid_files)
    if newest != tE1:
        return {'signature': 'C18:final-not-saved', 'what': 'the state at the end of the first run is not the newest checkpoint', 'case': case,
                'expected': tE1, 'actual': grid_files}
    r = driver_run(du, ranks2, work, tE2, B, None, S)
    if r[0] != 'ok':
        return {'signature': 'C18:driver-restart-crash', 'what': 'restarted driver run raised: ' + r[1][:300], 'case': case}
    mo2 = model_run(drv, prog, S, tE2, dt, True, mo1['t'], [])
    compare_with_model(chk, mo2, B, f1, l1, dict(case, run='restarted part'))
    # the oracle: same final time, final checkpoints bit-identical
    fa, fb = files_of(A), files_of(B)
    last = 'grid_%06d.h5' % tE2
    if last not in fa or last not in fb or max(x for x in fb if x.startswith('grid_')) != last:
        return {'signature': 'C18:final-time', 'what': 'split and unsplit runs do not end with a checkpoint of the same final time', 'case': case,
                'expected': last, 'actual': {'unsplit': fa, 'split': fb}}
    for nm in (last, 'phi_%06d.h5' % tE2):
        a, la = du.read_dset(os.path.join(A, nm))
        b, lb = du.read_dset(os.path.join(B, nm))
        if not same_bits(a, b) or list(la) != list(lb):
            return {'signature': 'C18:split-state', 'what': 'N steps + restart + M steps does not give the state of N+M steps (%s differs)' % nm,
                    'case': case, 'expected': 'bit-identical datasets', 'actual': {'max_abs_diff': float(np.max(np.abs(a - b)))}}
    # every checkpoint the unsplit run wrote is also there in the split run, with the same content
    for nm in fa:
        if nm not in fb:
            return {'signature': 'C18:split-missing-checkpoint', 'what': 'a checkpoint of the unsplit run is missing in the split run', 'case': case,
                    'expected': fa, 'actual': fb}
        a, _ = du.read_dset(os.path.join(A, nm))
        b, _ = du.read_dset(os.path.join(B, nm))
        if not same_bits(a, b):
            return {'signature': 'C18:split-checkpoint-content', 'what': 'checkpoint %s differs between split and unsplit run' % nm, 'case': case}
    # diagnostics of the restarted run: in every save window that starts after the first save following the restart,
    # the lines printed are those of the unsplit run
    la_, lb_ = phidat(A), phidat(B)
    K1 = (N // S + 1) * S
    Klast = ((N + M) // S) * S

    def stamp(line):
        return float(line.split()[0])
    for k in range(K1 + 1, Klast + 1):
        ta = [l for l in la_ if stamp(l) == k * dt]
        tb = [l for l in lb_ if stamp(l) == k * dt]
        if ta and not tb:
            return {'signature': 'C18:diag-lines-after-restart', 'what': 'the restarted run does not print the diagnostics of step %d (t=%d) that the unsplit run prints' % (k, k * dt),
                    'case': case, 'expected': ta[:1], 'actual': tb}
        if ta and tb and ta[0] != tb[0]:
            return {'signature': 'C18:diag-values-after-restart', 'what': 'diagnostics of step %d differ between split and unsplit run' % k, 'case': case,
                    'expected': ta[0], 'actual': tb[0]}
    chk.count('driver split S=%d N=%d M=%d ranks %d/%d vs %d' % (S, N, M, ranks1, ranks2, ranks_ref))
    chk.case(('split', S, N, M, ranks1, ranks2, ranks_ref, dt), nontrivial=True,
             sample=dict(case, files_split=fb, files_unsplit=fa) if len(chk.samples) < 4 else None)
    return None


def clock_stop_case(chk, drv, prog, du, work, S, ranks):
    """the wall-clock stop (tMax = 0: every run makes exactly one pass) instead of tEnd, three restarts"""
    cfile = os.path.join(work, 'const_dt2.json')
    if not os.path.exists(cfile):
        du.write_constants(cfile, dt=2)
    C = os.path.join(work, 'C_S%d_r%d' % (S, ranks))
    case = {'saveStep': S, 'ranks': ranks, 'what': 'tMax=0: one pass per run'}
    t = 0
    for k in range(3):
        before_f, before_l = (files_of(C), len(phidat(C))) if k else (None, 0)
        r = driver_run(du, ranks, work, 1000, C, cfile if k == 0 else None, S, tMax=0)
        if r[0] != 'ok':
            return {'signature': 'C18:driver-clock-crash', 'what': 'driver run stopped by the clock raised: ' + r[1][:300], 'case': dict(case, run=k)}
        mo = model_run(drv, prog, S, 1000, 2, k > 0, t, [False])
        compare_with_model(chk, mo, C, before_f, before_l, dict(case, run=k))
        t = mo['t']
        newest = max(int(x.split('_')[1].split('.')[0]) for x in files_of(C) if x.startswith('grid_'))
        if newest != 2 * (k + 1):
            return {'signature': 'C18:clock-stop-final', 'what': 'a run stopped by the wall clock does not leave its final state as newest checkpoint',
                    'case': dict(case, run=k), 'expected': 2 * (k + 1), 'actual': newest}
    chk.count('driver stopped by the clock, S=%d' % S)
    chk.case(('clock', S, ranks), nontrivial=True)
    return None


def driver_cases(chk, drv, prog, work, plan):
    import driver_util as du
    for k, (S, N, M, r1, r2, rr) in enumerate(plan):
        # every second case with constants away from their defaults (an asymmetric velocity domain, shifted z and r domains): the
        # restart must rebuild exactly the grids and spline spaces of the first run from the parameter file
        kw = {'vMin': -6.0, 'vMax': 7.5, 'rMin': 0.2, 'zMin': 1.0} if k % 2 == 1 else None
        f = split_case(chk, drv, prog, du, work, S, N, M, r1, r2, rr, const_kw=kw)
        if f is not None:
            chk.fail(f['signature'], f['what'], f['case'], f.get('expected'), f.get('actual'))
    return du


QUICK_PLAN = [(1, 1, 1, 1, 2, 1), (2, 1, 3, 2, 1, 1), (3, 2, 2, 1, 1, 2), (2, 1, 2, 1, 1, 1)]   # (saveStep, N, M, ranks1, ranks2, ranks_ref); last: N % S != 0, M % S == 0
THOROUGH_PLAN = ([(S, N, M, 1, 1, 1) for S in (1, 2, 3) for (N, M) in ((1, 2), (2, 1))] +
                 [(2, 1, 4, 1, 1, 1), (3, 2, 5, 2, 2, 2), (4, 3, 2, 1, 1, 1)] +
                 [(S, 1, 2, r1, r2, 1) for S in (1, 2, 3) for (r1, r2) in ((2, 3), (4, 1), (3, 4))])


def run(chk):
    chk.rule = ('round trip: (dims, extents, layout, writer grid, reader grid, dtype) with different writer / reader partitions; '
                'latest: checkpoint times of different digit counts; constants: distinct key orders; driver: distinct '
                '(saveStep, N, M, ranks first / restart / unsplit)')
    prog = regenerate(chk)
    chk.proof_side(build=not getattr(chk, 'no_build', False), extra_props=('C18Extra', 'C18Rp'))
    work = tempfile.mkdtemp(prefix='pgc18_')
    drv = common.LeanDriver('C17.lean')
    state = {}
    try:
        roundtrip_cases(chk, drv, work)
        latest_cases(chk, drv, work)
        fresh_folder_cases(chk, work, drv)
        constants_cases(chk, drv, work)
        if prog is not None:
            plan = QUICK_PLAN if chk.quick() else THOROUGH_PLAN
            du = driver_cases(chk, drv, prog, work, plan)
            f = clock_stop_case(chk, drv, prog, du, work, 2, 1)
            if f is not None:
                chk.fail(f['signature'], f['what'], f['case'], f.get('expected'), f.get('actual'))
            if not chk.quick():
                f = clock_stop_case(chk, drv, prog, du, work, 1, 2)
                if f is not None:
                    chk.fail(f['signature'], f['what'], f['case'], f.get('expected'), f.get('actual'))

        def search():
            """proof obligation broken or model/implementation differ: look for a concrete failing driver history (oracle only)"""
            import driver_util as du2

            class _Null:
                def call(self, *_a, **_k):
                    return {'events': [], 'crashed': False, 't': 0}
            nul = _Null()

            class _NoDiff:
                rng = chk.rng
                samples = chk.samples

                def diff(self, *a, **k):
                    pass

                def count(self, *a, **k):
                    pass

                def case(self, *a, **k):
                    pass
            nd = _NoDiff()
            for (S, N, M, r1, r2, rr) in [(2, 1, 4, 1, 1, 1), (1, 1, 2, 1, 1, 1), (3, 2, 5, 1, 2, 1), (3, 1, 2, 2, 1, 1)]:
                f = split_case(nd, nul, {'program': None}, du2, work, S, N, M, r1, r2, rr, tag='search')
                if f is not None:
                    return f
            return None
        state['search'] = search
        code = chk_finish(chk, search)
    finally:
        drv.close()
        shutil.rmtree(work, ignore_errors=True)
    return code


def chk_finish(chk, search):
    chk.assumptions = [
        'HDF5 (serial h5py behind the mpio shim) is an array store: a hyperslab write followed by a hyperslab read returns the bytes written',
        'checkpoint times are below 10^6 (six digits); beyond that max(glob) is not numeric order (observation F10, see notes)',
        'contracts of the operators used by the data-flow theorems (Model/Checkpoint.lean, execCallS): setLayout keeps the field, '
        'VParallelAdvection.gridStep overwrites parGradVals, solveEquation overwrites phi, getPerturbedRho overwrites rho; '
        'exercised end to end by the split / unsplit driver runs (fresh np.empty arrays after the restart)',
        'a loadable folder (initParams.json present) holds at least one grid checkpoint (a fresh run writes t=0 right after setupSave)',
        'constants: rp is the middle of [rMin, rMax] unless the parameter file or a keyword gives it (Model/Checkpoint.lean, getConstantsRp)']
    chk.trusted = list(chk.trusted) + ['harness/translate_driver.py (AST -> Generated/TimeLoop.lean): refuses unknown statement shapes; '
                                       'its output is run against the real driver (files written, lines printed) on every run']
    return chk.finish(search)
