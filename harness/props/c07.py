"""C07 — spline evaluation equals the mathematical B-spline on every entry point.

proof side    : Props/C07.lean (findSpan_some_correct, findSpan_unique, basis_sum_one, basis_nonneg, ders_sum_zero,
                basisFuns_eq_coxDeBoor, evalSpline1D_eq_sum, evalSpline1D_right_end, entrypoints, evalSpline2D_eq_tensor,
                cubic_eq_general, cuFindSpan_correct, cubic_same_cell, cubic_path_eq_general_path(_2d), ders_is_derivative,
                evalSpline1D_der_is_derivative, periodic_shift, periodic_ends_equal)
                Props/C07Gen3.lean (tie by translation of the uniform-cubic kernels, Generated/CubicUniformGen.lean regenerated on every
                run: gen_cu_find_span_eq, gen_cu_basis_funs(_1st_der)_eq, gen_cu_eval_spline_1d_eq (generated = Model/CubicUniform
                with trunc := pyInt = truncation toward zero), pyInt_spec, gen_cu_eval_eq_general_path)
                Props/C07Gen4.lean (tie by translation of the VECTOR entry points nu_eval_spline_1d_vector / cu_eval_spline_1d_vector,
                Generated/EvalVectorGen.lean regenerated on every run; they duplicate the loops of the scalar kernels and share one
                `basis` array: gen_nu_eval_vector_eq / gen_cu_eval_vector_eq (for every k < len(x) the vector function writes exactly
                what the generated scalar evaluation returns at x[k], nothing beyond, der in {0,1}), gen_nu_eval_vector_total,
                gen_cu_eval_vector_model (= the models), gen_*_other_der (der not in {0,1}: y untouched))
                Props/C07Gen5.lean (tie by translation of the 2-D SCALAR kernels nu_eval_spline_2d_scalar / cu_eval_spline_2d_scalar,
                Generated/Eval2DGen.lean regenerated on every run: local block theCoeffs = empty((n, m)), the whole-array assignment from
                the slice of coeffs with numpy's shape check, contraction loops; gen_eval_spline_2d_eq/_model/_total (generated =
                BSpline.evalSpline2D, all (der1,der2), guard deg <= span), gen_cu_eval_spline_2d_eq (= CubicUniform.cuEvalSpline2D with
                trunc := pyInt, guard deg1 = deg2 = 3), gen_cu_eval_2d_eq_general_path)
                Props/C07Gen6.lean / C07Gen7.lean (tie by translation of the 2-D CROSS and VECTOR entry points nu_/cu_eval_spline_2d_cross,
                nu_/cu_eval_spline_2d_vector, Generated/Cross2DGen.lean / Vec2DGen.lean regenerated on every run; every (der1, der2) branch of the
                source is its own copy of the nested loops with shared work arrays: gen_nu_cross_eq/_eq_scalar/_model/_total, gen_cu_cross_eq/
                _eq_scalar/_general_path (z[i, j] = what the generated scalar 2-D kernel returns at (X[i], Y[j]) = the model, nothing outside
                len(X) x len(Y) written), gen_nu_vec_* / gen_cu_vec_* (z[k] = the scalar kernel at (x[k], y[k]), nothing beyond len(x)),
                gen_*_other_der (no write for der outside {0,1}^2))
correspondence: every public entry point of pygyro/splines (Spline1D.eval scalar/array, eval_vector, BSplines[i],
                Spline2D.eval scalar/cross, eval_vector, all (der1,der2)) and the raw nu_* / cu_* kernels, against the
                exact-rational Lean models (Drivers/C07.lean); floats compared through common.close with the running
                condition number returned by the driver.
oracle        : scipy.interpolate.BSpline on the knot vector the path really uses (model-independent), direct checks of
                partition of unity / non-negativity / derivative-sum-zero, cubic path vs general path on the same
                space, periodic end values and slopes; `search` = exact Cox-de Boor in fractions.Fraction.
"""
import contextlib
import json
import signal
from fractions import Fraction as Fr

import numpy as np

import common

LEVEL = 'proof'
EPS = 2.0 ** -53
NEAR = 2.0 ** -40
ORACLE_RTOL = 1e-8          # scipy itself works in floats: loose, the mutations we look for are O(1)
MAX_CRASHES = 3


# ----------------------------------------------------------------------------------------------
# guards: a broken span search may hang (while loop) or index out of bounds

class Hang(Exception):
    pass


class Abort(Exception):
    pass


@contextlib.contextmanager
def deadline(sec=4.0):
    # CPU seconds of this process (ITIMER_VIRTUAL), not wall time: a loaded machine must not look like a hang
    def h(sig, frm):
        raise Hang()
    old = signal.signal(signal.SIGVTALRM, h)
    signal.setitimer(signal.ITIMER_VIRTUAL, sec)
    try:
        yield
    finally:
        signal.setitimer(signal.ITIMER_VIRTUAL, 0)
        signal.signal(signal.SIGVTALRM, old)


def guarded(chk, entry, case, fn):
    """run real code; a hang or an exception inside the closed domain is a failure of the property"""
    try:
        with deadline():
            return fn()
    except Hang:
        chk.fail('C07:hang:' + entry, 'evaluation does not terminate (span search loops for ever)', case)
    except Exception as e:  # noqa: BLE001
        chk.fail('C07:raise:' + entry, 'evaluation inside the closed domain raised %s: %s' % (type(e).__name__, str(e)[:120]), case)
    chk.crashes = getattr(chk, 'crashes', 0) + 1
    if chk.crashes >= MAX_CRASHES:
        raise Abort()
    return None


# ----------------------------------------------------------------------------------------------
# spaces

KINDS = ('uniform-dyadic', 'nonuniform-dyadic', 'uniform-generic', 'nonuniform-generic')


def hx(v):
    return float(v).hex()


def hxs(a):
    return [float(v).hex() for v in np.asarray(a, float).ravel()]


def unhx(l):
    return np.array([float.fromhex(s) for s in l])


def make_breaks(rng, kind, nc):
    if kind == 'uniform-far':
        # equidistant, exactly representable, many cell widths away from the origin, cell width not a power of two
        dx = 3.0 * 2.0 ** -rng.randint(4, 7)
        a = rng.choice([-1, 1]) * (2 * rng.randint(2 ** 20, 2 ** 24) + 1) * dx
        return a + dx * np.arange(nc + 1)
    if kind == 'nearly-uniform':
        # NOT equidistant, but only by a relative 1e-6 .. 1e-9 of the cell width (graded), or of tiny absolute size
        scale = rng.choice([1.0, 1.0, 1e-9])
        w = np.array([1.0 + rng.choice([1e-6, 3e-7, 1e-8]) * k for k in range(nc)]) * rng.uniform(0.2, 1.0) * scale
        return rng.uniform(-1, 1) * scale + np.concatenate([[0.0], np.cumsum(w)])
    if kind == 'uniform-dyadic':
        a = rng.randint(-16, 16) / 8.0
        dx = 2.0 ** rng.randint(-3, 1)
        return a + dx * np.arange(nc + 1)
    if kind == 'nonuniform-dyadic':
        a = rng.randint(-16, 16) / 8.0
        w = [rng.choice([1, 1, 2, 3, 5, 8]) / 8.0 for _ in range(nc)]
        return a + np.concatenate([[0.0], np.cumsum(w)])
    a = rng.uniform(-3, 3)
    b = a + rng.uniform(0.5, 4)
    if kind == 'uniform-generic':
        return np.linspace(a, b, nc + 1)
    while True:
        br = np.sort(np.concatenate([[a, b], [rng.uniform(a, b) for _ in range(nc - 1)]]))
        if np.min(np.diff(br)) > 1e-3 * (b - a):
            return br


class Space:
    def __init__(self, deg, periodic, kind, breaks, uniform_flag=None):
        from pygyro.splines.splines import make_knots, BSplines
        self.deg, self.periodic, self.kind = deg, periodic, kind
        self.breaks = np.asarray(breaks, float)
        self.nc = len(self.breaks) - 1
        self.uniform = kind.startswith('uniform') if uniform_flag is None else uniform_flag
        self.exact = kind.endswith('dyadic')
        self.kn = make_knots(self.breaks, deg, periodic)
        self.b = BSplines(self.kn, deg, periodic, self.uniform)
        self.cu = bool(self.b.cubic_uniform)
        self.ncoef = self.nc + deg
        self.a, self.bnd = float(self.breaks[0]), float(self.breaks[-1])
        self.hmin = float(np.min(np.diff(self.breaks)))
        if self.cu:
            k = self.b.knots
            self.xmin, self.xmax, self.dx, self.ncells = float(k[0]), float(k[1]), float(k[2]), int(k[3])
            self.tf = self.xmin + self.dx * np.arange(-3, self.nc + 4)        # knots the path means (floats, for scipy)
        else:
            self.tf = np.array(self.b.knots, float)

    def desc(self):
        return {'degree': self.deg, 'periodic': self.periodic, 'uniform_flag': self.uniform, 'kind': self.kind,
                'breaks_hex': hxs(self.breaks), 'breaks': [float(v) for v in self.breaks], 'path': 'cubic_uniform' if self.cu else 'general'}

    @staticmethod
    def from_desc(d):
        return Space(d['degree'], d['periodic'], d['kind'], unhx(d['breaks_hex']), d['uniform_flag'])

    def tfrac(self):
        """exact knot vector the path means"""
        if self.cu:
            return [Fr(self.xmin) + (i - 3) * Fr(self.dx) for i in range(self.nc + 7)]
        return [Fr(float(v)) for v in self.tf]

    def key(self):
        return (self.deg, self.periodic, self.kind, self.nc, self.cu)

    def wrap(self, c):
        """periodic convention of the code base: coeffs[n:n+p] = coeffs[0:p]"""
        if self.periodic:
            c[self.nc:self.nc + self.deg] = c[0:self.deg]
        return c

    def near_break(self, x):
        tol = NEAR * max(abs(self.a), abs(self.bnd), self.bnd - self.a)
        return bool(np.min(np.abs(self.breaks - x)) <= tol)

    def is_break(self, x):
        return bool(np.any(self.breaks == x))

    def xs(self, rng, nrand):
        br, a, b = self.breaks, self.a, self.bnd
        def nxt(v, to):
            # one ulp next to a breakpoint; next to 0.0 that would be a denormal whose powers underflow (outside the
            # relative-error model of floats, not a property of the code): use 2^-80 there
            return float(np.nextafter(v, to)) if v != 0.0 else float(np.sign(to - v)) * 2.0 ** -80
        pts = list(br) + [nxt(v, a) for v in br[1:]] + [nxt(v, b) for v in br[:-1]]
        pts += [rng.uniform(a, b) for _ in range(nrand)]
        pts += [a + (b - a) * rng.randint(0, 64) / 64.0 for _ in range(2)]
        pts += list(getattr(self, 'extra', []))       # replayed failing inputs
        return np.clip(np.array(pts, float), a, b)

    def discont_ok(self, x):
        """may a quantity that jumps at the breakpoints (span index, slope of a degree-1 spline) be compared at x?"""
        if not self.near_break(x):
            return True
        return self.exact and self.is_break(x)

    # --- model requests
    def req1d(self, c, xs, der):
        if self.cu:
            return {'op': 'cu_eval1d', 'xmin': common.rat(self.xmin), 'dx': common.rat(self.dx), 'ncells': self.ncells,
                    'coeffs': common.rats(c), 'xs': common.rats(xs), 'der': bool(der)}
        return {'op': 'eval1d', 'knots': common.rats(self.tf), 'degree': self.deg, 'coeffs': common.rats(c),
                'xs': common.rats(xs), 'der': bool(der)}

    def lip(self, x, cmax, der):
        """uniform-cubic path: `offset` carries the absolute rounding error of (x-xmin)/dx (~ eps*|normalised_pos|);
        the values move by at most |dB/d offset| <= 1 (values) or 3/dx (derivatives) times that, for every coefficient"""
        if not self.cu:
            return Fr(0)
        npos = abs((Fr(float(x)) - Fr(self.xmin)) / Fr(self.dx))
        return (npos + 1) * Fr(cmax) * 4 * (Fr(3) / abs(Fr(self.dx)) if der else Fr(1))

    # --- scipy reference: matrix of all basis functions (or first derivatives) at xs
    def ref_matrix(self, xs, nu):
        from scipy.interpolate import BSpline
        p = 3 if self.cu else self.deg
        n = len(self.tf) - p - 1
        B = BSpline(self.tf, np.eye(n), p, extrapolate=bool(self.cu))
        return np.asarray(B(np.asarray(xs, float), nu=nu))

    def oscale(self, cmax, der):
        return cmax * ((self.deg / self.hmin) if der else 1.0) + 1e-300


def build(chk, deg, periodic, kind, breaks, uniform_flag=None):
    """construct the real BSplines object under the guard (its constructor already calls nu_find_span / nu_basis_funs
    at the ends of the domain); on a hang / exception pin the failure down on the raw span search"""
    case = {'entry': 'BSplines.__init__', 'degree': deg, 'periodic': periodic, 'kind': kind,
            'uniform_flag': uniform_flag, 'breaks_hex': hxs(breaks), 'breaks': [float(v) for v in breaks]}
    try:
        return guarded(chk, 'BSplines.__init__', case, lambda: Space(deg, periodic, kind, breaks, uniform_flag))
    finally:
        if chk.failures and chk.failures[-1]['case'] is case:
            n0 = len(chk.failures)
            probe_find_span(chk, deg, periodic, breaks)
            if len(chk.failures) > n0:      # the sharper failing input first
                chk.failures[n0 - 1], chk.failures[-1] = chk.failures[-1], chk.failures[n0 - 1]


def probe_find_span(chk, deg, periodic, breaks):
    from pygyro.splines.splines import make_knots
    from pygyro.splines.spline_eval_funcs import nu_find_span
    kn = make_knots(np.asarray(breaks, float), deg, periodic)
    for x in breaks:
        case = {'entry': 'nu_find_span', 'knots_hex': hxs(kn), 'knots': [float(v) for v in kn], 'degree': deg, 'x': float(x)}
        try:
            with deadline(2.0):
                nu_find_span(kn, deg, float(x))
        except Hang:
            chk.fail('C07:hang:nu_find_span', 'nu_find_span does not terminate for x in the closed domain', case)
            return
        except Exception as e:  # noqa: BLE001
            chk.fail('C07:raise:nu_find_span', 'nu_find_span raised %s' % type(e).__name__, case)
            return


def random_space(chk, deg, periodic=None, kind=None, force_general=False):
    rng = chk.rng
    periodic = rng.random() < 0.5 if periodic is None else periodic
    kind = rng.choice(KINDS) if kind is None else kind
    lo = max(deg, 1) if periodic else 1
    nc = rng.randint(lo, lo + 7)
    br = make_breaks(rng, kind, nc)
    return build(chk, deg, periodic, kind, br, uniform_flag=False if force_general else None)


# ----------------------------------------------------------------------------------------------
# comparisons

def cmp_model(chk, entry, case, impl, exact, scale, factor, extra=Fr(0)):
    """impl (float) against the model's exact rational; scale = running condition number"""
    if exact is None:
        chk.diff(entry + ': model span search ran out of fuel', case)
        return False
    ex, sc = Fr(exact), Fr(scale) + extra
    if not np.isfinite(impl) or not common.close(impl, ex, sc, factor):
        chk.diff(entry + ': value differs from the exact model', dict(case, impl_hex=hx(impl)), model=float(ex), impl=float(impl))
        return False
    return True


def cmp_oracle(chk, sig, what, case, impl, ref, oscale):
    if np.isnan(ref):
        chk.count('oracle: scipy gives no value (outside its float knots)')
        return True
    if not np.isfinite(impl) or abs(impl - ref) > ORACLE_RTOL * oscale:
        chk.fail(sig, what, dict(case, impl_hex=hx(impl)), expected=float(ref), actual=float(impl))
        return False
    return True


# ----------------------------------------------------------------------------------------------
# 1-D entry points

CHECK_1D_COUNT = [0]


def check_1d_element_types(chk, sp, rng):
    """splines whose coefficients are complex, integer or single-precision numbers (`Spline1D(basis, dtype)` accepts any element type):
    value and derivative through the array / in-place entry points are those of the same coefficients held as float64 (for complex
    coefficients: of the real and of the imaginary part)"""
    from pygyro.splines.splines import Spline1D
    xs = sp.xs(rng, 3)
    cr = sp.wrap(np.array([float(rng.randint(-3, 3)) for _ in range(sp.ncoef)]))
    ci = sp.wrap(np.array([float(rng.randint(-3, 3)) + 0.125 for _ in range(sp.ncoef)]))
    sr, si = Spline1D(sp.b), Spline1D(sp.b)
    sr.coeffs[:] = cr
    si.coeffs[:] = ci
    for der in (0, 1):
        wr = np.array([float(sr.eval(float(x), der)) for x in xs])
        wi = np.array([float(si.eval(float(x), der)) for x in xs])
        tol = ORACLE_RTOL * sp.oscale(4.0, der)
        ok_pts = np.array([not (der and sp.deg == 1 and not sp.discont_ok(x)) for x in xs])
        for tag, dtype, coeffs, want in (('complex', complex, cr + 1j * ci, wr + 1j * wi), ('int64', np.int64, cr.astype(np.int64), wr),
                                         ('float32', np.float32, ci.astype(np.float32), wi)):
            s = Spline1D(sp.b, dtype=dtype)
            s.coeffs[:] = coeffs
            case = {'space': sp.desc(), 'der': der, 'coefficients_held_as': tag, 'xs': [float(x) for x in xs]}
            got = guarded(chk, 'Spline1D.eval(array)', case, lambda: np.asarray(s.eval(xs.copy(), der)))
            if got is not None and not (np.abs(got - want)[ok_pts] <= tol).all():
                chk.fail('C07:coefficient-type', 'Spline1D(basis, dtype=%s).eval(points, der=%d) is not the spline of those coefficients' % (tag, der),
                         case, expected=[complex(v) if tag == 'complex' else float(v) for v in want], actual=[complex(v) if tag == 'complex' else float(np.real(v)) for v in got])
            if tag == 'complex':
                y = np.full(len(xs), np.nan + 0j)
                okv = guarded(chk, 'Spline1D.eval_vector', case, lambda: (s.eval_vector(xs.copy(), y, der), True)[1])
                if okv and not (np.abs(y - want)[ok_pts] <= tol).all():
                    chk.fail('C07:coefficient-type', 'Spline1D(basis, dtype=complex).eval_vector(x, y, der=%d) is not the spline of those coefficients' % der,
                             case, expected=[complex(v) for v in want], actual=[complex(v) for v in y])
    chk.count('1-D splines with complex / integer / single-precision coefficients')


def check_1d(chk, drv, sp, rng, nrand):
    from pygyro.splines.splines import Spline1D
    if CHECK_1D_COUNT[0] % 3 == 1:
        check_1d_element_types(chk, sp, rng)
    s = Spline1D(sp.b)
    c = np.array([rng.uniform(-2, 2) for _ in range(sp.ncoef)])
    # on every other periodic space the caller fills ALL the ncells + degree coefficients the object exposes, without making the last
    # `degree` of them images of the first ones: the value is still the combination of the B-splines on the extended knot vector with
    # the coefficients as they are, and an evaluation reads the coefficients, it does not write them
    CHECK_1D_COUNT[0] += 1
    unwrapped = sp.periodic and CHECK_1D_COUNT[0] % 2 == 0
    if not unwrapped:
        c = sp.wrap(c)
    s.coeffs[:] = c
    xs = sp.xs(rng, nrand)
    cmax = float(np.max(np.abs(c)))
    base = {'space': sp.desc(), 'coeffs_hex': hxs(c), 'periodic_images_filled_by_caller': not unwrapped}
    factor = 32.0 * (sp.deg + 2)
    held = []        # arrays returned by the array entry point, kept by the caller while the spline is evaluated again
    for der in (0, 1):
        case0 = dict(base, der=der)
        ys_s = guarded(chk, 'Spline1D.eval(scalar)', case0, lambda: [s.eval(float(x), der) for x in xs])
        ys_a = guarded(chk, 'Spline1D.eval(array)', case0, lambda: s.eval(xs.copy(), der))
        if ys_a is not None:
            held.append((der, ys_a, np.array(ys_a, copy=True)))
        # the points given as a list / an array of whole numbers / single-precision numbers (finding F22): the values are the spline's
        # values all the same (compared with the scalar entry point, which is compared with the model above)
        lo_i, hi_i = int(np.ceil(sp.a)), int(np.floor(sp.bnd))
        if hi_i - lo_i >= 1:
            xi = np.arange(lo_i, hi_i + 1)
            want = [float(s.eval(float(v), der)) for v in xi]
            for tag_, pts in (('int64 array', xi), ('list of int', [int(v) for v in xi]), ('float32 array', xi.astype(np.float32))):
                got_ = guarded(chk, 'Spline1D.eval(array)', dict(case0, points=tag_), lambda: s.eval(pts, der))
                if got_ is None:
                    continue
                tol_ = ORACLE_RTOL * sp.oscale(cmax, der)
                if np.shape(got_) != (len(xi),) or not all(abs(float(np.real(g_)) - w_) <= tol_ for g_, w_ in zip(np.ravel(got_), want)):
                    chk.fail('C07:points-dtype', 'Spline1D.eval(points, der=%d) with the points given as %s differs from the spline at those points'
                             % (der, tag_), dict(case0, points=tag_, xs=[int(v) for v in xi]), expected=want, actual=[float(np.real(g_)) for g_ in np.ravel(got_)])
                    break
            chk.count('1-D evaluation with integer / list / float32 points')
        # points that START like the spline's own grid moved by a constant (first step = one cell, extent = a whole number of cells) but
        # whose interior points lie elsewhere: every point is evaluated where it is
        br_ = np.asarray(sp.b.breaks, float)
        if len(br_) >= 5:
            h_ = float(br_[1] - br_[0])
            n_ = min(len(br_), 7)
            xg = float(br_[0]) + h_ * np.arange(n_)
            xg[2:n_ - 1] += h_ * np.array([0.37, -0.21, 0.45, 0.13, -0.4])[:n_ - 3]
            xg = np.clip(xg, sp.a, sp.bnd)
            want = [float(np.real(s.eval(float(v), der))) for v in xg]
            outg = np.full(n_, np.nan)
            okg = guarded(chk, 'Spline1D.eval_vector', dict(case0, points='grid-like'), lambda: (s.eval_vector(xg.copy(), outg, der), True)[1])
            gota = guarded(chk, 'Spline1D.eval(array)', dict(case0, points='grid-like'), lambda: s.eval(xg.copy(), der))
            tol_ = ORACLE_RTOL * sp.oscale(cmax, der)
            for nm_, g_ in (('eval_vector', outg if okg else None), ('eval(array)', gota)):
                if g_ is not None and not all(abs(float(np.real(a_)) - w_) <= tol_ for a_, w_ in zip(np.ravel(g_), want)):
                    chk.fail('C07:grid-like-points', 'Spline1D.%s at points whose first step and extent look like a shifted grid but whose interior '
                             'points lie elsewhere differs from the point-by-point values (der=%d)' % (nm_, der),
                             dict(case0, xs_hex=hxs(xg)), expected=want, actual=[float(np.real(a_)) for a_ in np.ravel(g_)])
                    break
            chk.count('1-D evaluation at grid-like points with moved interior')
        if der == 1:
            for hd, arr, snap in held:
                if not np.array_equal(np.asarray(arr), snap, equal_nan=True):
                    chk.fail('C07:result-aliased', 'the array returned by Spline1D.eval(points, der=%d) changed when the spline was evaluated '
                             'again: the result is not the caller\'s own array' % hd, dict(base, der=hd, xs_hex=hxs(xs)))
        # the in-place entry point must fill the array it is given, also when that is a strided view (a column of a table)
        out = np.full(len(xs), np.nan) if der == 0 else np.full((len(xs), 3), np.nan)[:, 1]
        ok_v = guarded(chk, 'Spline1D.eval_vector', case0, lambda: (s.eval_vector(xs.copy(), out, der), True)[1])
        # in place in the strict sense: the output array IS the array of points
        alias = xs.copy()
        ok_al = guarded(chk, 'Spline1D.eval_vector(x, x)', case0, lambda: (s.eval_vector(alias, alias, der), True)[1])
        mo = drv.call(sp.req1d(c, xs, der))
        M = sp.ref_matrix(xs, der)
        ref = M @ c
        osc = sp.oscale(cmax, der)
        for k, x in enumerate(xs):
            if der and sp.deg == 1 and not sp.discont_ok(x):
                chk.count('skipped: slope of a degree-1 spline next to a breakpoint')
                continue
            for entry, vals in (('Spline1D.eval(scalar)', ys_s), ('Spline1D.eval(array)', ys_a),
                                ('Spline1D.eval_vector', out if ok_v else None), ('Spline1D.eval_vector(x, x)', alias if ok_al else None)):
                if vals is None:
                    continue
                case = dict(case0, entry=entry, x=float(x), x_hex=hx(x))
                v = float(vals[k])
                cmp_oracle(chk, 'C07:' + entry, entry + ' differs from the B-spline defined by knots, degree and coefficients '
                           '(scipy.interpolate.BSpline on the knot vector the path uses)', case, v, ref[k], osc)
                cmp_model(chk, entry, case, v, mo['ys'][k], mo['scales'][k], factor, sp.lip(x, cmax, der))
            chk.case(('1d', sp.key(), der, k), nontrivial=True,
                     sample={'space': sp.desc(), 'x': float(x), 'der': der, 'impl': float(ys_s[k]) if ys_s else None,
                             'model': float(Fr(mo['ys'][k]))} if (k == 3 and der == 1) else None)
        chk.count('1-D %s deg=%d %s %s' % ('cubic-uniform' if sp.cu else 'general', sp.deg,
                                             'periodic' if sp.periodic else 'clamped', sp.kind), len(xs))
        if not np.array_equal(np.asarray(s.coeffs), c):
            chk.fail('C07:coefficients-modified', 'evaluating a 1-D spline (der=%d) changed its coefficient vector' % der, case0,
                     expected=[float(v) for v in c], actual=[float(v) for v in np.asarray(s.coeffs)])
            s.coeffs[:] = c
    # the same Spline1D object after its coefficients were overwritten IN PLACE (what every compute_interpolant does): values and
    # derivatives are those of the new coefficients (nothing derived from the old ones may be kept)
    c2 = sp.wrap(np.array([rng.uniform(-2, 2) for _ in range(sp.ncoef)]))
    s.coeffs[:] = c2
    for der in (1, 0):
        case0 = dict(base, der=der, coeffs_hex=hxs(c2), note='coefficients overwritten in place after earlier evaluations')
        M = sp.ref_matrix(xs, der)
        ref = M @ c2
        osc = sp.oscale(float(np.max(np.abs(c2))), der)
        got_s = guarded(chk, 'Spline1D.eval(scalar)', case0, lambda: [s.eval(float(x), der) for x in xs])
        got_a = guarded(chk, 'Spline1D.eval(array)', case0, lambda: s.eval(xs.copy(), der))
        outv = np.full(len(xs), np.nan)
        okv = guarded(chk, 'Spline1D.eval_vector', case0, lambda: (s.eval_vector(xs.copy(), outv, der), True)[1])
        for entry, vals in (('Spline1D.eval(scalar)', got_s), ('Spline1D.eval(array)', got_a), ('Spline1D.eval_vector', outv if okv else None)):
            if vals is None:
                continue
            for k, x in enumerate(xs):
                if der and sp.deg == 1 and not sp.discont_ok(x):
                    continue
                cmp_oracle(chk, 'C07:' + entry, entry + ' after the coefficients were overwritten in place differs from the B-spline of the NEW coefficients',
                           dict(case0, entry=entry, x=float(x), x_hex=hx(x)), float(vals[k]), ref[k], osc)
    chk.count('1-D re-evaluation after in-place change of the coefficients')
    s.coeffs[:] = c
    # periodic: equal values (p >= 1) and slopes (p >= 2) at both ends of the period
    if sp.periodic and not unwrapped:
        for der in ((0, 1) if sp.deg >= 2 else (0,)):
            case = dict(base, der=der, entry='periodic ends')
            v = guarded(chk, 'Spline1D.eval(scalar)', case, lambda: (s.eval(sp.a, der), s.eval(sp.bnd, der)))
            if v is not None and not abs(v[0] - v[1]) <= ORACLE_RTOL * sp.oscale(cmax, der):
                chk.fail('C07:periodic-ends', 'periodic spline takes different %s at the two ends of the period' % ('slopes' if der else 'values'),
                         case, expected=float(v[0]), actual=float(v[1]))
            chk.count('periodic end checks')


def check_getitem(chk, drv, sp, rng, nrand):
    """BSplines[i] is basis function i (as a Spline1D); on the whole basis: partition of unity, >= 0, slopes sum to 0"""
    xs = sp.xs(rng, nrand)
    nb = sp.b.nbasis
    factor = 32.0 * (sp.deg + 2)
    tot = {0: np.zeros(len(xs)), 1: np.zeros(len(xs))}
    tot_abs = np.zeros(len(xs))
    M = {0: sp.ref_matrix(xs, 0), 1: sp.ref_matrix(xs, 1)}
    done = True
    for i in range(nb):
        case0 = {'space': sp.desc(), 'entry': 'BSplines.__getitem__', 'i': i}
        spl = guarded(chk, 'BSplines.__getitem__', case0, lambda: sp.b[i])
        if spl is None:
            done = False
            continue
        e = np.zeros(sp.ncoef)
        e[i] = 1.0
        sp.wrap(e)
        if not np.array_equal(np.asarray(spl.coeffs), e):
            chk.fail('C07:getitem-coeffs', 'BSplines[i] does not carry the unit coefficient vector (with periodic wrap)',
                     case0, expected=e.tolist(), actual=np.asarray(spl.coeffs).tolist())
        if i % 2 == 0:
            # a spline obtained through BSplines[i] belongs to the caller: using it as a work spline must not change what the
            # basis returns the next time
            tmp = guarded(chk, 'BSplines.__getitem__', case0, lambda: sp.b[i])
            if tmp is not None:
                tmp.coeffs[:] = 7.0
                again = guarded(chk, 'BSplines.__getitem__', case0, lambda: sp.b[i])
                if again is not None and not np.array_equal(np.asarray(again.coeffs), e):
                    chk.fail('C07:getitem-aliased', 'BSplines[i] returns a spline whose coefficients were modified through an earlier BSplines[i]',
                             case0, expected=e.tolist(), actual=np.asarray(again.coeffs).tolist())
                spl = again if again is not None else spl
        for der in (0, 1):
            ys = guarded(chk, 'BSplines.__getitem__', dict(case0, der=der), lambda: spl.eval(xs.copy(), der))
            if ys is None:
                done = False
                continue
            tot[der] += ys
            if der:
                tot_abs += np.abs(ys)
            mo = drv.call(sp.req1d(e, xs, der))
            ref = M[der] @ e
            for k, x in enumerate(xs):
                if der and sp.deg == 1 and not sp.discont_ok(x):
                    continue
                case = dict(case0, der=der, x=float(x), x_hex=hx(x), coeffs_hex=hxs(e))
                v = float(ys[k])
                cmp_oracle(chk, 'C07:BSplines.__getitem__', 'basis function i evaluated through BSplines[i] differs from B_i',
                           case, v, ref[k], sp.oscale(1.0, der))
                cmp_model(chk, 'BSplines.__getitem__', case, v, mo['ys'][k], mo['scales'][k], factor, sp.lip(x, 1.0, der))
                if not der and v < -8 * EPS:
                    chk.fail('C07:nonneg', 'a basis function is negative inside the domain', case, expected='>= 0', actual=v)
            chk.case(('getitem', sp.key(), i, der), nontrivial=True)
    if done:
        for k, x in enumerate(xs):
            case = {'space': sp.desc(), 'entry': 'sum over BSplines[i]', 'x': float(x), 'x_hex': hx(x)}
            if abs(tot[0][k] - 1.0) > 64 * (sp.deg + 2) * EPS * (1 + (abs(x - sp.xmin) / sp.dx if sp.cu else 0)):
                chk.fail('C07:partition', 'the basis functions do not sum to one', case, expected=1.0, actual=float(tot[0][k]))
            if sp.deg == 1 and not sp.discont_ok(x):
                continue
            if abs(tot[1][k]) > 64 * (sp.deg + 2) * EPS * (tot_abs[k] * sp.deg + sp.deg / sp.hmin):
                chk.fail('C07:ders-sum', 'the first derivatives of the basis functions do not sum to zero', case,
                         expected=0.0, actual=float(tot[1][k]))
        chk.count('partition-of-unity / derivative-sum checks', len(xs))


# ----------------------------------------------------------------------------------------------
# raw kernels

def check_nu_kernels(chk, drv, sp, rng, nrand):
    from pygyro.splines.spline_eval_funcs import nu_find_span, nu_basis_funs, nu_basis_funs_1st_der
    kn, p = np.array(sp.kn, float), sp.deg
    xs = list(sp.xs(rng, nrand))
    reqs, impl = [], []
    knr = common.rats(kn)
    from scipy.interpolate import BSpline
    n = len(kn) - p - 1
    B = BSpline(kn, np.eye(n), p, extrapolate=False)
    M = {0: np.asarray(B(np.array(xs), nu=0)), 1: np.asarray(B(np.array(xs), nu=1))}
    for k, x in enumerate(xs):
        x = float(x)
        case0 = {'space': sp.desc(), 'entry': 'nu_find_span', 'x': x, 'x_hex': hx(x), 'knots_hex': hxs(kn)}
        span = guarded(chk, 'nu_find_span', case0, lambda: int(nu_find_span(kn, p, x)))
        if span is None:
            continue
        # oracle: the cell that contains x (last cell at the right end)
        exp = int(np.searchsorted(kn, x, side='right') - 1)
        exp = min(max(exp, p), len(kn) - 2 - p)
        if span != exp and sp.discont_ok(x):
            chk.fail('C07:nu_find_span', 'span index is not the cell containing x (first/last cell at the ends)', case0, exp, span)
        if not (p <= span <= len(kn) - 2 - p):
            chk.fail('C07:nu_find_span-range', 'span outside [degree, len(knots)-2-degree]', case0, [p, len(kn) - 2 - p], span)
            continue
        ms = drv.call({'op': 'find_span', 'knots': knr, 'degree': p, 'x': common.rat(x)})['span']
        if sp.discont_ok(x) and ms != span:
            chk.diff('nu_find_span', case0, ms, span)
        chk.case(('nu_find_span', sp.key(), k))
        for der, fn in ((0, nu_basis_funs), (1, nu_basis_funs_1st_der)):
            vals = np.full(p + 1, np.nan)
            case = dict(case0, entry=fn.__name__, span=span)
            if guarded(chk, fn.__name__, case, lambda: (fn(kn, p, x, span, vals), True)[1]) is None:
                continue
            mo = drv.call({'op': 'basis', 'knots': knr, 'degree': p, 'x': common.rat(x), 'span': span, 'der': bool(der)})
            skip_disc = der and p == 1 and not sp.discont_ok(x)
            for r in range(p + 1):
                cmp_model(chk, fn.__name__, dict(case, r=r), float(vals[r]), mo['values'][r], mo['abs'][r], 32.0 * (p + 2))
                if span == exp and not skip_disc:
                    cmp_oracle(chk, 'C07:' + fn.__name__, 'kernel output r is not %s of basis function span-degree+r' % ('the derivative' if der else 'the value'),
                               dict(case, r=r), float(vals[r]), M[der][k, span - p + r], (p / sp.hmin) if der else 1.0)
            if not der:
                if abs(float(np.sum(vals)) - 1.0) > 64 * (p + 2) * EPS:
                    chk.fail('C07:partition', 'nu_basis_funs values do not sum to one', case, 1.0, float(np.sum(vals)))
                if np.min(vals) < 0:
                    chk.fail('C07:nonneg', 'nu_basis_funs returns a negative value inside the cell', case, '>= 0', float(np.min(vals)))
            else:
                sab = float(np.sum(np.abs(np.cumsum(vals)))) + float(np.sum(np.abs(vals)))
                if abs(float(np.sum(vals))) > 64 * (p + 2) * EPS * sab:
                    chk.fail('C07:ders-sum', 'nu_basis_funs_1st_der values do not sum to zero', case, 0.0, float(np.sum(vals)))
            chk.case((fn.__name__, sp.key(), k))
    chk.count('raw nu_* kernel points', len(xs))


def check_cu_kernels(chk, drv, sp, rng, nrand):
    from pygyro.splines.cubic_uniform_spline_eval_funcs import cu_find_span, cu_basis_funs, cu_basis_funs_1st_der
    from pygyro.splines.spline_eval_funcs import nu_find_span, nu_basis_funs, nu_basis_funs_1st_der
    xs = list(sp.xs(rng, nrand))
    M = {0: sp.ref_matrix(xs, 0), 1: sp.ref_matrix(xs, 1)}
    for k, x in enumerate(xs):
        x = float(x)
        case0 = {'space': sp.desc(), 'entry': 'cu_find_span', 'x': x, 'x_hex': hx(x)}
        so = guarded(chk, 'cu_find_span', case0, lambda: cu_find_span(sp.xmin, sp.xmax, sp.dx, x, sp.ncells))
        if so is None:
            continue
        span, off = int(so[0]), float(so[1])
        mo = drv.call({'op': 'cu_find_span', 'xmin': common.rat(sp.xmin), 'dx': common.rat(sp.dx), 'x': common.rat(x), 'ncells': sp.ncells})
        npos = abs(x - sp.xmin) / sp.dx
        if not (3 <= span <= sp.nc + 2):
            chk.fail('C07:cu_find_span-range', 'span outside [3, ncells+2] for x in the closed domain', case0, [3, sp.nc + 2], span)
            continue
        if sp.discont_ok(x):
            exp = min(int(np.searchsorted(sp.breaks, x, side='right') - 1), sp.nc - 1) + 3
            if span != exp:
                chk.fail('C07:cu_find_span', 'span index is not 3 + the cell containing x (last cell at the right end)', case0, exp, span)
            gspan = guarded(chk, 'nu_find_span', case0, lambda: int(nu_find_span(sp.tf, 3, x)))
            if gspan is not None and gspan != span:
                chk.fail('C07:cubic-vs-general', 'cu_find_span and nu_find_span (on the uniform knot vector) pick different cells',
                         case0, gspan, span)
            if mo['span'] != span:
                chk.diff('cu_find_span span', case0, mo['span'], span)
            elif abs(Fr(off) - Fr(mo['offset'])) > 4 * Fr(EPS) * Fr(max(1.0, npos)):
                chk.diff('cu_find_span offset', case0, float(Fr(mo['offset'])), off)
        # position represented by (span, offset) must be x:  xmin + (span-3+offset)*dx
        xr = sp.xmin + (span - 3 + off) * sp.dx
        if abs(xr - x) > 16 * EPS * (abs(x) + abs(sp.xmin) + (npos + 1) * abs(sp.dx)):
            chk.fail('C07:cu_find_span-offset', '(span, offset) does not represent x', case0, x, xr)
        chk.case(('cu_find_span', sp.key(), k))
        for der in (0, 1):
            vals = np.full(4, np.nan)
            name = 'cu_basis_funs_1st_der' if der else 'cu_basis_funs'
            case = dict(case0, entry=name, span=span, offset=off, offset_hex=hx(off))
            call = (lambda: (cu_basis_funs_1st_der(span, off, sp.dx, vals), True)[1]) if der else (lambda: (cu_basis_funs(span, off, vals), True)[1])
            if guarded(chk, name, case, call) is None:
                continue
            mb = drv.call({'op': 'cu_basis', 'offset': common.rat(off), 'dx': common.rat(sp.dx), 'der': bool(der)})
            # general kernels on the uniform knot vector the cubic path means, same cell (cubic path vs general path)
            gen = np.full(4, np.nan)
            (nu_basis_funs_1st_der if der else nu_basis_funs)(sp.tf, 3, x, span, gen)
            osc = (3.0 / sp.dx if der else 1.0) * (1 + npos)
            for r in range(4):
                cmp_model(chk, name, dict(case, r=r), float(vals[r]), mb['values'][r], mb['abs'][r], 64.0)
                cmp_oracle(chk, 'C07:' + name, 'closed form r is not %s of basis function span-3+r of the uniform knot vector' % ('the derivative' if der else 'the value'),
                           dict(case, r=r), float(vals[r]), M[der][k, span - 3 + r], osc)
                if abs(vals[r] - gen[r]) > ORACLE_RTOL * osc:
                    chk.fail('C07:cubic-vs-general', 'uniform-cubic closed form differs from the general kernel on the same knots and cell',
                             dict(case, r=r), float(gen[r]), float(vals[r]))
            if not der:
                if abs(float(np.sum(vals)) - 1.0) > 64 * EPS:
                    chk.fail('C07:partition', 'cu_basis_funs values do not sum to one', case, 1.0, float(np.sum(vals)))
                if np.min(vals) < 0:
                    chk.fail('C07:nonneg', 'cu_basis_funs returns a negative value', case, '>= 0', float(np.min(vals)))
            elif abs(float(np.sum(vals))) > 64 * EPS * 8 / sp.dx:
                chk.fail('C07:ders-sum', 'cu_basis_funs_1st_der values do not sum to zero', case, 0.0, float(np.sum(vals)))
            chk.case((name, sp.key(), k))
    chk.count('raw cu_* kernel points', len(xs))


def check_cubic_vs_general(chk, sp, rng):
    """periodic uniform cubic space through both dispatch branches of Spline1D (uniform flag True / False)"""
    from pygyro.splines.splines import Spline1D
    if not (sp.cu and sp.periodic):
        return
    g = build(chk, 3, True, sp.kind, sp.breaks, uniform_flag=False)
    if g is None:
        return
    assert not g.cu
    c = sp.wrap(np.array([rng.uniform(-2, 2) for _ in range(sp.ncoef)]))
    s1, s2 = Spline1D(sp.b), Spline1D(g.b)
    s1.coeffs[:] = c
    s2.coeffs[:] = c
    xs = sp.xs(rng, 6)
    for der in (0, 1):
        case0 = {'space': sp.desc(), 'coeffs_hex': hxs(c), 'der': der, 'entry': 'cubic path vs general path'}
        y1 = guarded(chk, 'Spline1D.eval(array)', case0, lambda: s1.eval(xs.copy(), der))
        y2 = guarded(chk, 'Spline1D.eval(array)', case0, lambda: s2.eval(xs.copy(), der))
        if y1 is None or y2 is None:
            continue
        osc = sp.oscale(float(np.max(np.abs(c))), der) * (1 + sp.nc)
        for k, x in enumerate(xs):
            if abs(y1[k] - y2[k]) > ORACLE_RTOL * osc:
                chk.fail('C07:cubic-vs-general', 'uniform-cubic fast path and general path give different functions on the same space',
                         dict(case0, x=float(x), x_hex=hx(x)), float(y2[k]), float(y1[k]))
        chk.count('cubic-vs-general points', len(xs))


# ----------------------------------------------------------------------------------------------
# 2-D entry points

def pick2d(sp, rng, n):
    xs = sp.xs(rng, 3)
    must = [sp.a, sp.bnd] + list(getattr(sp, 'extra', []))
    rest = [float(v) for v in xs if v not in must]
    rng.shuffle(rest)
    return np.array(must + rest[:max(0, n - 2)])


def check_2d(chk, drv, s1, s2, rng, npts):
    from pygyro.splines.splines import Spline2D
    from pygyro.splines import spline_eval_funcs as nu
    from pygyro.splines import cubic_uniform_spline_eval_funcs as cu
    S = Spline2D(s1.b, s2.b)
    C = np.array([[rng.uniform(-2, 2) for _ in range(s2.ncoef)] for _ in range(s1.ncoef)])
    if s1.periodic:
        C[s1.nc:s1.nc + s1.deg, :] = C[0:s1.deg, :]
    if s2.periodic:
        C[:, s2.nc:s2.nc + s2.deg] = C[:, 0:s2.deg]
    S.coeffs[:, :] = C
    X, Y = pick2d(s1, rng, npts), pick2d(s2, rng, npts)
    cmax = float(np.max(np.abs(C)))
    base = {'space1': s1.desc(), 'space2': s2.desc(), 'coeffs_hex': [hxs(r) for r in C]}
    Cr = [common.rats(r) for r in C]
    factor = 32.0 * (s1.deg + s2.deg + 4)
    nz = min(len(X), len(Y))
    Xz, Yz = X[:nz].copy(), Y[::-1][:nz].copy()
    vec_kernel = cu.cu_eval_spline_2d_vector if s1.cu else nu.nu_eval_spline_2d_vector
    held2 = []       # tensor-grid results kept by the caller across later evaluations (of this and of another spline on the same grid)
    for d1 in (0, 1):
        for d2 in (0, 1):
            case0 = dict(base, der1=d1, der2=d2)
            if s1.cu:
                rq = {'op': 'cu_eval2d', 'xmin': common.rat(s1.xmin), 'dx': common.rat(s1.dx), 'ncx': s1.ncells,
                      'ymin': common.rat(s2.xmin), 'dy': common.rat(s2.dx), 'ncy': s2.ncells, 'coeffs': Cr,
                      'der1': bool(d1), 'der2': bool(d2)}
            else:
                rq = {'op': 'eval2d', 'knots1': common.rats(s1.tf), 'deg1': s1.deg, 'knots2': common.rats(s2.tf), 'deg2': s2.deg,
                      'coeffs': Cr, 'der1': bool(d1), 'der2': bool(d2)}
            mc = drv.call(dict(rq, xs=common.rats(X), ys=common.rats(Y), mode='cross'))
            mz = drv.call(dict(rq, xs=common.rats(Xz), ys=common.rats(Yz), mode='zip'))
            M1, M2 = s1.ref_matrix(X, d1), s2.ref_matrix(Y, d2)
            R = M1 @ C @ M2.T
            Rz = np.einsum('ki,ij,kj->k', s1.ref_matrix(Xz, d1), C, s2.ref_matrix(Yz, d2))
            osc = cmax * ((s1.deg / s1.hmin) if d1 else 1.0) * ((s2.deg / s2.hmin) if d2 else 1.0)
            # the three public entry points + the raw zip kernel
            Zs = guarded(chk, 'Spline2D.eval(scalar)', case0, lambda: np.array([[S.eval(float(x), float(y), d1, d2) for y in Y] for x in X]))
            Zc = guarded(chk, 'Spline2D.eval(cross)', case0, lambda: S.eval(X.copy(), Y.copy(), d1, d2))
            if Zc is not None:
                held2.append((d1, d2, Zc, np.array(Zc, copy=True)))
            Zv = np.full((len(X), len(Y)), np.nan) if d1 == d2 else np.full((len(X), len(Y), 2), np.nan)[:, :, 1]   # strided view
            okv = guarded(chk, 'Spline2D.eval_vector', case0, lambda: (S.eval_vector(X.copy(), Y.copy(), Zv, d1, d2), True)[1])
            zz = np.full(nz, np.nan)
            okz = guarded(chk, vec_kernel.__name__, case0,
                          lambda: (vec_kernel(Xz.copy(), Yz.copy(), s1.b.knots, s1.deg, s2.b.knots, s2.deg, S.coeffs, zz, d1, d2), True)[1])

            def skip(x, y):
                return (d1 and s1.deg == 1 and not s1.discont_ok(x)) or (d2 and s2.deg == 1 and not s2.discont_ok(y))

            def extra(x, y):
                if not s1.cu:
                    return Fr(0)
                l1, l2 = s1.lip(x, 1.0, d1), s2.lip(y, 1.0, d2)
                m1 = Fr(3) / Fr(s1.dx) if d1 else Fr(1)
                m2 = Fr(3) / Fr(s2.dx) if d2 else Fr(1)
                return Fr(cmax) * 16 * (l1 * m2 + l2 * m1)
            for i, x in enumerate(X):
                for j, y in enumerate(Y):
                    if skip(x, y):
                        chk.count('skipped: slope of a degree-1 spline next to a breakpoint')
                        continue
                    for entry, Z in (('Spline2D.eval(scalar)', Zs), ('Spline2D.eval(cross)', Zc), ('Spline2D.eval_vector', Zv if okv else None)):
                        if Z is None:
                            continue
                        case = dict(case0, entry=entry, x=float(x), y=float(y), x_hex=hx(x), y_hex=hx(y))
                        v = float(Z[i, j])
                        cmp_oracle(chk, 'C07:' + entry, entry + ' differs from the tensor-product B-spline', case, v, R[i, j], osc)
                        cmp_model(chk, entry, case, v, mc['zs'][i][j], mc['scales'][i][j], factor, extra(x, y))
                    chk.case(('2d', s1.key(), s2.key(), d1, d2, i, j), nontrivial=True,
                             sample={'space1': s1.desc(), 'space2': s2.desc(), 'x': float(x), 'y': float(y), 'der': [d1, d2],
                                     'impl': float(Zc[i, j]) if Zc is not None else None, 'model': float(Fr(mc['zs'][i][j]))}
                             if (i, j, d1, d2) == (1, 2, 1, 1) else None)
            # point orders that re-visit cells: the second-direction points start and end in the same cell (a cut at one x2, a
            # zoom inside one cell, a sequence that returns to where it started) while the first-direction points cross cells
            # back and forth; the tensor-grid entry points may not carry anything over from one row / cell to the next
            Xp = np.array(list(X) + list(X[::-1][:2]))
            for tag, Yp in (('returns', np.array(list(Y) + [Y[0]])), ('single', np.array([Y[len(Y) // 2]])),
                            ('one-cell', np.array([Y[0], Y[0], Y[0]]))):
                Rp = s1.ref_matrix(Xp, d1) @ C @ s2.ref_matrix(Yp, d2).T
                Zp = guarded(chk, 'Spline2D.eval(cross)', dict(case0, order=tag), lambda: S.eval(Xp.copy(), Yp.copy(), d1, d2))
                Zq = np.full((len(Xp), len(Yp)), np.nan)
                okq = guarded(chk, 'Spline2D.eval_vector', dict(case0, order=tag), lambda: (S.eval_vector(Xp.copy(), Yp.copy(), Zq, d1, d2), True)[1])
                for entry, Z in (('Spline2D.eval(cross)', Zp), ('Spline2D.eval_vector', Zq if okq else None)):
                    if Z is None:
                        continue
                    for i, x in enumerate(Xp):
                        for j, y in enumerate(Yp):
                            if skip(x, y):
                                continue
                            cmp_oracle(chk, 'C07:' + entry, entry + ' differs from the tensor-product B-spline (point order: %s)' % tag,
                                       dict(case0, entry=entry, order=tag, xs_hex=hxs(Xp), ys_hex=hxs(Yp), x=float(x), y=float(y)),
                                       float(np.asarray(Z)[i, j]), Rp[i, j], osc)
                chk.count('2-D re-visiting point orders')
            if okz:
                for k in range(nz):
                    if skip(Xz[k], Yz[k]):
                        continue
                    case = dict(case0, entry=vec_kernel.__name__, x=float(Xz[k]), y=float(Yz[k]), x_hex=hx(Xz[k]), y_hex=hx(Yz[k]))
                    cmp_oracle(chk, 'C07:' + vec_kernel.__name__, 'point-list 2-D kernel differs from the tensor-product B-spline', case, float(zz[k]), Rz[k], osc)
                    cmp_model(chk, vec_kernel.__name__, case, float(zz[k]), mz['zs'][k], mz['scales'][k], factor, extra(Xz[k], Yz[k]))
            chk.count('2-D %s (der1,der2)=(%d,%d)' % ('cubic-uniform' if s1.cu else 'general', d1, d2), len(X) * len(Y))
    S2 = Spline2D(s1.b, s2.b)                      # another spline on the same spaces, evaluated on the same grid
    S2.coeffs[:, :] = -0.5 * C
    guarded(chk, 'Spline2D.eval(cross)', base, lambda: S2.eval(X.copy(), Y.copy()))
    for hd1, hd2, arr, snap in held2:
        if not np.array_equal(np.asarray(arr), snap, equal_nan=True):
            chk.fail('C07:result-aliased', 'the array returned by Spline2D.eval(x1, x2, %d, %d) changed when a spline was evaluated on a grid of '
                     'the same shape afterwards: the result is not the caller\'s own array' % (hd1, hd2),
                     dict(base, der1=hd1, der2=hd2, xs_hex=hxs(X), ys_hex=hxs(Y)))
            break
    # periodic seam in 2-D (value and the slope across the seam)
    for dim, sp in ((0, s1), (1, s2)):
        if not sp.periodic:
            continue
        oth = Y if dim == 0 else X
        for der in ((0, 1) if sp.deg >= 2 else (0,)):
            for o in oth[:3]:
                d = (der, 0) if dim == 0 else (0, der)
                pa = (sp.a, float(o)) if dim == 0 else (float(o), sp.a)
                pb = (sp.bnd, float(o)) if dim == 0 else (float(o), sp.bnd)
                case = dict(base, entry='periodic ends (2-D)', dim=dim, der=der, at=float(o))
                v = guarded(chk, 'Spline2D.eval(scalar)', case, lambda: (S.eval(pa[0], pa[1], d[0], d[1]), S.eval(pb[0], pb[1], d[0], d[1])))
                if v is not None and not abs(v[0] - v[1]) <= ORACLE_RTOL * cmax * ((sp.deg / sp.hmin) if der else 1.0):
                    chk.fail('C07:periodic-ends', 'periodic 2-D spline differs across the seam', case, float(v[0]), float(v[1]))


# ----------------------------------------------------------------------------------------------
# exact oracle for the failing-input search: Cox-de Boor in fractions (independent of the Lean model)

def check_2d_mixed(chk, sa, sb, rng):
    """a 2-D spline whose two directions are of different kinds (one uniform cubic = fast path, one general): today the constructor refuses
    the pair (assert); if it is ever accepted, the values must be the tensor-product spline with EACH direction on the knot vector its own
    1-D path uses (a clamped uniform-cubic direction lives on the uniformly continued knots, not on clamped ones)"""
    from pygyro.splines.splines import Spline2D
    for s1, s2 in ((sa, sb), (sb, sa)):
        case = {'space1': s1.desc(), 'space2': s2.desc(), 'entry': 'Spline2D of a uniform-cubic and a general direction'}
        try:
            S = Spline2D(s1.b, s2.b)
        except (AssertionError, NotImplementedError, ValueError, TypeError):
            chk.count('2-D mixed kinds: refused by the constructor')
            continue
        C = np.array([[rng.uniform(-2, 2) for _ in range(s2.ncoef)] for _ in range(s1.ncoef)])
        if s1.periodic:
            C[s1.nc:s1.nc + s1.deg, :] = C[0:s1.deg, :]
        if s2.periodic:
            C[:, s2.nc:s2.nc + s2.deg] = C[:, 0:s2.deg]
        S.coeffs[:, :] = C
        X, Y = pick2d(s1, rng, 6), pick2d(s2, rng, 6)
        cmax = float(np.max(np.abs(C)))
        for d1, d2 in ((0, 0), (1, 0), (0, 1)):
            ref = s1.ref_matrix(X, d1) @ C @ s2.ref_matrix(Y, d2).T
            osc = s1.oscale(1.0, d1) * s2.oscale(1.0, d2) * cmax
            for i, x in enumerate(X):
                for j, y in enumerate(Y):
                    if (d1 and s1.deg == 1 and not s1.discont_ok(x)) or (d2 and s2.deg == 1 and not s2.discont_ok(y)):
                        continue
                    c = dict(case, der1=d1, der2=d2, x=float(x), y=float(y))
                    v = guarded(chk, 'Spline2D.eval(scalar)', c, lambda: float(S.eval(float(x), float(y), d1, d2)))
                    if v is None:
                        return
                    cmp_oracle(chk, 'C07:Spline2D-mixed-kinds', 'a 2-D spline with one uniform-cubic and one general direction was accepted and differs from '
                               'the tensor product of the two 1-D bases', c, v, float(ref[i, j]), osc)
                    chk.case(('2dmixed', s1.key(), s2.key(), d1, d2, i, j), nontrivial=True)
        chk.count('2-D mixed kinds: accepted and compared')


def exact_basis(t, p, x, nu):
    """all N_{i,p}^{(nu)}(x), i < len(t)-p-1, as Fractions; right-continuous, left limit at the right end"""
    n = len(t) - p - 1
    mu = None
    for i in range(p, n):
        if t[i] <= x < t[i + 1]:
            mu = i
    if mu is None:
        if x >= t[n]:
            mu = max(i for i in range(p, n) if t[i] < t[i + 1])
        else:
            mu = min(i for i in range(p, n) if t[i] < t[i + 1])
    q = p - nu
    Nq = [Fr(1) if i == mu else Fr(0) for i in range(len(t) - 1)]
    for d in range(1, q + 1):
        new = []
        for i in range(len(t) - 1 - d):
            a = (x - t[i]) / (t[i + d] - t[i]) * Nq[i] if t[i + d] != t[i] else Fr(0)
            b = (t[i + d + 1] - x) / (t[i + d + 1] - t[i + 1]) * Nq[i + 1] if t[i + d + 1] != t[i + 1] else Fr(0)
            new.append(a + b)
        Nq = new
    if nu == 0:
        return Nq[:n]
    out = []
    for i in range(n):
        a = p * Nq[i] / (t[i + p] - t[i]) if t[i + p] != t[i] else Fr(0)
        b = p * Nq[i + 1] / (t[i + p + 1] - t[i + 1]) if t[i + p + 1] != t[i + 1] else Fr(0)
        out.append(a - b)
    return out


def exact_decide(d):
    """re-decide one recorded correspondence difference with the exact oracle; returns a failure record or None"""
    case = d['case']
    if 'impl_hex' not in case:
        return None
    impl = Fr(float.fromhex(case['impl_hex']))
    if 'space' in case and 'coeffs_hex' in case and 'x_hex' in case:
        sp = Space.from_desc(case['space'])
        t, p = sp.tfrac(), (3 if sp.cu else sp.deg)
        c = [Fr(v) for v in unhx(case['coeffs_hex'])]
        x = Fr(float.fromhex(case['x_hex']))
        Bv = exact_basis(t, p, x, case['der'])
        val = sum(ci * bi for ci, bi in zip(c, Bv))
        sc = sum(abs(ci * bi) for ci, bi in zip(c, Bv))
        if case['der']:
            sc += max(abs(ci) for ci in c) * p / Fr(sp.hmin)
    elif 'space1' in case and 'x_hex' in case:
        s1, s2 = Space.from_desc(case['space1']), Space.from_desc(case['space2'])
        C = [[Fr(v) for v in unhx(r)] for r in case['coeffs_hex']]
        x, y = Fr(float.fromhex(case['x_hex'])), Fr(float.fromhex(case['y_hex']))
        B1 = exact_basis(s1.tfrac(), 3 if s1.cu else s1.deg, x, case['der1'])
        B2 = exact_basis(s2.tfrac(), 3 if s2.cu else s2.deg, y, case['der2'])
        val = sum(C[i][j] * B1[i] * B2[j] for i in range(len(B1)) for j in range(len(B2)))
        cm = max(abs(v) for r in C for v in r)
        sc = cm * ((s1.deg / Fr(s1.hmin)) if case['der1'] else 1) * ((s2.deg / Fr(s2.hmin)) if case['der2'] else 1)
    else:
        return None
    if abs(impl - val) > Fr(2) ** -36 * sc:
        return {'signature': 'C07:' + str(case.get('entry')), 'what': str(case.get('entry')) + ' differs from the exact Cox-de Boor value',
                'case': case, 'expected': float(val), 'actual': float(impl)}
    return None


# ----------------------------------------------------------------------------------------------

def replay(chk, drv):
    rp = json.load(open(chk.replay))
    case = rp.get('case') or {}
    rng = chk.rng

    def extra(sp, key):
        if key in case:
            sp.extra = [float.fromhex(case[key])]
        return sp
    if 'space' in case:
        sp = extra(build(chk, *[case['space'][k] for k in ('degree', 'periodic', 'kind')], unhx(case['space']['breaks_hex']),
                         case['space']['uniform_flag']), 'x_hex')
        print('replaying the 1-D checks on', sp.desc(), 'extra x:', getattr(sp, 'extra', None))
        check_1d(chk, drv, sp, rng, 8)
        check_getitem(chk, drv, sp, rng, 2)
        (check_cu_kernels if sp.cu else check_nu_kernels)(chk, drv, sp, rng, 4)
        check_cubic_vs_general(chk, sp, rng)
    elif 'space1' in case:
        s1 = extra(Space.from_desc(case['space1']), 'x_hex')
        s2 = extra(Space.from_desc(case['space2']), 'y_hex')
        print('replaying the 2-D checks on', s1.desc(), s2.desc())
        check_2d(chk, drv, s1, s2, rng, 8)
    elif case.get('entry') == 'BSplines.__init__':
        print('replaying the construction of', {k: case[k] for k in ('degree', 'periodic', 'kind', 'breaks')})
        build(chk, case['degree'], case['periodic'], case['kind'], unhx(case['breaks_hex']), case['uniform_flag'])
    elif case.get('entry') == 'nu_find_span':
        from pygyro.splines.spline_eval_funcs import nu_find_span
        kn = unhx(case['knots_hex'])
        print('replaying nu_find_span(knots, %d, %r)' % (case['degree'], case['x']))
        r = guarded(chk, 'nu_find_span', case, lambda: int(nu_find_span(kn, case['degree'], float(case['x']))))
        print('returned', r)
    else:
        print('replay file names no failing input (kind=%s); running the full check instead' % rp.get('kind'))
        chk.replay = None
        return False
    return True


def run(chk):
    common.use_repo(sim_mpi=False)
    chk.rule = ('spaces: degree 1-5 (1-D: to 10 in thorough) x clamped/periodic x {uniform,non-uniform} x {dyadic = exact family, '
                'generic floats}; x = every breakpoint, both ends, one ulp on each side of every breakpoint, random interior; '
                'random coefficients (periodic wrap); all (der1,der2); a case = (entry point family, space, derivative, point)')
    # Props/C07Gen.lean is about the span search REGENERATED from spline_eval_funcs.py
    common.run_translator(chk, 'translate_pure.py', '--only', 'findspan')
    common.run_translator(chk, 'translate_pure.py', '--only', 'basisfuns')
    common.run_translator(chk, 'translate_pure.py', '--only', 'eval1d')
    # Props/C07Gen3.lean: the uniform-cubic kernels (Generated/CubicUniformGen.lean, `int(x)` = truncation toward zero)
    common.run_translator(chk, 'translate_pure.py', '--only', 'cueval')
    # Props/C07Gen4.lean: the vector entry points (Generated/EvalVectorGen.lean), tied to the generated scalar kernels above
    common.run_translator(chk, 'translate_pure.py', '--only', 'evalvec')
    # Props/C07Gen5.lean: the 2-D scalar kernels (Generated/Eval2DGen.lean), calling the generated 1-D kernels above
    common.run_translator(chk, 'translate_pure.py', '--only', 'eval2d')
    # Props/C07Gen6.lean / C07Gen7.lean: the 2-D cross and vector entry points (Generated/Cross2DGen.lean, Vec2DGen.lean), tied to the scalar kernels above
    common.run_translator(chk, 'translate_pure.py', '--only', 'cross2d')
    common.run_translator(chk, 'translate_pure.py', '--only', 'vec2d')
    chk.proof_side(build=not getattr(chk, 'no_build', False), extra_props=('C07Gen', 'C07Gen2', 'C07Gen3', 'C07Gen4', 'C07Gen5', 'C07Gen6', 'C07Gen7'))
    drv = common.LeanDriver('C07.lean')
    rng = chk.rng
    try:
        if chk.replay and replay(chk, drv):
            pass
        else:
            degs1 = list(range(1, chk.n(6, 11)))
            # 1-D: every (degree, boundary, kind) at least once
            for rep in range(chk.n(2, 4)):
                for deg in degs1:
                    for periodic in (False, True):
                        for kind in KINDS:
                            if deg > 5 and rep > 0:
                                continue
                            sp = random_space(chk, deg, periodic, kind)
                            if sp is None:
                                continue
                            check_1d(chk, drv, sp, rng, chk.n(4, 10))
                            if deg <= 5 and (rep > 0 or kind in (KINDS[1], KINDS[2]) or deg == 3):
                                check_getitem(chk, drv, sp, rng, chk.n(1, 3))
                            if deg <= 5 or rep == 0:
                                if sp.cu:
                                    check_cu_kernels(chk, drv, sp, rng, chk.n(3, 8))
                                    check_cubic_vs_general(chk, sp, rng)
                                    # the general kernels on the same breakpoints (uniform flag off)
                                    g = build(chk, 3, periodic, kind, sp.breaks, uniform_flag=False)
                                    if g is not None:
                                        check_nu_kernels(chk, drv, g, rng, 2)
                                else:
                                    check_nu_kernels(chk, drv, sp, rng, chk.n(2, 6))
            # uniform cubic spaces far from the origin (the cell coordinate (x - xmin)/dx must not lose digits), and spaces that are
            # nearly but not exactly equidistant and declared non-uniform (the general path is the only valid one)
            for rep in range(chk.n(3, 12)):
                for periodic in (False, True):
                    sp = build(chk, 3, periodic, 'uniform-far', make_breaks(rng, 'uniform-far', rng.randint(4, 9)))
                    if sp is not None:
                        check_1d(chk, drv, sp, rng, chk.n(4, 10))
                        if sp.cu:
                            check_cu_kernels(chk, drv, sp, rng, chk.n(2, 6))
                    d_ = 3 if rep % 2 == 0 else rng.randint(2, 5)
                    sp = build(chk, d_, periodic, 'nearly-uniform', make_breaks(rng, 'nearly-uniform', rng.randint(max(d_, 4), 9)), uniform_flag=False)
                    if sp is not None:
                        check_1d(chk, drv, sp, rng, chk.n(4, 10))
            # smallest spaces (one cell clamped = Bezier; periodic with ncells = degree)
            for deg in range(1, 6):
                for periodic in (False, True):
                    nc = deg if periodic else 1
                    kind = rng.choice(KINDS)
                    sp = build(chk, deg, periodic, kind, make_breaks(rng, kind, nc))
                    if sp is None:
                        continue
                    check_1d(chk, drv, sp, rng, 3)
                    check_getitem(chk, drv, sp, rng, 1)
            # 2-D: general x general (independent degree / boundary / kind), cubic x cubic
            for it in range(chk.n(24, 120)):
                if it % 4 == 3:
                    s1 = random_space(chk, 3, kind=rng.choice(KINDS[0::2]))
                    s2 = random_space(chk, 3, kind=rng.choice(KINDS[0::2]))
                else:
                    d1, d2 = rng.randint(1, 5), rng.randint(1, 5)
                    if it % 4 == 0:   # non-uniform breakpoints in both directions, different degrees
                        s1 = random_space(chk, d1, kind=rng.choice(KINDS[1::2]))
                        s2 = random_space(chk, (d2 % 5) + 1 if d2 == d1 else d2, kind=rng.choice(KINDS[1::2]))
                    else:
                        s1 = random_space(chk, d1, force_general=(d1 == 3))
                        s2 = random_space(chk, d2, force_general=(d2 == 3))
                if s1 is None or s2 is None:
                    continue
                check_2d(chk, drv, s1, s2, rng, chk.n(5, 7))
            # one uniform-cubic and one general direction (clamped / periodic cubic x any degree)
            for k in range(chk.n(4, 12)):
                sa = random_space(chk, 3, periodic=bool(k % 2), kind=KINDS[0])
                sb = random_space(chk, [5, 2, 3, 4][k % 4], force_general=True)
                if sa is None or sb is None or not sa.cu or sb.cu:
                    continue
                check_2d_mixed(chk, sa, sb, rng)
            # 2-D spaces with ONE clamped cell in one direction (a Bezier direction: the local coefficient block is the whole row / column)
            for k in range(chk.n(4, 16)):
                dA, dB = [1, 2, 3, 4][k % 4], rng.randint(1, 4)
                kindA = KINDS[1 + 2 * (k % 2)]
                one = build(chk, dA, False, kindA, make_breaks(rng, kindA, 1), uniform_flag=False)
                other = random_space(chk, dB, force_general=True)
                if one is None or other is None:
                    continue
                s1, s2 = (other, one) if k % 4 < 2 else (one, other)
                check_2d(chk, drv, s1, s2, rng, chk.n(4, 6))
    except Abort:
        chk.notes['aborted'] = 'stopped after %d hangs/exceptions of the real code' % MAX_CRASHES
    finally:
        drv.close()
    chk.notes['driver_calls'] = drv.calls
    chk.assumptions = ['floats are compared with the exact rational model value through a running condition number '
                       '(sum of |terms|; for derivatives |saved_{j-1}|+|saved_j|; uniform-cubic path: plus the sensitivity to the '
                       'rounding of (x-xmin)/dx); factor 32*(degree+2)',
                       'span indices and slopes of degree-1 splines are compared only away from breakpoints (2^-40 relative) or, '
                       'in the dyadic family, exactly at breakpoints',
                       'x outside the closed domain is not part of the property (first/last-cell clause proved in Lean only)']

    def search():
        for d in chk.diffs[:200]:
            try:
                f = exact_decide(d)
            except Exception:  # noqa: BLE001
                f = None
            if f is not None:
                return f
        return None
    return chk.finish(search)
