"""C01 — layout transposes preserve the global field.

proof side    : Props/C01.lean (address lemmas, abstract direct step, route/redirect bookkeeping)
correspondence: the real LayoutHandler of /repo on simulated ranks vs. Model/Handler.lean (Drivers/C01.lean):
                connections, bufferSize per rank, route map, and for every ordered pair (source, dest) the destination
                block of every rank, source intactness with a spare buffer, refusal kind -- all exact.
oracle        : numpy: np.transpose(G, dest.dims_order)[slices] on every rank (no model involved).
"""
import itertools
import multiprocessing as mp

import numpy as np

import common
import layout_util as lu
from mpi4py import MPI

LEVEL = 'proof'
DTYPES = ['int64', 'float64', 'complex128']


def to_ints(a):
    """payload -> the encoded global flat index"""
    if a.dtype.kind == 'c':
        return [int(x) for x in np.real(a)]
    if a.dtype.kind == 'f':
        return [int(x) for x in np.floor(a)]
    return [int(x) for x in a]


def run_impl(cfg):
    """construct the real handler on every rank, then perform every requested transpose from fresh buffers"""
    from pygyro.model.layout import getLayoutHandler
    nprocs, shape, lays, pairs, dtype = cfg['nprocs'], cfg['ext'], cfg['layouts'], cfg['pairs'], cfg['dtype']
    eta = lu.eta_grids(shape)
    # one handler serves fields of different element types (the distribution function is real, the potential complex): the payload
    # type changes from one transpose to the next, starting with the configuration's own
    k0 = DTYPES.index(dtype)
    Gs = [lu.global_array(shape, DTYPES[(k0 + k) % 3]) for k in range(3)] if cfg.get('mixed_types', True) else [lu.global_array(shape, dtype)]

    def body():
        comm = MPI.COMM_WORLD
        h = getLayoutHandler(comm, lays, list(nprocs), eta)
        B = int(h.bufferSize)
        out = {'buffer': B, 'coords': [int(c) for c in h.mpiCoords], 'pairs': []}
        names = list(lays)
        out['routes'] = [[None if a == b else list(h._route_map[a][b]) for b in names] for a in names] if len(names) > 1 else None
        for kp, (src, dst, usebuf) in enumerate(pairs):
            G = Gs[kp % len(Gs)]
            ls, ld = h.getLayout(src), h.getLayout(dst)
            a = np.full(B, -1, dtype=G.dtype)
            b = np.full(B, -2, dtype=G.dtype)
            c = np.full(B, -3, dtype=G.dtype)
            blk = lu.put_block(a, G, ls)
            rec = {'err': None}
            try:
                h.transpose(a, b, src, dst, c if usebuf else None)
            except MPI.SimAbort:
                raise
            except Exception as e:  # noqa: BLE001  (every rank of the sub-communicator raises alike: shapes are rank-independent)
                rec['err'] = '%s: %s' % (type(e).__name__, e)
                raise
            exp = lu.expected_block(G, ld)
            got = lu.block_of(b, ld)
            rec['ok'] = bool(np.array_equal(got, exp))
            rec['dest'] = to_ints(b[:ld.size])
            rec['src_intact'] = bool(np.array_equal(a[:ls.size], blk.ravel()))
            rec['source'] = to_ints(a[:ls.size])
            if not rec['ok']:
                bad = np.argwhere(got != exp)
                rec['first_bad'] = {'local': [int(x) for x in bad[0]], 'got': str(got[tuple(bad[0])]), 'expected': str(exp[tuple(bad[0])])}
            out['pairs'].append(rec)
        return out
    return lu.run_ranks(int(np.prod(nprocs)), body, policy=cfg.get('policy', 'inorder'), seed=cfg.get('seed', 0))


def classify(cfg, src, dst):
    """signature of a failing direct/indirect transpose (used to tell findings apart)"""
    nprocs, lays = cfg['nprocs'], cfg['layouts']
    oS, oD = lays[src], lays[dst]
    d = [i for i, n in enumerate(nprocs) if n > 1 and oS[i] != oD[i]]
    if len(d) == 1:
        a0, a1 = d[0], oS.index(oD[d[0]])
        if a0 != 0 and a1 == 0:
            return 'C01:direct-a1-zero'
        return 'C01:direct'
    if len(d) == 0:
        return 'C01:local' if src != dst else 'C01:same'
    return 'C01:multistep'


def check_config(cfg, drv, out):
    """runs one handler configuration on the real code and on the model; appends records to `out`"""
    names = list(cfg['layouts'])
    orders = [cfg['layouts'][n] for n in names]
    tie = [names.index(x) for x in set(names)]           # iteration order of a Python set of the names
    base = {'nprocs': cfg['nprocs'], 'ext': cfg['ext'], 'names': names, 'orders': orders, 'tie': tie}
    mh = drv.call(dict(base, op='handler'))
    res = run_impl(cfg)
    case0 = {k: cfg[k] for k in ('nprocs', 'ext', 'layouts', 'dtype')}
    kind = res.error_kind()
    # ---- constructor
    if not mh.get('connected', True):
        if kind != 'runtime-error':
            out['diffs'].append(('constructor refusal', case0, 'refused (not connected)', kind))
            # the constructor accepted a set of layouts that cannot all be reached from each other on this process grid: what do the
            # transposes do with it?  (replayed one pair at a time on fresh handlers)
            for p in cfg['pairs']:
                r1 = run_impl(dict(cfg, pairs=[p]))
                c = dict(case0, src=p[0], dst=p[1], buf=p[2])
                if r1.error_kind() != 'ok':
                    out['fails'].append(('C01:unconnected-accepted', 'the handler accepted a set of layouts that is not connected on this process grid, and a '
                                         'transpose then raised: ' + str(r1.first_error())[:160], c, None, None))
                    break
                recs = [v['pairs'][0] for v in r1.values()]
                if not all(r['ok'] for r in recs):
                    out['fails'].append(('C01:unconnected-accepted', 'the handler accepted a set of layouts that is not connected on this process grid, and a '
                                         'transpose between two of them leaves a destination block that is not the global field', c, None, None))
                    break
        out['hist']['refused-unconnected'] = out['hist'].get('refused-unconnected', 0) + 1
        return
    vals = [r[1] if r[0] == 'ok' else None for r in res.results]
    if kind != 'ok':
        # a transpose (or the constructor) raised: find which pair by replaying one pair at a time
        found_single = False
        for p in cfg['pairs']:
            r1 = run_impl(dict(cfg, pairs=[p]))
            if r1.error_kind() != 'ok':
                found_single = True
                src, dst, ub = p
                c = dict(case0, src=src, dst=dst, buf=ub)
                out['fails'].append((classify(cfg, src, dst), 'transpose raised: ' + str(r1.first_error())[:200], c, None, None))
                mt = drv.call(dict(base, op='transpose', src=src, dst=dst, buf=ub, fixed=True, extra=0, salt=0))
                if 'refused' not in mt:
                    out['diffs'].append(('refusal', c, 'model: ok', r1.error_kind()))
            else:
                compare_pair(cfg, base, drv, p, [v['pairs'][0] for v in r1.values()], out, case0)
        if not found_single:
            # every transpose works on a fresh handler but the SEQUENCE on one handler raises: state is kept between calls
            out['fails'].append(('C01:sequence-raises', 'a sequence of transposes on one handler raised (%s) although each of them works on a fresh handler'
                                 % str(res.first_error())[:160], dict(case0, pairs=[list(p) for p in cfg['pairs']]), None, None))
        return
    # ---- static data
    if [v['buffer'] for v in vals] != mh['buffer']:
        out['diffs'].append(('bufferSize', case0, mh['buffer'], [v['buffer'] for v in vals]))
    if [v['coords'] for v in vals] != mh['coords']:
        out['diffs'].append(('coords', case0, mh['coords'], [v['coords'] for v in vals]))
    if len(names) > 1:
        for v in vals:
            if v['routes'] != mh['routes']:
                out['diffs'].append(('route map', case0, mh['routes'], v['routes']))
                break
    for k, p in enumerate(cfg['pairs']):
        compare_pair(cfg, base, drv, p, [v['pairs'][k] for v in vals], out, case0)


def compare_pair(cfg, base, drv, p, recs, out, case0):
    src, dst, ub = p
    c = dict(case0, src=src, dst=dst, buf=ub)
    sig = classify(cfg, src, dst)
    out['hist'][sig] = out['hist'].get(sig, 0) + 1
    # oracle
    if not all(r['ok'] for r in recs):
        bad = [(i, r.get('first_bad')) for i, r in enumerate(recs) if not r['ok']][0]
        out['fails'].append((sig, 'destination block differs from the global field (rank %d: %s)' % bad, c, None, None))
    if ub and not all(r['src_intact'] for r in recs):
        out['fails'].append((sig + '-source', 'source block changed although a spare buffer was supplied', c, None, None))
    # model
    mt = drv.call(dict(base, op='transpose', src=src, dst=dst, buf=ub, fixed=True, extra=0, salt=0))
    if 'refused' in mt:
        out['diffs'].append(('refusal', c, mt['refused'], 'ok'))
        return
    if mt['dest'] != [r['dest'] for r in recs]:
        out['diffs'].append(('destination blocks', c, None, None))
    if ub and mt['source'] != [r['source'] for r in recs]:
        out['diffs'].append(('source blocks (buffer given)', c, None, None))
    if not mt['holds']:
        out['diffs'].append(('model does not hold the field', c, None, None))


def gen_config(rng, quick, it):
    nd = rng.choice([2, 3, 3, 4, 4])
    r = rng.random()
    if r < 0.25:
        nprocs = [1, rng.choice([2, 3])]                      # leading extent 1 (the F1 family)
    elif r < 0.35:
        nprocs = [rng.choice([2, 3]), 1]
    else:
        nprocs = lu.rand_nprocs(rng, nd, max_ranks=6 if quick else 12)
    if len(nprocs) > nd:
        nprocs = nprocs[:nd]
    connected = rng.random() < 0.93 and it % 8 != 3          # every eighth set is unconnected (the constructor must refuse it)
    if it % 8 == 3:
        nd = max(nd, 3)
        nprocs = rng.choice([[2, 2], [2, 3], [3, 2]])         # two process directions: sets whose connectivity depends on the process grid
    shape = lu.rand_shape(rng, nd, nprocs, hi=6 if quick else 8)
    lays = lu.rand_layout_set(rng, nd, nprocs, want_connected=connected)
    if it % 6 == 5:
        # many orderings of a 4-D array: several pairs are joined by more than one shortest route (ties in the route table); the
        # declaration order is shuffled
        nd = 4
        nprocs = rng.choice([[2, 2], [2, 1], [1, 2], [2, 3]])
        shape = lu.rand_shape(rng, nd, nprocs, hi=5)
        lays = lu.rand_layout_set(rng, nd, nprocs, k=rng.randint(5, 7))
        items = list(lays.items())
        vals = [v for _, v in items]
        rng.shuffle(vals)
        lays = dict(zip([k for k, _ in items], vals))
    names = list(lays)
    if it % 7 == 2 and connected:
        # one ordering under two names (a work copy of a layout): moving between them is a plain copy of the block, with or without buffer
        lays = dict(lays)
        lays['copy_of_' + names[0]] = list(lays[names[0]])
        names = list(lays)
    allpairs = [(a, b) for a in names for b in names if a != b] + [(rng.choice(names),) * 2]
    k = min(len(allpairs), 6 if quick else 12)
    pairs = [(a, b, rng.random() < 0.5) for a, b in rng.sample(allpairs, k)]
    # the same ordered pair again later on the same handler (with the same and with the other buffer choice): nothing of a call may
    # survive into the next one
    pairs += [(a, b, ub if rng.random() < 0.5 else not ub) for a, b, ub in pairs[:3]]
    if names[-1].startswith('copy_of_'):
        pairs += [(names[0], names[-1], False), (names[-1], names[0], True), (names[-1], names[0], False)]
    return {'nprocs': nprocs, 'ext': shape, 'layouts': lays, 'pairs': pairs, 'dtype': DTYPES[it % 3],
            'policy': rng.choice(['inorder', 'reverse', 'random']), 'seed': it}


def overdecomposed_configs(rng, n):
    """fewer points than processes along one to three dimensions (ranks owning empty blocks in some or all layouts, possibly on
    different process axes), headed by the F15 corpus: the standard layouts over-decomposed on both process axes"""
    L4 = {'flux_surface': [0, 3, 1, 2], 'v_parallel': [0, 2, 1, 3], 'poloidal': [3, 2, 1, 0]}
    nm = list(L4)
    out = [{'nprocs': nprocs, 'ext': ext, 'layouts': L4, 'dtype': 'int64',
            'pairs': [(a, b, ub) for a in nm for b in nm if a != b for ub in (False, True)]}
           for ext, nprocs in (([1, 2, 1, 4], [2, 2]), ([3, 2, 3, 8], [4, 4]), ([2, 3, 1, 3], [3, 2]))]
    for it in range(n):
        cfg = gen_config(rng, True, it)
        cfg['ext'] = list(cfg['ext'])
        for _ in range(rng.choice([1, 2, 3])):
            cfg['ext'][rng.randrange(len(cfg['ext']))] = rng.choice([1, 1, 2])
        out.append(cfg)
    return out


def standard_configs():
    """the layouts the driver and the tests really use, on grids with leading extent 1 and uneven splits"""
    L4 = {'flux_surface': [0, 3, 1, 2], 'v_parallel': [0, 2, 1, 3], 'poloidal': [3, 2, 1, 0]}
    L3 = {'v_parallel_2d': [0, 2, 1], 'mode_solve': [1, 2, 0]}
    out = []
    for shape, nprocs in [([4, 5, 7, 8], [1, 3]), ([4, 5, 7, 8], [2, 2]), ([6, 5, 7, 8], [3, 2]), ([5, 5, 6, 9], [3, 1]), ([4, 4, 4, 4], [2, 2])]:
        names = list(L4)
        out.append({'nprocs': nprocs, 'ext': shape, 'layouts': L4, 'dtype': 'float64',
                    'pairs': [(a, b, ub) for a in names for b in names for ub in (False, True)] +
                             [(a, b, False) for a in names for b in names if a != b]})
    # many processes along one direction with extents that are not multiples of the process count (7, 11, 13 processes: the block
    # starts are an INTEGER formula; n/P is not representable for these counts)
    for shape, nprocs in [([15, 22], [11]), ([61, 8], [7]), ([15, 30], [13])]:
        out.append({'nprocs': nprocs, 'ext': shape, 'layouts': {'A': [0, 1], 'B': [1, 0]}, 'dtype': 'int64',
                    'pairs': [('A', 'B', False), ('B', 'A', True)]})
    # seven orderings of a 4-D array on a 2 x 2 grid with uneven blocks: several pairs are joined by more than one shortest route, and the
    # local block sizes of the layouts differ from process to process - the route table must still be the same on all of them
    L7 = {'flux_surface': [3, 1, 2, 0], 'v_parallel': [0, 1, 3, 2], 'poloidal': [1, 0, 2, 3], 'mode_solve': [0, 3, 2, 1],
          'z_contiguous': [3, 2, 0, 1], 'r_spline': [0, 2, 3, 1], 'theta_spline': [3, 0, 2, 1]}
    for shape, nprocs in [([3, 8, 8, 5], [2, 2]), ([5, 3, 7, 4], [2, 2])]:
        nm = list(L7)
        out.append({'nprocs': nprocs, 'ext': shape, 'layouts': L7, 'dtype': 'float64',
                    'pairs': [(nm[i], nm[(i + 3) % 7], bool(i % 2)) for i in range(7)]})
    # process grids with THREE directions (also with an extent 1 in front of or between the distributed ones): redistribution along the
    # third direction, pairs of layouts that differ on two distributed positions (joined through a third layout only)
    L5 = {'A': [0, 1, 2, 3], 'B': [0, 2, 1, 3], 'X': [0, 3, 2, 1], 'Y': [0, 2, 3, 1], 'Z': [0, 1, 3, 2]}
    for shape, nprocs in [([4, 5, 4, 6], [2, 2, 2]), ([3, 4, 5, 6], [1, 2, 2]), ([5, 3, 4, 4], [2, 1, 2])]:
        nm = list(L5)
        out.append({'nprocs': nprocs, 'ext': shape, 'layouts': L5, 'dtype': 'int64',
                    'pairs': [(a, b, (i + j) % 2 == 0) for i, a in enumerate(nm) for j, b in enumerate(nm) if a != b]})
    for shape, nprocs in [([5, 6, 7], [2, 3]), ([4, 4, 6], [1, 2]), ([6, 5, 4], [3, 1])]:
        names = list(L3)
        out.append({'nprocs': nprocs, 'ext': shape, 'layouts': L3, 'dtype': 'complex128',
                    'pairs': [(a, b, ub) for a in names for b in names for ub in (False, True)]})
    return out


def exhaustive_configs():
    """thorough: rank <= 3, extents <= 4, every grid with <= 6 ranks, all permutation pairs as 2-layout handlers"""
    out = []
    for nd in (2, 3):
        perms = [list(p) for p in lu.all_perms(nd)]
        grids = [[a] for a in (1, 2, 3)] + [[a, b] for a in (1, 2, 3) for b in (1, 2, 3) if a * b <= 6]
        for nprocs in grids:
            if len(nprocs) > nd:
                continue
            for shape in itertools.product(range(max(nprocs), 5), repeat=nd):
                for oS in perms:
                    for oD in perms:
                        if oS == oD or not lu.handler_compatible(nprocs, oS, oD):
                            continue
                        out.append({'nprocs': nprocs, 'ext': list(shape), 'layouts': {'S': oS, 'D': oD}, 'dtype': 'int64',
                                    'pairs': [('S', 'D', False), ('S', 'D', True)]})
    return out


def _worker(chunk):
    drv = common.LeanDriver('C01.lean')
    out = {'diffs': [], 'fails': [], 'hist': {}}
    try:
        for cfg in chunk:
            check_config(cfg, drv, out)
    finally:
        drv.close()
    return out


def absorb(chk, out):
    for what, case, mo, im in out['diffs']:
        chk.diff(what, case, mo, im)
    for sig, what, case, e, a in out['fails']:
        chk.fail(sig, what, case, e, a)
    for k, v in out['hist'].items():
        chk.count(k, v)


def run(chk):
    chk.rule = ('handler configurations: array rank 2-4, 1-3 process axes (counts 1-4, incl. leading extent 1), extents from max P '
                '(forced: extent==P, extent==P+1), 2-5 random permutations (connected sets, plus ~7% unconnected for the refusal), '
                'sampled ordered pairs x buffer given/not, int/float/complex payload = global flat index; plus the standard layouts. '
                'non-trivial = some distributed axis is split unevenly and at least one pair needs communication; distinct by (grid, extents, layout set)')
    chk.proof_side(build=not getattr(chk, 'no_build', False), extra_props=('C01Extra',))
    quick = chk.quick()
    cfgs = standard_configs()
    cfgs += [gen_config(chk.rng, quick, it) for it in range(chk.n(110, 1500))]
    od = overdecomposed_configs(chk.rng, chk.n(25, 300))
    chk.count('over-decomposed configurations (some ranks own empty blocks)', len(od))
    cfgs += od
    if chk.replay:
        import json
        c = json.load(open(chk.replay))['case']
        cfgs = [{'nprocs': c['nprocs'], 'ext': c['ext'], 'layouts': c['layouts'], 'dtype': c.get('dtype', 'int64'),
                 'pairs': [(c['src'], c['dst'], c['buf'])] if 'src' in c else
                          [(a, b, ub) for a in c['layouts'] for b in c['layouts'] for ub in (False, True)]}]
    ex = [] if quick else exhaustive_configs()
    for cfg in cfgs + ex:
        nprocs, shape, lays = cfg['nprocs'], cfg['ext'], cfg['layouts']
        uneven = any(shape[o[i]] % p for o in lays.values() for i, p in enumerate(nprocs) if p > 1)
        comm = any(classify(cfg, a, b) in ('C01:direct', 'C01:direct-a1-zero', 'C01:multistep') for a, b, _ in cfg['pairs'])
        chk.case((tuple(nprocs), tuple(shape), tuple(map(tuple, lays.values()))), nontrivial=uneven and comm,
                 sample={k: cfg[k] for k in ('nprocs', 'ext', 'layouts')} if len(chk.samples) < 3 else None)
        chk.evaluations += len(cfg['pairs']) - 1
    if quick:
        out = _worker(cfgs)
        absorb(chk, out)
    else:
        allc = cfgs + ex
        nproc = 12
        chunks = [allc[i::nproc * 4] for i in range(nproc * 4)]
        with mp.get_context('fork').Pool(nproc) as pool:
            for out in pool.imap_unordered(_worker, chunks):
                absorb(chk, out)
        chk.notes['exhaustive_box'] = 'rank<=3, extents<=4, all grids<=6 ranks, all compatible permutation pairs: %d handlers' % len(ex)
    chk.traces_validated = len(cfgs)
    chk.assumptions = ['MPI Alltoall semantics as implemented by the simulated MPI (chunk q of rank r goes to chunk r of rank q)',
                       'process counts P_k > extent (ranks owning empty blocks) are included since the repair of F15']

    def search():
        # the generated cases already ran the oracle on the real code; a wider seeded sample of the classes most exposed
        out = {'diffs': [], 'fails': [], 'hist': {}}
        drv = common.LeanDriver('C01.lean')
        try:
            import random
            r = random.Random(chk.seed + 99)
            for it in range(150):
                check_config(gen_config(r, True, it), drv, out)
                if out['fails']:
                    sig, what, case, e, a = out['fails'][0]
                    return {'signature': sig, 'what': what, 'case': case}
        finally:
            drv.close()
        return None
    return chk.finish(search)
