"""C12 — Poloidal advection traces 2nd-order ExB characteristics, interpolates at the foot.     LEVEL: other

proof side     : Props/C12.lean (pol_heun_formula, pol_boundary_rule, pol_impl_feet_in_domain,
                 pol_constant_potential_identity, pol_rigid_rotation, pol_impl_fixed_point_stops,
                 pol_impl_terminates_partial) over Model/PolAdv.lean.
                 Props/C12Gen.lean (tie by translation of the EXPLICIT step: Generated/PolExplGen.lean = `general_poloidal_advection_step_expl`
                 regenerated from the source on every run; float `%` = a - b*floor(a/b), `pi` a parameter, the spline evaluators and f_eq
                 uninterpreted; gen_pol_expl_eq: for every node the generated function stores Model `finalVal` of Model `explFoot` (Evals
                 instantiated with the uninterpreted functions, wrap = x % (2*pi); contract: the eval_spline_2d_cross tables equal the
                 scalar evaluator at the nodes), entries outside the box untouched; gen_pol_expl_heun_inside carries pol_heun_formula /
                 pol_boundary_rule over to the source).
                 Props/C12Gen2.lean (tie by translation of the IMPLICIT step: Generated/PolImplGen.lean = `general_poloidal_advection_step_impl`
                 regenerated on every run [`while (norm > tol)` with fuel, numpy `abs`, `if`s that only assign = functions of the state, loop bodies
                 as `body_of_<loop>` = composition of `part<k>_of_<loop>`]; gen_impl_sweep_eq: one pass of the generated while body over all nodes =
                 Model `sweep` incl. the norm; gen_impl_while_eq: generated while with fuel >= N+1 = Model `implLoop` with fuel N;
                 gen_pol_impl_eq: whenever Model `implStep` returns within N sweeps the generated function returns and the row-major list of the
                 new f is the model's (same contract on the eval_spline_2d_cross tables), entries outside the box untouched).
                 Props/C12Gen3.lean (the table contract DISCHARGED: with the uninterpreted evaluator parameters instantiated by the generated
                 nu_/cu_eval_spline_2d_scalar and nu_/cu_eval_spline_2d_cross the contract is a theorem (nu_table_contract, cu_table_contract, from
                 C07Gen6); gen_pol_expl_eq_nu/_cu, gen_pol_impl_eq_nu/_cu = the conclusions of gen_pol_expl_eq / gen_pol_impl_eq without the
                 hypothesis; guards: sorted phi knots with non-degenerate domains (general path), deg1Phi = deg2Phi = 3 (uniform-cubic path)).
correspondence : real `PoloidalAdvection.step(f, dt, phi, v)` (explicitTrap True/False, nulEdge True/False) vs. the model at Q
                 (Drivers/C11.lean, op "pol").  The model receives the coefficients of the real phi spline and of the real
                 interpolant of the old f and evaluates them exactly; `x % (2*pi)` is `x - P*floor(x/P)` with P the double
                 2*pi.  To keep the rationals of bounded size the model's spline evaluators round their *arguments* down to
                 multiples of 2^-80 (a perturbation 2^27 times smaller than the rounding of the doubles; nodes are unchanged),
                 and the implicit scheme's iterates carried from sweep to sweep are rounded the same way; fuel 400, tolerance
                 as a rational; the model decides termination itself, cases with a norm within 2^-30 of tol are discarded.
oracle (no model): an independent float implementation of the stated rule (drift, trapezoid, wrap, boundary values) on the
                 real spline objects; identity for constant/zero potential; rigid rotation for phi = omega r^2/2 against the
                 rotated profile evaluated through the real 2-D spline of f.
tests (analytic clauses, not provable): explicit vs implicit differ by O(dt^3); the implicit iteration terminates on
                 contractive inputs (wall-clock guard).
"""
import math
import signal
from fractions import Fraction as Fr

import numpy as np

import sys

import common

common.use_repo()
sys.set_int_max_str_digits(0)

LEVEL = 'proof'
U = 2.0 ** -53
MARGIN = Fr(1, 2 ** 40)
TWOPI = 2 * math.pi
IMPL_FUEL = 400
BITS = 80          # model evaluators round their arguments / carried iterates down to multiples of 2^-BITS


class Timeout(Exception):
    pass


def with_timeout(seconds, fn):
    # CPU seconds of this process (ITIMER_VIRTUAL), not wall time: a loaded machine must not look like a non-terminating iteration
    def handler(signum, frame):
        raise Timeout()
    old = signal.signal(signal.SIGVTALRM, handler)
    signal.setitimer(signal.ITIMER_VIRTUAL, seconds)
    try:
        return fn()
    finally:
        signal.setitimer(signal.ITIMER_VIRTUAL, 0)
        signal.signal(signal.SIGVTALRM, old)


# ------------------------------------------------------------------------------------------------
# spline spaces

def make_basis(rng, kind, deg, ncells, lo, hi, periodic):
    from pygyro.splines.splines import make_knots, BSplines
    if kind == 'cu':
        breaks = np.linspace(lo, hi, ncells + 1)
        return BSplines(make_knots(breaks, 3, periodic), 3, periodic, True)
    if kind == 'gn':
        w = (hi - lo) / ncells
        breaks = np.array([lo] + sorted(lo + w * (k + rng.uniform(-0.25, 0.25)) for k in range(1, ncells)) + [hi])
    else:
        breaks = np.linspace(lo, hi, ncells + 1)
    return BSplines(make_knots(breaks, deg, periodic), deg, periodic, False)


def space_json(b):
    if b.cubic_uniform:
        k = b.knots
        return {'degree': 3, 'cu': True, 'xmin': common.rat(k[0]), 'dx': common.rat(k[2]), 'ncells': int(k[3])}
    return {'degree': int(b.degree), 'knots': common.rats(b.knots)}


def spline_json(s):
    return {'s1': space_json(s.basis[0]), 's2': space_json(s.basis[1]), 'coeffs': [common.rats(row) for row in s.coeffs]}


def min_cell(b):
    return float(b.knots[2]) if b.cubic_uniform else float(np.min(np.diff(b.breaks)))


def crude_bounds(s):
    """global bounds of a tensor spline and its derivatives from the coefficient table: |d/dx| <= 2p/h per derivative"""
    b1, b2 = s.basis
    c = float(np.max(np.abs(s.coeffs)))
    g1, g2 = 2.0 * b1.degree / min_cell(b1), 2.0 * b2.degree / min_cell(b2)
    h1, h2 = 2.0 * max(b1.degree - 1, 0) / min_cell(b1), 2.0 * max(b2.degree - 1, 0) / min_cell(b2)
    return {'C': c, 'D1': c * max(g1, g2), 'D10': c * g1, 'D01': c * g2, 'D2': c * max(g1 * h1, g1 * g2, g2 * h2),
            'ops': (b1.degree + 1) * (b2.degree + 1)}


def error_bound(bphi, bf, dt, B0, rmin, rmax, sweeps):
    """forward error bound of the double-precision kernels against exact arithmetic (first order, generous constants):
    rounding of spline evaluations (64 u sum|c||B|), of the position updates, propagated through the Lipschitz constants
    of the evaluators.  `sweeps` = 0: explicit scheme."""
    kap = 64.0
    D1, D2 = bphi['D1'], bphi['D2']
    mf = abs(dt / B0)
    mh = 0.5 * mf
    e_der = kap * U * D1
    e0 = (e_der + 2 * U * D1) / rmin
    base = 8 * U * (TWOPI + rmax + 2 * D1 / rmin * mf)
    d = base + e0 * mf

    def corr(d):
        e_k = (e_der + 2 * D2 * d) / rmin + D1 / rmin ** 2 * d + 2 * U * D1 / rmin
        return base + mh * (e0 + e_k) + 2.0 ** -78
    for _ in range(max(1, sweeps)):
        d = corr(d)
    val = kap * U * bf['ops'] * bf['C'] + (bf['D10'] + bf['D01']) * d
    return val, d


def feq_real(C, r, v):
    from pygyro.initialisation.initialiser_funcs import f_eq
    return float(f_eq(float(r), float(v), C.CN0, C.kN0, C.deltaRN0, C.rp, C.CTi, C.kTi, C.deltaRTi))


def feq_slope_r(C, r, v):
    h = 1e-6 * max(1.0, abs(r))
    return abs(feq_real(C, r + h, v) - feq_real(C, r - h, v)) / (2 * h)


# ------------------------------------------------------------------------------------------------
# model-independent float implementation of the property's rule

def oracle_step(phi, fs, q, r, dt, B0, v, nul, C, explicit, tol):
    rmin, rmax = float(r[0]), float(r[-1])
    nq, nr = len(q), len(r)

    def drift(th, rr):
        return (-float(phi.eval(th, rr, 0, 1)) / (rr * B0), float(phi.eval(th, rr, 1, 0)) / (rr * B0))
    out = np.empty((nq, nr))
    kinds = np.empty((nq, nr), dtype=object)
    margin = np.empty((nq, nr))
    feet = np.empty((nq, nr, 2))
    d0 = [[drift(float(q[i]), float(r[j])) for j in range(nr)] for i in range(nq)]
    sweeps = 0
    norms = []
    if explicit:
        for i in range(nq):
            for j in range(nr):
                th1 = (q[i] + dt * d0[i][j][0]) % TWOPI
                r1 = r[j] + dt * d0[i][j][1]
                d1 = drift(th1, r1) if rmin <= r1 <= rmax else (0.0, 0.0)
                feet[i, j] = ((q[i] + 0.5 * dt * (d0[i][j][0] + d1[0])) % TWOPI, r[j] + 0.5 * dt * (d0[i][j][1] + d1[1]))
                margin[i, j] = min(abs(r1 - rmin), abs(r1 - rmax), abs(feet[i, j, 1] - rmin), abs(feet[i, j, 1] - rmax))
    else:
        x = np.empty((nq, nr, 2))
        for i in range(nq):
            for j in range(nr):
                x[i, j] = (q[i] + dt * d0[i][j][0], r[j] + dt * d0[i][j][1])
                margin[i, j] = min(abs(x[i, j, 1] - rmin), abs(x[i, j, 1] - rmax))
        while True:
            sweeps += 1
            norm = 0.0
            for i in range(nq):
                for j in range(nr):
                    th1, r1 = x[i, j, 0] % TWOPI, x[i, j, 1]
                    d1 = drift(th1, r1) if rmin <= r1 <= rmax else (0.0, 0.0)
                    th2 = (q[i] + 0.5 * dt * (d0[i][j][0] + d1[0])) % TWOPI
                    r2 = min(max(r[j] + 0.5 * dt * (d0[i][j][1] + d1[1]), rmin), rmax)
                    a = abs(th2 - th1)
                    norm = max(norm, min(a, TWOPI - a), abs(r2 - r1))
                    x[i, j] = (th2, r2)
            norms.append(norm)
            if not norm > tol or sweeps >= IMPL_FUEL:
                break
        feet[:] = x
    for i in range(nq):
        for j in range(nr):
            th2, r2 = feet[i, j]
            if r2 < rmin:
                out[i, j], kinds[i, j] = (0.0, 'null-in') if nul else (feq_real(C, rmin, v), 'feq-in')
            elif r2 > rmax:
                out[i, j], kinds[i, j] = (0.0, 'null-out') if nul else (feq_real(C, r2, v), 'feq-out')
            else:
                out[i, j], kinds[i, j] = float(fs.eval(float(th2 % TWOPI), float(r2))), 'spline'
    return out, kinds, margin, feet, sweeps, norms


# ------------------------------------------------------------------------------------------------
# case construction

def build(rng, C, kind, degs, nc, rdom, phi_kind, f_kind, phi_space=None):
    """f lives on (degs, nc); phi on `phi_space` = (degrees, cells) or on the same bases.  The degree of phi is >= 2 in both
    directions: for degree 1 the derivative evaluators are discontinuous at the knots, which are the nodes."""
    from pygyro.splines.splines import Spline2D
    from pygyro.splines.spline_interpolators import SplineInterpolator2D
    bq = make_basis(rng, kind, degs[0], nc[0], 0.0, TWOPI, True)
    br = make_basis(rng, kind, degs[1], nc[1], rdom[0], rdom[1], False)
    q, r = np.array(bq.greville, dtype=float), np.array(br.greville, dtype=float)
    if phi_space is None:
        pq, pr = bq, br
    else:
        pq = make_basis(rng, kind, phi_space[0][0], phi_space[1][0], 0.0, TWOPI, True)
        pr = make_basis(rng, kind, phi_space[0][1], phi_space[1][1], rdom[0], rdom[1], False)
    Qf, Rf = np.meshgrid(q, r, indexing='ij')
    Q, R = np.meshgrid(np.array(pq.greville, dtype=float), np.array(pr.greville, dtype=float), indexing='ij')
    rm, rw = 0.5 * (rdom[0] + rdom[1]), (rdom[1] - rdom[0])
    omega = 0.0
    if phi_kind in ('zero', 'blob'):
        pv = np.zeros_like(Q)
    elif phi_kind == 'const':
        pv = np.full_like(Q, rng.uniform(-3, 3))
    elif phi_kind == 'rot':
        omega = rng.choice([-1.0, 1.0]) * rng.uniform(0.2, 2.0)
        pv = omega * R * R / 2
    else:
        a = rng.uniform(-0.5, 0.5)
        pv = a * R * R / 2
        for _ in range(rng.randint(1, 3)):
            m = rng.randint(1, 2)
            pv = pv + rng.uniform(-1, 1) * rw * np.sin(m * Q + rng.uniform(0, TWOPI)) * (0.5 + ((R - rm) / rw) * rng.uniform(-1, 1)) * R
    phi = Spline2D(pq, pr)
    SplineInterpolator2D(pq, pr).compute_interpolant(pv, phi)
    if phi_kind == 'blob':
        # potential localised in theta: one un-wrapped row of coefficients in the middle of the period, so that the drift
        # vanishes identically on the first and last theta rows of the grid while the other rows need several sweeps of the
        # implicit iteration (a convergence test that looks at part of the grid only stops too early)
        pd, nb = pq.degree, pq.nbasis
        i0 = (pd + nb - 1) // 2
        phi.coeffs[:] = 0.0
        phi.coeffs[i0, :] = [rng.uniform(0.5, 1.5) * rw * rr for rr in np.linspace(rdom[0], rdom[1], phi.coeffs.shape[1])]
    it = SplineInterpolator2D(bq, br)
    if f_kind == 'zero':
        fv = np.zeros((len(q), len(r)))
    elif f_kind == 'random':
        fv = np.array([[rng.uniform(-1, 1) for _ in range(len(r))] for _ in range(len(q))])
    elif f_kind == 'smooth':
        fv = np.exp(-((Rf - rm) / (0.3 * rw)) ** 2) * (1 + 0.5 * np.cos(Qf + rng.uniform(0, TWOPI))) + rng.uniform(-1, 1)
    else:
        v0 = rng.uniform(-2, 2)
        fv = np.array([[feq_real(C, rr, v0) * (1 + 0.1 * rng.uniform(-1, 1)) for rr in r] for _ in q])
    return bq, br, q, r, phi, it, fv, omega


def drift_stats(phi, q, r, B0):
    """max |angular|, |radial| drift at the nodes and a finite-difference estimate of the Lipschitz constant of the drift
    (infinity norm) — used only to choose dt"""
    va = vr = lip = 0.0
    h = 1e-5

    def D(th, rr):
        return np.array([-float(phi.eval(th % TWOPI, rr, 0, 1)) / (rr * B0), float(phi.eval(th % TWOPI, rr, 1, 0)) / (rr * B0)])
    rmin, rmax = r[0], r[-1]
    for th in list(q) + [x + 0.37 * (q[1] - q[0]) for x in q]:
        for rr in list(r) + [min(x + 0.41 * (r[-1] - r[0]) / len(r), rmax) for x in r]:
            d = D(th, rr)
            va, vr = max(va, abs(d[0])), max(vr, abs(d[1]))
            r2 = rr + h if rr + h <= rmax else rr - h
            j1 = (D(th + h, rr) - d) / h
            j2 = (D(th, r2) - d) / (r2 - rr)
            lip = max(lip, abs(j1[0]) + abs(j2[0]), abs(j1[1]) + abs(j2[1]))
    return va, vr, lip


def run_real(C, bq, br, q, r, phi, fv, dt, v, nul, explicit, tol, B0, timeout=20.0):
    from pygyro.advection.advection import PoloidalAdvection
    C.B0 = B0
    eta = [r, q, np.linspace(0, 1, 4), np.linspace(0, 1, 4)]
    # another operator on the same spaces with the other scheme / boundary mode is built first in the same process
    PoloidalAdvection(eta, [bq, br], C, nulEdge=not nul, explicitTrap=not explicit, tol=100 * tol)
    adv = PoloidalAdvection(eta, [bq, br], C, nulEdge=nul, explicitTrap=explicit, tol=tol)
    f = fv.copy()
    with_timeout(timeout, lambda: adv.step(f, dt, phi, v))
    return f


def model_request(phi, fs, q, r, dt, B0, v, nul, explicit, tol):
    return {'op': 'pol', 'phi': spline_json(phi), 'f': spline_json(fs), 'qPts': common.rats(q), 'rPts': common.rats(r),
            'dt': common.rat(dt), 'B0': common.rat(B0), 'v': common.rat(v), 'nul': bool(nul),
            'period': common.rat(TWOPI), 'half': common.rat(math.pi), 'scheme': 'expl' if explicit else 'impl',
            'tol': common.rat(tol), 'fuel': IMPL_FUEL, 'bits': BITS, 'argbits': BITS}


def correspondence(chk, drv, C):
    from pygyro.splines.splines import Spline2D
    rng = chk.rng
    worst = 0.0
    excluded = 0
    n_cases = chk.n(72, 600)
    prof_names = ('CTi', 'kTi', 'deltaRTi', 'CTe', 'kTe', 'deltaRTe', 'kN0', 'deltaRN0')
    prof_default = {k: getattr(C, k) for k in prof_names}
    for it in range(n_cases):
        # every second case with profile constants away from their defaults (by default the electron and ion temperature profiles
        # coincide, so a mix-up is invisible); the boundary value of the property is the ION equilibrium (feq_real)
        prof = dict(prof_default)
        if it % 2 == 1:
            prof = {'CTi': rng.uniform(0.6, 1.4), 'kTi': rng.uniform(0.05, 0.4), 'deltaRTi': rng.uniform(0.8, 3.0),
                    'CTe': rng.uniform(0.6, 1.4), 'kTe': rng.uniform(0.05, 0.4), 'deltaRTe': rng.uniform(0.8, 3.0),
                    'kN0': rng.uniform(0.02, 0.1), 'deltaRN0': rng.uniform(1.5, 4.0)}
        for k_, v_ in prof.items():
            setattr(C, k_, v_)
        explicit = (it % 3 != 2)
        nul = bool((it // 3) % 2)
        kind = ['cu', 'gu', 'gn', 'cu'][it % 4]
        phi_space = None
        if kind == 'cu':
            degs = (3, 3)
            nc = (rng.randint(4, 7), rng.randint(3, 5))
        else:
            separate = rng.random() < 0.5
            lo = 1 if separate else 2
            degs = (rng.randint(lo, 4), rng.randint(lo, 4))
            nc = (rng.randint(max(4, degs[0] + 1), 7), rng.randint(3, 6))
            if separate:
                pd = (rng.randint(2, 4), rng.randint(2, 4))
                phi_space = (pd, (rng.randint(max(4, pd[0] + 1), 7), rng.randint(3, 6)))
        rdom = rng.choice([(float(C.rMin), float(C.rMax)), (1.0, 3.0), (0.5, 2.5), (2.0, 10.0)])
        phi_kind = rng.choice(['gen', 'gen', 'gen', 'gen', 'rot', 'rot', 'const', 'zero']) if it >= 6 else 'gen'
        if not explicit and it % 12 in (2, 8) and it >= 6:
            phi_kind = 'blob'
        f_kind = rng.choice(['random', 'smooth', 'feq'])
        if it % 8 == 5:
            f_kind = 'zero'          # an empty plane: nodes whose foot leaves the radial domain still take the boundary value
        B0 = rng.choice([1.0, 1.0, 2.0, 0.75])
        v = rng.uniform(-4, 4)
        bq, br, q, r, phi, interp, fv, omega = build(rng, C, kind, degs, nc, rdom, phi_kind, f_kind, phi_space)
        va, vr, lip = drift_stats(phi, q, r, B0)
        cell_r = (rdom[1] - rdom[0]) / nc[1]
        sign = rng.choice([-1.0, 1.0])
        tol = 1e-10
        if explicit:
            if vr > 1e-12:
                dt = sign * rng.uniform(0.05, 1.5) * cell_r / vr
            elif va > 1e-12:
                dt = sign * rng.uniform(0.1, 4.0) / va
            else:
                dt = sign * rng.uniform(0.1, 2.0)
        else:
            tol = rng.choice([1e-6, 1e-8, 1e-10, 1e-12])
            rho = rng.uniform(0.03, 0.3)
            dt = sign * (2 * rho / lip if lip > 1e-6 else rng.uniform(0.1, 2.0))
            if phi_kind == 'rot':
                dt = sign * rng.uniform(0.1, 3.0)
        kcells = None
        if phi_kind == 'rot' and rng.random() < 0.5 and kind != 'gn':
            # exact family: rotation by a whole number of theta cells
            kcells = rng.randint(-nc[0], nc[0])
            dt = kcells * (q[1] - q[0]) * B0 / omega
        dt = float(dt)
        case = {'scheme': 'expl' if explicit else 'impl', 'nulEdge': nul, 'path': kind, 'degrees': degs, 'cells': nc, 'phi_space': phi_space, 'rdom': rdom,
                'phi': phi_kind, 'f': f_kind, 'B0': B0, 'v': v, 'dt': dt, 'tol': tol, 'omega': omega, 'sub_seed': it}
        if it % 2 == 1:
            case['profile_constants'] = prof
        fs = Spline2D(bq, br)
        interp.compute_interpolant(fv.copy(), fs)
        # --- real code
        if not explicit and chk.hist.get('FAIL C12:impl-no-termination', 0) >= 2:
            chk.count('implicit cases skipped after two non-terminating ones (a failing input is already recorded)')
            continue
        try:
            f = run_real(C, bq, br, q, r, phi, fv, dt, v, nul, explicit, tol, B0)
            hung = False
        except Timeout:
            hung, f = True, None
        except Exception as e:  # noqa: BLE001
            chk.fail('C12:step-raises', 'PoloidalAdvection.step raised %s: %s' % (type(e).__name__, str(e)[:120]), case)
            continue
        finally:
            C.B0 = 1.0
        rmin, rmax = float(r[0]), float(r[-1])
        width = Fr(rmax) - Fr(rmin)
        bphi, bf = crude_bounds(phi), crude_bounds(fs)
        # --- oracle
        o_out, o_kind, o_margin, o_feet, o_sweeps, o_norms = oracle_step(phi, fs, q, r, dt, B0, v, nul, C, explicit, tol)
        if hung:
            if o_sweeps < IMPL_FUEL:
                chk.fail('C12:impl-no-termination', 'implicit iteration did not return within 20 s; the independent implementation converges in %d sweeps' % o_sweeps, case)
            else:
                chk.count('test: implicit iteration not converging (input not contractive), skipped')
            continue
        val_b, pos_b = error_bound(bphi, bf, dt, B0, rmin, rmax, 0 if explicit else max(o_sweeps, 1))
        slack = 0.0
        o_near_tol = any(abs(nm - tol) <= 1e-6 * tol for nm in o_norms)
        branches = set()
        if not o_near_tol:
            for i in range(len(q)):
                for j in range(len(r)):
                    if o_margin[i, j] < 1e-9 * (rmax - rmin) and not (o_margin[i, j] == 0.0 and phi_kind == 'zero'):
                        continue
                    tolv = 8 * val_b
                    if o_kind[i, j] == 'feq-out':
                        tolv = 8 * (pos_b * feq_slope_r(C, o_feet[i, j, 1], v) + 64 * U * abs(o_out[i, j]))
                    elif o_kind[i, j] != 'spline':
                        tolv = 64 * U * abs(o_out[i, j])
                    if not explicit:
                        tolv += 4 * tol * (bf['D10'] + bf['D01']) if o_kind[i, j] == 'spline' else 0.0
                    if abs(f[i, j] - o_out[i, j]) > tolv:
                        sig = {'spline': 'C12:foot-value', 'feq-in': 'C12:feq-inner', 'feq-out': 'C12:feq-outer',
                               'null-in': 'C12:null-fill', 'null-out': 'C12:null-fill'}[o_kind[i, j]]
                        chk.fail(sig + ('' if explicit else '-impl'),
                                 'new value is not the %s' % ('2-D spline of f at the trapezoidal-rule foot' if o_kind[i, j] == 'spline' else 'boundary value the rule prescribes'),
                                 dict(case, node=[i, j], foot=[float(x) for x in o_feet[i, j]], branch=o_kind[i, j]),
                                 expected=float(o_out[i, j]), actual=float(f[i, j]))
        # identities on the real code (model-independent)
        if phi_kind in ('zero', 'const'):
            for i in range(len(q)):
                for j in range(1 if phi_kind == 'const' else 0, len(r) - (1 if phi_kind == 'const' else 0)):
                    if abs(f[i, j] - fv[i, j]) > 8 * val_b + 256 * U * fv.size * bf['C']:
                        chk.fail('C12:constant-potential', 'a constant potential changes f', dict(case, node=[i, j]), float(fv[i, j]), float(f[i, j]))
            chk.count('identity: constant potential (%s)' % ('expl' if explicit else 'impl'))
        if phi_kind == 'rot':
            for i in range(len(q)):
                for j in range(1, len(r) - 1):
                    exp = float(fs.eval(float((q[i] - omega * dt / B0) % TWOPI), float(r[j])))
                    if abs(f[i, j] - exp) > 8 * val_b:
                        chk.fail('C12:rigid-rotation', 'phi = omega r^2/2 does not rotate f rigidly by omega*dt/B0', dict(case, node=[i, j]), exp, float(f[i, j]))
            chk.count('identity: rigid rotation (%s)' % ('expl' if explicit else 'impl'))
            if kcells is not None:
                # rotation by whole cells: the new nodal values are the old ones, shifted (no spline evaluation needed)
                for i in range(len(q)):
                    for j in range(1, len(r) - 1):
                        exp = float(fv[(i - kcells) % len(q), j])
                        if abs(f[i, j] - exp) > 8 * val_b + 256 * U * fv.size * bf['C']:
                            chk.fail('C12:rigid-rotation-cells', 'rotation by %d theta cells does not shift the nodal values' % kcells,
                                     dict(case, node=[i, j]), exp, float(f[i, j]))
                chk.count('identity: rotation by whole cells = shift of the data')
        # --- model
        out = drv.call(model_request(phi, fs, q, r, dt, B0, v, nul, explicit, tol))
        if 'error' in out:
            raise RuntimeError('driver: ' + out['error'])
        if not explicit:
            if not out['converged']:
                chk.diff('termination: model did not converge within fuel, real code returned', case)
                continue
            val_b, pos_b = error_bound(bphi, bf, dt, B0, rmin, rmax, out['sweeps'])
            # threshold avoidance for `norm > tol`: the norm formed in doubles differs from the exact one by rounding; the
            # size of that difference is measured on the independent double-precision implementation
            mn = [Fr(x) for x in out['norms']]
            near = False
            for k_, m_ in enumerate(mn):
                dlt = abs(Fr(o_norms[k_]) - m_) if k_ < len(o_norms) else Fr(0)
                if abs(m_ - Fr(tol)) <= max(Fr(tol) / 2 ** 30, 16 * dlt + Fr(64 * U * (TWOPI + rmax))):
                    near = True
            if near:
                chk.count('discarded: a sweep norm within rounding of tol')
                continue
            slack = 0.0
            if any(min(abs(Fr(x) - Fr(rmin)), abs(Fr(x) - Fr(rmax))) < MARGIN * width and Fr(x) not in (Fr(rmin), Fr(rmax)) for x in out['initr']):
                # the first sweep may treat such a node as inside in doubles and outside exactly (or vice versa): the two
                # iterations are then not comparable sweep by sweep, but both stop within tol of the same fixed point
                # (contraction factor <= 1/2 by construction of dt): compare up to the stopping tolerance
                chk.count('implicit: an Euler predictor within 2^-40 of the radial boundary, compared up to the stopping tolerance')
                slack = 4 * tol * (bf['D10'] + bf['D01'])
            elif out['sweeps'] != o_sweeps and not o_near_tol:
                chk.diff('sweep count (model vs independent float implementation)', case, out['sweeps'], o_sweeps)
            chk.count('impl sweeps %s' % ('1' if out['sweeps'] == 1 else '2-5' if out['sweeps'] <= 5 else '6-20' if out['sweeps'] <= 20 else '>20'))
        for idx, nd in enumerate(out['nodes']):
            i, j = divmod(idx, len(r))
            nc_ = dict(case, node=[i, j])
            fr = Fr(nd['footr'])
            ths = [fr] + ([Fr(nd['predr'])] if explicit else [])
            m = min(min(abs(x - Fr(rmin)), abs(x - Fr(rmax))) for x in ths)
            exact_on = (m == 0 and phi_kind == 'zero')
            if explicit and m < MARGIN * width and not exact_on:
                excluded += 1
                chk.count('excluded: foot/predictor within 2^-40 (rmax-rmin) of the radial boundary')
                continue
            got = Fr(float(f[i, j]))
            if nd['tag'] == 'num':
                inside = Fr(rmin) <= fr <= Fr(rmax)
                branches.add('spline' if inside else 'null-fill')
                mv = Fr(nd['val'])
                tolv = Fr(4 * val_b + slack) if inside else Fr(0)
                d = abs(got - mv)
                if d > tolv:
                    chk.diff('value', nc_, float(mv), float(got))
                elif tolv > 0:
                    worst = max(worst, float(d / tolv))
            else:
                branches.add('feq-inner' if Fr(nd['r']) == Fr(rmin) and fr < Fr(rmin) else 'feq-outer')
                ref = feq_real(C, Fr(nd['r']), Fr(nd['v']))
                tolv = 4 * (pos_b * feq_slope_r(C, float(Fr(nd['r'])), v) + 64 * U * abs(ref))
                if Fr(nd['v']) != Fr(v) or abs(float(got) - ref) > tolv:
                    chk.diff('fEq tag', nc_, {'r': float(Fr(nd['r'])), 'v': float(Fr(nd['v'])), 'f_eq': ref}, float(got))
        for b in branches:
            chk.count('branch %s (%s)' % (b, 'expl' if explicit else 'impl'))
        chk.count('path %s' % kind)
        chk.count('phi %s' % phi_kind)
        chk.case(('pol', case['scheme'], nul, kind, degs, nc, phi_kind, round(dt, 9)), nontrivial=phi_kind in ('gen', 'rot') and dt != 0,
                 sample={k: case[k] for k in ('scheme', 'nulEdge', 'path', 'degrees', 'cells', 'phi', 'dt')} | {'branches': sorted(branches)} if it < 4 else None)
    for k_, v_ in prof_default.items():
        setattr(C, k_, v_)
    chk.notes['excluded_near_boundary_nodes'] = excluded
    chk.notes['worst_model_difference_over_tolerance'] = round(worst, 5)


def reuse_cases(chk, C):
    """the same PoloidalAdvection object and the same Spline2D potential object over several steps, the potential re-filled IN PLACE
    between the steps (what gridStep does with its per-z splines, and what a time loop that keeps one phi spline does): every step
    must give what a fresh operator with a fresh spline object gives (bit for bit: same arithmetic)"""
    from pygyro.splines.splines import Spline2D
    from pygyro.advection.advection import PoloidalAdvection
    rng = chk.rng
    for it in range(chk.n(6, 40)):
        explicit = it % 2 == 0
        nul = bool((it // 2) % 2)
        kind = ['cu', 'gu', 'gn'][it % 3]
        degs = (3, 3) if kind == 'cu' else (rng.randint(2, 4), rng.randint(2, 4))
        nc = (rng.randint(max(4, degs[0] + 1), 6), rng.randint(3, 5))
        rdom = rng.choice([(1.0, 3.0), (0.5, 2.5)])
        bq, br, q, r, phi, interp, fv, omega = build(rng, C, kind, degs, nc, rdom, 'gen', 'random')
        va, vr, lip = drift_stats(phi, q, r, 1.0)
        dt = float(rng.choice([-1.0, 1.0]) * (0.2 / lip if lip > 1e-6 else 0.3))
        v = rng.uniform(-3, 3)
        eta = [r, q, np.linspace(0, 1, 4), np.linspace(0, 1, 4)]
        case = {'scheme': 'expl' if explicit else 'impl', 'nulEdge': nul, 'path': kind, 'degrees': degs, 'cells': nc, 'dt': dt, 'v': v}
        try:
            adv = PoloidalAdvection(eta, [bq, br], C, nulEdge=nul, explicitTrap=explicit, tol=1e-10)
            f = fv.copy()
            outs, refs = [], []
            for k, scale in enumerate((1.0, -0.7, 0.0, 1.3)):
                if k:
                    phi.coeffs[:] = base_coeffs * scale          # the SAME spline object, new contents
                else:
                    base_coeffs = np.array(phi.coeffs, copy=True)
                fin = f.copy()
                with_timeout(20.0, lambda: adv.step(f, dt, phi, v))
                outs.append(f.copy())
                fresh_phi = Spline2D(*phi.basis)
                fresh_phi.coeffs[:] = phi.coeffs
                fresh = PoloidalAdvection(eta, [bq, br], C, nulEdge=nul, explicitTrap=explicit, tol=1e-10)
                g = fin.copy()
                with_timeout(20.0, lambda: fresh.step(g, dt, fresh_phi, v))
                refs.append(g)
                if not np.array_equal(f, g):
                    chk.fail('C12:operator-reuse', 'step %d on a re-used operator with the potential re-filled in place differs from a fresh operator '
                             '(max difference %.3e)' % (k, float(np.max(np.abs(f - g)))), dict(case, step=k, potential_scale=scale))
                    break
            # memory layouts the caller may use for f: a strided window of a larger array, Fortran order
            base = refs[0]
            big = np.full((fv.shape[0], 2 * fv.shape[1]), 1.25)
            fwin = big[:, ::2]
            fwin[:] = fv
            ffor = np.asfortranarray(fv.copy())
            phi.coeffs[:] = base_coeffs
            for nm, arr in (('strided', fwin), ('Fortran-ordered', ffor)):
                op = PoloidalAdvection(eta, [bq, br], C, nulEdge=nul, explicitTrap=explicit, tol=1e-10)
                with_timeout(20.0, lambda: op.step(arr, dt, phi, v))
                if not np.array_equal(np.asarray(arr), base) or not (big[:, 1::2] == 1.25).all():
                    chk.fail('C12:memory-layout', 'step on a %s array does not give what it gives on a C-contiguous copy' % nm,
                             dict(case, layout=nm), actual=float(np.max(np.abs(np.asarray(arr) - base))))
        except Timeout:
            chk.count('re-use case skipped: iteration not converging')
        except Exception as e:  # noqa: BLE001
            chk.fail('C12:step-raises', 'PoloidalAdvection.step raised %s: %s' % (type(e).__name__, str(e)[:120]), case)
        chk.case(('reuse', it, explicit, nul, kind), nontrivial=True)
        chk.count('operator re-use sequences')


def order_test(chk, C):
    """test (analytic clause): explicit and implicit variants agree to third order in dt — halving dt divides the
    difference by ~8; asserted as observed order > 2.5 on smooth data"""
    rng = chk.rng
    from pygyro.splines.splines import Spline2D  # noqa: F401
    for it in range(chk.n(2, 12)):
        kind = rng.choice(['cu', 'gu'])
        degs = (3, 3) if kind == 'cu' else (rng.randint(3, 4), rng.randint(3, 4))
        nc = (10, 8)
        bq, br, q, r, phi, interp, fv, omega = build(rng, C, kind, degs, nc, (1.0, 3.0), 'gen', 'smooth')
        va, vr, lip = drift_stats(phi, q, r, 1.0)
        dt0 = 0.2 / lip
        errs = []
        try:
            for dt in (dt0, dt0 / 2):
                fe = run_real(C, bq, br, q, r, phi, fv, dt, 0.0, True, True, 1e-10, 1.0)
                fi = run_real(C, bq, br, q, r, phi, fv, dt, 0.0, True, False, 1e-14, 1.0, timeout=30.0)
                errs.append(float(np.abs(fe - fi)[:, 2:-2].max()))
        except Timeout:
            chk.fail('C12:impl-no-termination', 'implicit iteration did not return within 30 s on a contractive input (dt = 0.2/Lipschitz bound)',
                     {'path': kind, 'degrees': degs, 'dt': dt0, 'seed_case': it, 'test': 'order-in-dt'})
            continue
        order = math.log2(errs[0] / errs[1]) if errs[1] > 0 else float('inf')
        chk.count('test: explicit vs implicit order in dt measured %.1f' % round(order, 1))
        if errs[1] > 1e-11 and order < 2.5:
            chk.fail('C12:third-order', 'explicit and implicit variants do not agree to third order in dt',
                     {'path': kind, 'degrees': degs, 'dt': dt0, 'seed_case': it}, expected='order ~3', actual={'errors': errs, 'order': order})


def slow_contraction_test(chk, C):
    """the implicit variant returns the CONVERGED iteration also when the fixed-point iteration contracts slowly (steep potential,
    large step: tens to hundreds of sweeps).  Oracle: the independent node-by-node iteration, run to the same tolerance"""
    from pygyro.splines.splines import Spline2D
    rng = chk.rng
    done = 0
    for it in range(chk.n(6, 24)):
        if done >= chk.n(2, 8):
            break
        kind = rng.choice(['cu', 'gu'])
        degs = (3, 3)
        bq, br, q, r, phi, interp, fv, omega = build(rng, C, kind, degs, (8, 6), (1.0, 3.0), 'gen', 'smooth')
        va, vr, lip = drift_stats(phi, q, r, 1.0)
        fs = Spline2D(bq, br)
        interp.compute_interpolant(fv, fs)
        tol = 1e-12
        pick = None
        sgn = rng.choice([-1.0, 1.0])
        for fac in (1.7, 2.4, 3.2, 4.2, 5.5, 7.0, 9.0):
            dt = sgn * fac / lip
            out, kinds, margin, feet, sweeps, norms = oracle_step(phi, fs, q, r, dt, 1.0, 0.0, True, C, False, tol)
            if 50 <= sweeps < IMPL_FUEL and norms and not norms[-1] > tol:
                pick = (dt, out, kinds, margin, sweeps)
                break
        if pick is None:
            chk.count('test: no slowly contracting step found for this potential')
            continue
        dt, out, kinds, margin, sweeps = pick
        case = {'path': kind, 'dt': dt, 'oracle_sweeps': sweeps, 'tol': tol, 'seed_case': it, 'test': 'slow-contraction'}
        try:
            fi = run_real(C, bq, br, q, r, phi, fv, dt, 0.0, True, False, tol, 1.0, timeout=60.0)
        except Timeout:
            chk.fail('C12:impl-no-termination', 'implicit iteration did not return within 60 s; the independent implementation converges in %d sweeps' % sweeps, case)
            continue
        ok = (kinds == 'spline') & (margin > 1e-6)
        err = float(np.abs(fi - out)[ok].max()) if ok.any() else 0.0
        scale = float(np.abs(fv).max())
        if err > 1e-7 * max(scale, 1.0):
            i, j = np.unravel_index(int(np.argmax(np.where(ok, np.abs(fi - out), 0.0))), out.shape)
            chk.fail('C12:impl-not-converged', 'implicit step differs from the converged trapezoid iteration (%d sweeps needed) by %.3g at node (%d,%d)'
                     % (sweeps, err, i, j), case, expected=float(out[i, j]), actual=float(fi[i, j]))
        chk.case(('slow', it, kind), nontrivial=True)
        chk.count('test: slowly contracting implicit steps (%d+ sweeps)' % (50 if sweeps < 100 else 100))
        done += 1


F28_SIG = 'C12:impl-no-termination:phi=0.3*r*cos(2*theta),dt=1,8x8-cubic,r-in-[0.1,14.5]'


def known_nontermination(chk, C):
    """finding F28 (known, not repaired): outside the contraction regime |dt| L / 2 < 1 the fixed-point iteration of the implicit scheme has
    no reason to converge and the `while (norm > tol)` of the kernel has no iteration limit.  The specific input recorded in
    KNOWN_FINDINGS.json is replayed on the real code on every run (10 CPU seconds guard; the explicit scheme needs 0.01 s); the model level
    counterpart is Props/C12NonTerm.lean (pol_impl_need_not_terminate: out of fuel for EVERY fuel)."""
    from pygyro.splines import splines as spl
    from pygyro.splines.spline_interpolators import SplineInterpolator2D
    nq = nr = 8
    bq = spl.BSplines(spl.make_knots(np.linspace(0, 2 * np.pi, nq + 1), 3, True), 3, True, True)
    br = spl.BSplines(spl.make_knots(np.linspace(0.1, 14.5, nr - 2), 3, False), 3, False, True)
    q, r = bq.greville, br.greville
    A, dt, B0 = 0.3, 1.0, 1.0
    phi = spl.Spline2D(bq, br)
    SplineInterpolator2D(bq, br).compute_interpolant(A * np.cos(2 * q)[:, None] * r[None, :], phi)
    fv = np.ones((nq, nr))
    case = {'grid': '8x8 uniform cubic, theta periodic, r in [0.1, 14.5]', 'phi': '0.3*r*cos(2*theta)', 'dt': dt, 'B0': B0, 'tol': 1e-10,
            'explicitTrap': False}
    # the independent iteration (analytic drift, no pygyro code): the change between iterates does not go to zero
    Q, R = np.meshgrid(q, r, indexing='ij')

    def drift(qq, rr):
        return -A * np.cos(2 * qq) / (rr * B0), -2 * A * np.sin(2 * qq) / B0
    dq0, dr0 = drift(Q, R)
    qk, rk = (Q + dq0 * dt) % (2 * np.pi), np.clip(R + dr0 * dt, r[0], r[-1])
    last = []
    for it in range(2000):
        dqk, drk = drift(qk, rk)
        qn = (Q + 0.5 * dt * (dq0 + dqk)) % (2 * np.pi)
        rn = np.clip(R + 0.5 * dt * (dr0 + drk), r[0], r[-1])
        d = np.abs(qn - qk)
        d = np.where(d > np.pi, 2 * np.pi - d, d)
        last.append(max(d.max(), np.abs(rn - rk).max()))
        qk, rk = qn, rn
    case['independent_iteration_change_after_2000_sweeps'] = float(min(last[-50:]))
    try:
        run_real(C, bq, br, q, r, phi, fv, dt, 0.0, True, True, 1e-10, B0, timeout=10.0)       # explicit: returns at once
        run_real(C, bq, br, q, r, phi, fv, dt, 0.0, True, False, 1e-10, B0, timeout=10.0)
        chk.count('F28 input: the implicit step returned')
    except Timeout:
        chk.fail(F28_SIG, 'the implicit poloidal step does not return (10 CPU seconds; the explicit step needs 0.01 s): the fixed-point '
                 'iteration cycles (independent iteration: change between iterates %.2g after 2000 sweeps) and the while loop has no '
                 'iteration limit' % case['independent_iteration_change_after_2000_sweeps'], case)
        chk.count('F28 input: the implicit step does not return (known finding)')
    chk.case(('F28',), nontrivial=True)


def run(chk):
    from pygyro.initialisation.constants import Constants
    chk.rule = ('cases: (explicit Heun | implicit trapezoid) x (nulEdge | fEq edge) x (uniform-cubic kernels | general kernels degree '
                '1-4, uniform/non-uniform breaks) x potential (random smooth, omega r^2/2 incl. rotations by whole cells, constant, 0) '
                'x f (random, smooth, near-equilibrium), dt of both signs sized to move feet by 0.05-1.5 radial cells (explicit) or to a '
                'contraction factor 0.03-0.3 (implicit), B0 in {1, 2, 0.75}; non-trivial = non-constant potential and dt != 0; '
                'distinct by (scheme, edge, path, degrees, cells, potential, dt)')
    chk.explanation = ('partial proof + correspondence: the algebraic clauses (Heun = trapezoidal rule with 1/2 and 1/(r B0), boundary '
                       'rule, constant-potential identity, exact rigid rotation, one-sweep convergence in those cases, clipped feet of the '
                       'implicit scheme) are Lean theorems over abstract spline evaluators; "agree to third order in dt" and termination of '
                       'the fixed-point iteration are analytic and are measured as tests; the model is tied to the code by differential '
                       'testing (exact rationals with evaluator arguments / carried iterates rounded to 2^-80; own termination decision).')
    # Props/C12Gen.lean is about Generated/PolExplGen.lean = the explicit step as the source says it NOW: regenerate it first
    common.run_translator(chk, 'translate_pure.py', '--only', 'polexpl')
    # Props/C12Gen2.lean: Generated/PolImplGen.lean = the implicit step (sweeps until norm <= tol, then the value at the feet)
    common.run_translator(chk, 'translate_pure.py', '--only', 'polimpl')
    # Props/C12Gen3.lean discharges the table contract of C12Gen / C12Gen2 with the generated evaluators: Generated/Eval2DGen.lean (and the 1-D kernels it
    # calls) and Generated/Cross2DGen.lean must be the current source too
    for tgt in ('basisfuns', 'eval1d', 'cueval', 'eval2d', 'cross2d'):
        common.run_translator(chk, 'translate_pure.py', '--only', tgt)
    chk.proof_side(build=not getattr(chk, 'no_build', False), extra_props=('C12Extra', 'C12Gen', 'C12Gen2', 'C12NonTerm', 'C12Gen3'))
    C = Constants()
    drv = common.LeanDriver('C11.lean')
    try:
        correspondence(chk, drv, C)
    finally:
        drv.close()
    reuse_cases(chk, C)
    order_test(chk, C)
    slow_contraction_test(chk, C)
    known_nontermination(chk, Constants())
    chk.assumptions = [
        'compute_interpolant is a contract: the model evaluates the coefficients of the real phi spline and of the real interpolant of the old f',
        'both spline paths evaluate the same spline (C07); the cubic-uniform path is evaluated on the equidistant knot vector xmin+dx*(i-3)',
        'x % (2*pi) is modelled as x - P*floor(x/P) with P = the double 2*pi (Python float % : exact for x >= 0, one rounding for x < 0)',
        'f_eq is a tag; the harness evaluates the real f_eq at the model\'s arguments',
        'tolerance = first-order forward error bound of the double-precision kernel (rounding of each spline evaluation and position update, propagated with global Lipschitz bounds 2p/h per derivative of the evaluators); no absolute constant',
        'nodes whose predictor or foot lies within 2^-40*(rmax-rmin) of rmin/rmax are excluded and counted (as the property says)',
        'model evaluators round their arguments, and the implicit iterates carried between sweeps, down to multiples of 2^-80 (bounded rational size); fuel 400; termination of the real code is observed (20 s guard); it is proved for contractions (C12Extra) and refuted in general (C12NonTerm, finding F28)',
        'the potential spline has degree >= 2 in both directions (for degree 1 the derivative evaluators are discontinuous at the knots = nodes, a comparison there is not meaningful)',
    ]
    return chk.finish()
