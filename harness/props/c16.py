"""C16 — density is the exact velocity integral of the interpolated distribution.

proof side     : Props/C16.lean (density_is_quadrature, density_decomposition_independent, density_linear,
                 density_perturbed_affine, density_zero_for_equilibrium, density_exact_in_spline_space)
                 Props/C16Gen.lean (tie by translation: Generated/DensityGen.lean = `get_rho`, `get_perturbed_rho` of
                 pygyro/poisson/poisson_tools.py regenerated from the source on every run, REAL instance of the type
                 variable `T`; gen_get_rho_eq / gen_get_perturbed_rho_eq: generated = Model `getRhoKernel` /
                 `getPerturbedRhoKernel` inside the box `rho.shape` for all extents and every coefficient length, entries
                 outside untouched; gen_*_overwrites: previous contents of rho irrelevant; gen_density_is_quadrature)
correspondence : real `DensityFinder.getPerturbedRho/getRho` on every rank of every process grid with <= 6
                 simulated ranks vs. the Lean model (Drivers/C14.lean, op `density`) fed with the real
                 quadrature coefficients and the real equilibrium table; exact rational value, float and complex rho.
oracle (no model): exact (fractions) integral of the spline interpolating f (minus f_eq of the slice's own
                 global radius, f_eq evaluated by the repo's scalar function) along v; zero for the equilibrium;
                 linearity; identical assembled global result for every decomposition incl. serial.
"""
from fractions import Fraction as Fr

import numpy as np

import common
from props import c14 as H

LEVEL = 'proof'

EPS = Fr(common.EPS)
# accepted |impl - exact integral| / (eps * sum_l |w_l (f_l - feq_l)|); observed maximum on the unchanged tree is
# printed in the evidence (notes.max_ratio_integral); the bound leaves >= 100x head-room (third-party LU of the
# collocation matrix produces the weights, so its backward error enters here)
C_INTEGRAL = 4096
C_MODEL = 64


def proc_grids(max_ranks, nr, nz):
    out = []
    for pr in range(1, max_ranks + 1):
        for pz in range(1, max_ranks // pr + 1):
            if pr <= nr and pz <= nz:
                out.append((pr, pz))
    return out


def run_density(setup, nprocs, G, perturbed, cplx, policy_seed, warm=None):
    """run the real DensityFinder on all ranks; returns per rank (starts, ends, block in, rho out, q, fEq)"""
    from mpi4py import MPI
    from pygyro.model.layout import getLayoutHandler
    from pygyro.model.grid import Grid
    from pygyro.poisson.poisson_solver import DensityFinder
    eta, bs, consts = setup['eta'], setup['bsplines'], setup['constants']

    def body():
        comm = MPI.COMM_WORLD
        import copy
        df0 = None
        if warm is not None and policy_seed % 2 == 0:
            # the finder outlives the grid it served first: that grid and its layout manager are DROPPED before the next ones are built
            # (the scan of a parameter re-uses one finder), so new objects may take the very place of the old ones in memory
            import gc
            consts0 = copy.copy(setup['constants'])
            df0 = DensityFinder(setup['quad_degree'], bs[3], eta, consts0)
            for _ in range(3):
                hw = getLayoutHandler(comm, {'v_parallel': [0, 2, 1, 3]}, list(warm), eta)
                gw = Grid(eta, bs, hw, 'v_parallel', comm)
                gw._f[:] = 1.0 + 0.25 * np.arange(gw._f.size).reshape(gw._f.shape)
                hrw = getLayoutHandler(comm, {'v_parallel_2d': [0, 2, 1]}, list(warm), eta[:3])
                rw = Grid(eta[:3], bs[:3], hrw, 'v_parallel_2d', comm, dtype=np.complex128 if cplx else float)
                (df0.getPerturbedRho if perturbed else df0.getRho)(gw, rw)
                del hw, gw, hrw, rw
                gc.collect()
        h = getLayoutHandler(comm, {'v_parallel': [0, 2, 1, 3]}, list(nprocs), eta)
        g = Grid(eta, bs, h, 'v_parallel', comm)
        hr = getLayoutHandler(comm, {'v_parallel_2d': [0, 2, 1]}, list(nprocs), eta[:3])
        rho = Grid(eta[:3], bs[:3], hr, 'v_parallel_2d', comm, dtype=np.complex128 if cplx else float)
        L = g.getLayout('v_parallel')
        blk = np.transpose(G, (0, 2, 1, 3))[L.starts[0]:L.ends[0], L.starts[1]:L.ends[1]]
        g._f[:] = blk
        # stale content must be overwritten whatever it is: what the in-place FFT of the previous step left (non-real), or what np.empty
        # memory / a diverged earlier step may hold (nan, inf)
        stale = [7.5, np.nan, np.inf, -np.inf][policy_seed % 4]
        rho._f[:] = complex(stale, -3.25 if policy_seed % 8 < 4 else np.nan) if cplx else stale
        consts = copy.copy(setup['constants'])           # this rank's own Constants object (ranks are threads here)
        df = DensityFinder(setup['quad_degree'], bs[3], eta, consts) if df0 is None else df0
        if df0 is not None:
            consts = consts0
        # the finder has been built: its equilibrium table and weights are fixed.  The Constants object it was given is changed
        # afterwards (re-used for another set-up); the oracle uses the values of construction time
        saved_consts = {k: getattr(consts, k) for k in ('CN0', 'kN0', 'deltaRN0', 'CTi', 'kTi', 'deltaRTi', 'rp')}
        consts.kN0, consts.deltaRN0, consts.CTi, consts.kTi = 3.0 * consts.kN0, 0.5 * consts.deltaRN0, 2.0 * consts.CTi, 0.5 * consts.kTi
        consts.CN0 = 0.31
        if warm is not None and df0 is None:
            # the same DensityFinder is first used for a grid that is decomposed differently over the same processes (and holds
            # other data): nothing of that call may survive into the next one
            hw = getLayoutHandler(comm, {'v_parallel': [0, 2, 1, 3]}, list(warm), eta)
            gw = Grid(eta, bs, hw, 'v_parallel', comm)
            gw._f[:] = 1.0 + 0.25 * np.arange(gw._f.size).reshape(gw._f.shape)
            hrw = getLayoutHandler(comm, {'v_parallel_2d': [0, 2, 1]}, list(warm), eta[:3])
            rw = Grid(eta[:3], bs[:3], hrw, 'v_parallel_2d', comm, dtype=np.complex128 if cplx else float)
            (df.getPerturbedRho if perturbed else df.getRho)(gw, rw)
        if perturbed:
            df.getPerturbedRho(g, rho)
        else:
            df.getRho(g, rho)
        for k_, v_ in saved_consts.items():
            setattr(consts, k_, v_)
        Lr = rho.getLayout('v_parallel_2d')
        return {'starts': [int(x) for x in L.starts], 'ends': [int(x) for x in L.ends],
                'rstarts': [int(x) for x in Lr.starts], 'block': np.array(blk), 'rho': np.array(rho._f),
                'q': np.array(df._quad_coeffs), 'feq': np.array(df._fEq), 'grid_after': np.array(g._f)}
    return MPI.run(int(np.prod(nprocs)), body, policy='random', seed=policy_seed)


def other_layout_case(chk, setup, G, feq_tab, perturbed, case0):
    """f in a layout whose last dimension is v but whose first is NOT r (z, r, theta, v): today both kernels refuse it (assert on the
    layout); if it is ever accepted, the density at (r, theta, z) is still the integral over v minus the equilibrium AT THAT RADIUS"""
    from mpi4py import MPI
    from pygyro.model.layout import getLayoutHandler
    from pygyro.model.grid import Grid
    from pygyro.poisson.poisson_solver import DensityFinder
    eta, bs = setup['eta'], setup['bsplines']

    def body():
        comm = MPI.COMM_WORLD
        g = Grid(eta, bs, getLayoutHandler(comm, {'zfirst': [2, 0, 1, 3]}, [1, 1], eta), 'zfirst', comm)
        rho = Grid(eta[:3], bs[:3], getLayoutHandler(comm, {'zfirst_3d': [2, 0, 1]}, [1, 1], eta[:3]), 'zfirst_3d', comm)
        g._f[:] = np.transpose(G, (2, 0, 1, 3))
        rho._f[:] = np.nan
        import copy
        df = DensityFinder(setup['quad_degree'], bs[3], eta, copy.copy(setup['constants']))
        try:
            (df.getPerturbedRho if perturbed else df.getRho)(g, rho)
        except AssertionError:
            return None
        return np.array(rho._f), np.array(df._quad_coeffs)
    res = MPI.run(1, body)
    case = dict(case0, layout_of_f=[2, 0, 1, 3], layout_of_rho=[2, 0, 1])
    if not res.ok:
        chk.fail('C16:other-layout-crash', 'DensityFinder on a (z, r, theta, v) layout raised: ' + str(res.first_error())[:200], case)
        return
    out = res.values()[0]
    if out is None:
        chk.count('layout (z, r, theta, v): refused by the layout assert')
        return
    got, q = out
    want = np.einsum('rtzl,l->zrt', G - (feq_tab[:, None, None, :] if perturbed else 0.0), q)
    scale = np.einsum('rtzl,l->zrt', np.abs(G) + (np.abs(feq_tab)[:, None, None, :] if perturbed else 0.0), np.abs(q)) + 1e-300
    if got.shape != want.shape or not (np.abs(got - want) <= 1e-10 * scale).all():
        chk.fail('C16:other-layout', 'the density of an f stored (z, r, theta, v) was accepted and is not the integral over v%s'
                 % (' minus the equilibrium of the point\'s own radius' if perturbed else ''), case)
    chk.count('layout (z, r, theta, v): accepted and compared')


def exact_tools(setup):
    """exact (fractions) interpolation-then-integration functional of the v spline: row vector W with
    integral(interpolant(u)) = W . u, from the exact collocation matrix and the exact basis integrals"""
    bs = setup['bsplines'][3]
    kn, d = H.frac_knots(bs), bs.degree
    xs = [Fr(float(x)) for x in setup['eta'][3]]
    n = bs.nbasis
    M = [[H.frac_basis(kn, d, j, x) for j in range(n)] for x in xs]
    integ = [(kn[j + d + 1] - kn[j]) / (d + 1) for j in range(n)]
    try:
        Minv = H.frac_inverse(M)
    except StopIteration:
        raise RuntimeError('exact_tools: singular collocation matrix: degree %d, breaks %r, points %r, cubic_uniform %r' % (
            d, [float(b) for b in bs.breaks], [float(x) for x in xs], bool(bs.cubic_uniform)))
    # c = Minv u ; integral = integ . c
    W = [sum(integ[j] * Minv[j][l] for j in range(n)) for l in range(n)]
    return W


def feq_oracle(setup):
    """equilibrium at every (global r, v): the repo's scalar f_eq (an input table of the property)"""
    from pygyro.initialisation import initialiser_funcs as init
    c = setup['constants']
    r, v = setup['eta'][0], setup['eta'][3]
    return np.array([[init.f_eq(float(ri), float(vj), c.CN0, c.kN0, c.deltaRN0, c.rp, c.CTi, c.kTi, c.deltaRTi)
                      for vj in v] for ri in r])


def assemble(res, shape3, cplx):
    out = np.full(shape3, np.nan, dtype=complex if cplx else float)
    cover = np.zeros(shape3, int)
    for o in res.values():
        s = o['rstarts']
        blk = o['rho']
        out[s[0]:s[0] + blk.shape[0], s[1]:s[1] + blk.shape[1], :] = blk
        cover[s[0]:s[0] + blk.shape[0], s[1]:s[1] + blk.shape[1], :] += 1
    return out, cover


def one_setup(chk, drv, it, stats):
    rng = chk.rng
    vdeg = rng.choice([1, 2, 3, 3, 3, 4, 5])
    uniform_flag = rng.random() < 0.7
    nr = rng.randint(2, 6)
    nz = rng.randint(2, 5)
    nth = rng.randint(2, 4)
    cubic_uniform = vdeg == 3 and uniform_flag
    nv = rng.randint(max(vdeg + 1, 6 if cubic_uniform else 2), 10)
    rdeg = rng.choice([1, 2, 3])
    nr = max(nr, rdeg + 1)
    if it % 10 == 7:
        nr = [35, 50, 37][it // 10 % 3]          # many radial surfaces on one process (blocked loops over the radius)
    # half of the set-ups with profile constants away from their defaults (by default the electron and the ion temperature
    # profiles coincide, so a mix-up of the two is invisible); the equilibrium of the property is the ION Maxwellian
    consts = {}
    if rng.random() < 0.5:
        consts = {'CTi': rng.uniform(0.6, 1.4), 'kTi': rng.uniform(0.05, 0.4), 'deltaRTi': rng.uniform(0.8, 3.0),
                  'CTe': rng.uniform(0.6, 1.4), 'kTe': rng.uniform(0.05, 0.4), 'deltaRTe': rng.uniform(0.8, 3.0),
                  'kN0': rng.uniform(0.02, 0.1), 'deltaRN0': rng.uniform(1.5, 4.0)}
    if it % 5 == 3:
        # a flat ion temperature (kTi exactly zero) with a density profile that is NOT flat: the equilibrium still depends on the radius
        consts = dict(consts, kTi=0.0, kN0=[0.055, 0.1][it // 5 % 2])
    if it % 3 == 1:
        # the centre of the radial profiles is a constant of its own (a parameter file may give it): not the middle of the radial grid
        consts = dict(consts, rp=[3.1, 5.0, 10.4][it // 3 % 3])
    # v grids: equidistant, or graded towards one end (asymmetric); (periodic v spaces: the weights are C09's subject, the exact
    # oracle here is written for clamped spaces)
    vkind = rng.choice(['uniform', 'uniform', 'graded', 'graded'])
    if it % 6 == 4:
        vkind = 'graded-steep'       # cells growing geometrically by a factor 4: some exact quadrature weights are NEGATIVE
    if vkind != 'uniform':
        uniform_flag = uniform_flag and vkind == 'periodic'
        nv = max(nv, vdeg + 2)

    def vbreaks(n, lo, hi):
        if 'graded' not in vkind:
            return np.linspace(lo, hi, n)
        w = np.array([1.0 + 0.35 * k for k in range(n - 1)]) * np.array([rng.uniform(0.8, 1.2) for _ in range(n - 1)])
        if vkind == 'graded-steep':
            w = 4.0 ** (np.arange(n - 1) % 4)
        x = np.concatenate([[0.0], np.cumsum(w)])
        out_ = lo + (hi - lo) * x / x[-1]
        out_[0], out_[-1] = lo, hi                      # the end points exactly
        return out_
    setup = H.make_setup([nr, nth, nz, nv], [rdeg, min(3, nth - 1) or 1, min(3, nz - 1) or 1, vdeg], uniform_flag,
                         vrange=rng.choice([(-7.32, 7.32), (0.0, 10.0), (-3.0, 5.0)]),
                         period=(False, True, True, vkind.startswith('periodic')), vbreaks=vbreaks, **consts)
    setup['quad_degree'] = rng.choice([0, 1, 2, 3, 6])     # the first constructor argument is not the degree of the v spline
    perturbed = rng.random() < 0.7
    cplx = rng.random() < 0.5
    kind = rng.choice(['random', 'random', 'near_eq', 'equilibrium', 'poly', 'sparse'])
    nprng = np.random.RandomState(rng.randrange(1 << 30))
    feq_tab = feq_oracle(setup)
    v = setup['eta'][3]
    if kind == 'random':
        G = nprng.uniform(-2, 2, size=(nr, nth, nz, nv))
    elif kind == 'sparse':
        # exact zeros at many velocity points, whole (r, theta, z) lines identically zero (empty phase space, cut-off distributions)
        G = nprng.uniform(-2, 2, size=(nr, nth, nz, nv)) * (nprng.uniform(size=(nr, nth, nz, nv)) < 0.4)
        G[nprng.uniform(size=(nr, nth, nz)) < 0.25] = 0.0
    elif kind == 'near_eq':
        G = feq_tab[:, None, None, :] * (1 + 1e-3 * nprng.uniform(-1, 1, size=(nr, nth, nz, nv)))
    elif kind == 'equilibrium':
        G = np.broadcast_to(feq_tab[:, None, None, :], (nr, nth, nz, nv)).copy()
    else:
        co = nprng.uniform(-1, 1, size=(nr, nth, nz, vdeg + 1))
        G = sum(co[..., k:k + 1] * v[None, None, None, :] ** k for k in range(vdeg + 1))
    W = exact_tools(setup)
    grids = proc_grids(chk.n(6, 6), nr, nz)
    case0 = {'npts': [nr, nth, nz, nv], 'vdeg': vdeg, 'uniform_flag': uniform_flag, 'perturbed': perturbed, 'constants': consts, 'v_grid': vkind,
             'complex_rho': cplx, 'kind': kind, 'quad_degree': setup['quad_degree']}
    if it % 4 == 2:
        other_layout_case(chk, setup, np.real(G) if np.iscomplexobj(G) else G, feq_tab, perturbed or it % 8 == 2, case0)
    serial = None
    # exact integral at every global point (oracle)
    exact = np.empty((nr, nz, nth), dtype=object)
    escale = np.empty((nr, nz, nth), dtype=object)
    for R in range(nr):
        fe = [Fr(float(x)) for x in feq_tab[R]] if perturbed else [Fr(0)] * nv
        for Z in range(nz):
            for T in range(nth):
                u = [Fr(float(G[R, T, Z, l])) - fe[l] for l in range(nv)]
                exact[R, Z, T] = sum(W[l] * u[l] for l in range(nv))
                escale[R, Z, T] = sum(abs(W[l] * u[l]) for l in range(nv))
    for gi, nprocs in enumerate(grids):
        case = dict(case0, nprocs=list(nprocs))
        alts = [g for g in grids if g[0] * g[1] == nprocs[0] * nprocs[1] and g != nprocs]
        warm = rng.choice(alts) if alts and rng.random() < 0.6 else None
        if warm is not None:
            case['first_used_on_process_grid'] = list(warm)
            chk.count('DensityFinder re-used after a differently decomposed grid')
        res = run_density(setup, nprocs, G, perturbed, cplx, policy_seed=it * 31 + gi, warm=warm)
        if not res.ok:
            chk.fail('C16:crash', 'DensityFinder raised: ' + str(res.first_error())[:200], case)
            continue
        outs = res.values()
        # --- correspondence: Lean model on every rank's block with the real weights and the real table
        reqs = [{'op': 'density', 'q': common.rats(o['q']), 'feq': [common.rats(r) for r in o['feq']],
                 'rstart': o['starts'][0], 'perturbed': perturbed,
                 'block': [[[common.rats(l) for l in t] for t in z] for z in o['block']]} for o in outs]
        for o, mo in zip(outs, drv.batch(reqs)):
            if 'error' in mo:
                raise RuntimeError('driver: ' + mo['error'])
            rc = dict(case, starts=o['starts'][:2])
            impl = o['rho']
            if cplx and np.any(impl.imag != 0):
                chk.fail('C16:imag', 'complex rho storage received a non-zero imaginary part', rc)
            bad = None
            for i in range(impl.shape[0]):
                for j in range(impl.shape[1]):
                    for k in range(impl.shape[2]):
                        m, s = Fr(mo['rho'][i][j][k]), Fr(mo['scale'][i][j][k])
                        if not common.close(impl[i, j, k].real, m, s, C_MODEL) and bad is None:
                            bad = (i, j, k, str(m), float(impl[i, j, k].real))
                        if s and np.isfinite(impl[i, j, k].real):
                            stats['model'] = max(stats['model'], float(abs(Fr(float(impl[i, j, k].real)) - m) / (EPS * s)))
            if bad is not None:
                chk.diff('rho value', dict(rc, local_index=bad[:3]), bad[3], bad[4])
            if not np.array_equal(o['grid_after'], o['block']):
                chk.fail('C16:input-modified', 'the distribution function was modified by the density computation', rc)
            if o['rstarts'][:2] != o['starts'][:2]:
                chk.fail('C16:layout', 'rho block offset differs from the grid block offset', rc)
        # --- oracle on the assembled global result
        glob, cover = assemble(res, (nr, nz, nth), cplx)
        if not (cover == 1).all():
            chk.fail('C16:cover', 'rho blocks of the ranks do not tile the global (r,z,theta) box', case)
            continue
        worst = None
        for R in range(nr):
            for Z in range(nz):
                for T in range(nth):
                    val = glob[R, Z, T].real
                    e, s = exact[R, Z, T], escale[R, Z, T]
                    if s and np.isfinite(val):
                        stats['integral'] = max(stats['integral'], float(abs(Fr(float(val)) - e) / (EPS * s)))
                    if not common.close(val, e, s, C_INTEGRAL) and worst is None:
                        worst = {'global_index': [R, T, Z], 'expected': float(e), 'actual': float(val)}
        if worst is not None:
            chk.fail('C16:integral' if not (kind == 'equilibrium' and perturbed) else 'C16:equilibrium',
                     'density differs from the exact integral of the v-interpolant of f%s at the point\'s own global radius'
                     % (' - f_eq' if perturbed else ''), dict(case, **worst), worst['expected'], worst['actual'])
        if kind == 'equilibrium' and perturbed:
            feqs = np.abs(feq_tab).max()
            if np.abs(glob).max() > 1e3 * common.EPS * nv * feqs * np.abs(outs[0]['q']).max():
                chk.fail('C16:equilibrium', 'perturbed density of the equilibrium is not zero', case,
                         0.0, float(np.abs(glob).max()))
            chk.count('equilibrium cases')
        if serial is None:
            serial = glob
        else:
            # decomposition independence: per point the same operations are performed -> identical up to rounding
            tol = 4 * common.EPS * np.vectorize(float)(escale)
            if not (np.abs(glob.real - serial.real) <= tol).all():
                idx = np.unravel_index(np.argmax(np.abs(glob.real - serial.real) - tol), glob.shape)
                chk.fail('C16:decomposition', 'density depends on the process grid', dict(case, global_index=[int(x) for x in idx]),
                         float(serial[idx].real), float(glob[idx].real))
        uneven = (nr % nprocs[0] != 0) or (nz % nprocs[1] != 0)
        chk.case(('dens', nr, nth, nz, nv, vdeg, uniform_flag, perturbed, cplx, kind, nprocs),
                 nontrivial=nprocs[0] > 1, sample=dict(case, rho000=float(glob[0, 0, 0].real)) if (it == 0 and gi < 2) else None)
        chk.count('grid %dx%d' % nprocs)
        chk.count('kind ' + kind)
        chk.count('uneven r/z split' if uneven else 'even split')
        chk.traces_validated += 1
    # --- linearity of getRho on the serial grid (oracle, float)
    if not perturbed:
        a, b = nprng.uniform(-2, 2, size=2)
        G2 = nprng.uniform(-2, 2, size=G.shape)
        r1 = assemble(run_density(setup, (1, 1), G, False, cplx, 0), (nr, nz, nth), cplx)[0]
        r2 = assemble(run_density(setup, (1, 1), G2, False, cplx, 0), (nr, nz, nth), cplx)[0]
        r3 = assemble(run_density(setup, (1, 1), a * G + b * G2, False, cplx, 0), (nr, nz, nth), cplx)[0]
        q = np.abs(run_density(setup, (1, 1), G, False, cplx, 0).values()[0]['q'])
        sc = (np.abs(a) * np.abs(G) + np.abs(b) * np.abs(G2)) @ q
        sc = np.transpose(sc, (0, 2, 1))
        if not (np.abs(r3 - (a * r1 + b * r2)) <= 16 * nv * common.EPS * sc).all():
            chk.fail('C16:linearity', 'getRho is not linear in the distribution function', case0)
        chk.count('linearity cases')


def run(chk):
    chk.rule = ('random (nr,ntheta,nz,nv), v degree 1-5, cubic-uniform or general v spline, f random / near equilibrium / '
                'exact equilibrium / polynomial in v, perturbed or total density, float or complex rho; each on every '
                'process grid (pr,pz) with pr*pz<=6, pr<=nr, pz<=nz; non-trivial = r distributed (pr>1); '
                'distinct by (sizes, degree, flags, kind, grid)')
    # Props/C16Gen.lean is about Generated/DensityGen.lean = the two kernels as the source says them NOW: regenerate it first
    common.run_translator(chk, 'translate_pure.py', '--only', 'density')
    chk.proof_side(build=not getattr(chk, 'no_build', False), extra_props=('C16Gen',))
    common.use_repo()
    drv = common.LeanDriver('C14.lean')
    stats = {'model': 0.0, 'integral': 0.0}
    try:
        for it in range(chk.n(30, 400)):
            one_setup(chk, drv, it, stats)
        import optflag
        optflag.compare(chk, 'c16', 'C16')
    finally:
        drv.close()
    chk.notes['max_ratio_model'] = 'max |impl-model|/(eps*sum|terms|) = %.3g (accepted %d)' % (stats['model'], C_MODEL)
    chk.notes['max_ratio_integral'] = 'max |impl-exact integral|/(eps*sum|W_l u_l|) = %.3g (accepted %d)' % (stats['integral'], C_INTEGRAL)
    chk.assumptions = [
        'quadrature coefficients are taken from the real object (contract M^T w = I is property C09); the oracle compares '
        'with the exact integral of the exact interpolant, so wrong weights are also seen here',
        'cubic-uniform clamped v splines with fewer than 3 cells (nv<6) are not generated: the weights are wrong there '
        '(recorded under C09, defect F5b)',
        'equilibrium values are inputs: evaluated by the repo\'s scalar f_eq at (eta_grid[0][R], eta_grid[3][l])',
    ]
    return chk.finish()
