"""C03 — redistribution across differently distributed layout groups preserves data.

proof side    : Props/C03.lean
correspondence: the real LayoutSwapper of /repo on simulated ranks vs Model/Swapper.lean (Drivers/C03.lean): constructor outcome,
                chosen communicators, bufferSize per rank, route map, and for random *walks* (sequences of transposes, spare buffer
                given or not) every rank's destination block after every step, source intactness -- exact.
oracle        : numpy expected block on every rank after every step (hence all replicas identical, moving back reproduces the blocks).
"""
import numpy as np

import common
import layout_util as lu
from mpi4py import MPI

LEVEL = 'proof'

DRIVER_GROUPS = [{'v_parallel_2d': [0, 2, 1], 'mode_solve': [1, 2, 0]}, {'v_parallel_1d': [0, 2, 1]}, {'poloidal': [2, 1, 0]}]
TEST_GROUPS = [{'v_parallel_2d': [0, 2, 1], 'mode_solve': [1, 2, 0]}, {'poloidal': [2, 1, 0], 'poloidalTwist': [2, 0, 1]}, {'v_parallel_1d': [0, 2, 1]}]
TEST4_GROUPS = [{'flux_surface2': [0, 3, 1, 2], 'v_parallel': [0, 2, 1, 3], 'poloidal': [3, 2, 1, 0]},
                {'flux_surface1': [0, 3, 1, 2], 'z_surface': [2, 3, 1, 0], 'vr_contig1': [2, 1, 3, 0]}]


def to_ints(a):
    return [int(x) for x in (np.real(a) if a.dtype.kind == 'c' else a)]


def as_lists(nprocs):
    return [[int(x) for x in np.atleast_1d(n)] for n in nprocs]


def same_axis_count_groups(cfg):
    """the class of finding F9: two different handlers with equally many process axes"""
    L = [len(n) for n in as_lists(cfg['nprocs'])]
    return len(L) != len(set(L)) or False


def run_impl(cfg):
    from pygyro.model.layout import LayoutSwapper
    groups, nprocs, shape, start, steps, dtype = (cfg[k] for k in ('groups', 'nprocs', 'ext', 'start', 'steps', 'dtype'))
    eta = lu.eta_grids(shape)
    G = lu.global_array(shape, dtype)
    world = cfg['world']
    progress = cfg.setdefault('_progress', {})

    def body():
        comm = MPI.COMM_WORLD
        try:
            sw = LayoutSwapper(comm, groups, [list(n) if len(n) > 1 or cfg.get('as_list') else n[0] for n in as_lists(nprocs)], eta, start)
        except MPI.SimAbort:
            raise
        except Exception as e:  # noqa: BLE001
            return {'ctor': '%s: %s' % (type(e).__name__, e)}
        B = int(sw.bufferSize)
        names = [n for g in groups for n in g]
        blocks = {n: ([int(x) for x in sw.getLayout(n).starts], [int(x) for x in sw.getLayout(n).ends], [int(x) for x in sw.getLayout(n).dims_order])
                  for n in names}
        out = {'ctor': 'ok', 'buffer': B, 'steps': [], 'blocks': blocks,
               'routes': [[None if a == b else list(sw._route_map[a][b]) for b in names] for a in names] if len(names) > 1 else None}
        bufs = [np.full(B, -1, dtype=G.dtype), np.full(B, -2, dtype=G.dtype), np.full(B, -3, dtype=G.dtype)]
        cur = start
        lu.put_block(bufs[0], G, sw.getLayout(cur))
        d, o = 0, 1
        # a second field moved through the SAME swapper between the steps of the first one (the driver shares one swapper between f, phi
        # and rho): where the first field currently is may not influence how the second one is moved
        second = list(cfg.get('second') or [])
        G2 = G + 1000
        bufs2 = [np.full(B, -4, dtype=G.dtype), np.full(B, -5, dtype=G.dtype), np.full(B, -6, dtype=G.dtype)]
        cur2 = start
        lu.put_block(bufs2[0], G2, sw.getLayout(cur2))
        d2, o2 = 0, 1
        out['steps2'] = []
        for si, (dst, ub) in enumerate(steps):
            ls, ld = sw.getLayout(cur), sw.getLayout(dst)
            before = bufs[d][:ls.size].copy()
            progress[comm.Get_rank()] = (len(out['steps']), cur, dst)
            try:
                sw.transpose(bufs[d], bufs[o], cur, dst, bufs[2] if ub else None)
            except MPI.SimAbort:
                raise
            except Exception as e:  # noqa: BLE001
                out['steps'].append({'err': '%s: %s' % (type(e).__name__, e)})
                out['raised'] = True
                raise
            exp = lu.expected_block(G, ld)
            got = lu.block_of(bufs[o], ld)
            out['steps'].append({'ok': bool(np.array_equal(got, exp)), 'dest': to_ints(bufs[o][:ld.size]),
                                 'src_intact': bool(np.array_equal(bufs[d][:ls.size], before)), 'source': to_ints(bufs[d][:ls.size])})
            d, o = o, d
            cur = dst
            if si < len(second):
                dst2, ub2 = second[si]
                progress[comm.Get_rank()] = (len(out['steps']), cur2, dst2)
                sw.transpose(bufs2[d2], bufs2[o2], cur2, dst2, bufs2[2] if ub2 else None)
                out['steps2'].append(bool(np.array_equal(lu.block_of(bufs2[o2], sw.getLayout(dst2)), lu.expected_block(G2, sw.getLayout(dst2)))))
                d2, o2 = o2, d2
                cur2 = dst2
        return out
    return lu.run_ranks(world, body, policy=cfg.get('policy', 'inorder'), seed=cfg.get('seed', 0))


def model_args(cfg):
    names = [n for g in cfg['groups'] for n in g]
    return {'groups': [{'names': list(g), 'orders': [g[n] for n in g]} for g in cfg['groups']],
            'nprocs': as_lists(cfg['nprocs']), 'ext': cfg['ext'], 'tie': [names.index(x) for x in set(names)]}


def kind_of(msg):
    t = msg.split(':')[0]
    return {'AssertionError': 'assert', 'ValueError': 'value-error', 'RuntimeError': 'runtime-error', 'IndexError': 'index-error'}.get(t, t)


def check_one(chk, drv, cfg):
    base = model_args(cfg)
    case = {k: cfg[k] for k in ('groups', 'nprocs', 'ext', 'start', 'steps', 'dtype')}
    cfg['_progress'] = {}
    ms = drv.call(dict(base, op='swapper'))
    res = run_impl(cfg)
    vals = [r[1] if r[0] == 'ok' else None for r in res.results]
    # ---- constructor
    ctor = None
    if not res.ok:
        # some ranks may have left the constructor with an exception while the others went on (and then wait for them)
        refused = sorted({kind_of(v['ctor']) for v in vals if v is not None and v.get('ctor') != 'ok'})
        if refused and cfg['_progress']:
            chk.fail('C03:constructor-rank-dependent', 'the constructor raised (%s) on ranks %s while ranks %s went on to transpose' % (
                ', '.join(refused), [r for r, v in enumerate(vals) if v is not None and v.get('ctor') != 'ok'][:4], sorted(cfg['_progress'])[:4]), case)
            return
    if res.ok:
        ctors = [v['ctor'] for v in vals]
        kinds = {('ok' if c == 'ok' else kind_of(c)) for c in ctors}
        if len(kinds) > 1:
            chk.fail('C03:constructor-rank-dependent', 'the constructor succeeds on some ranks and is refused on others: %s' % sorted(set(ctors))[:3], case)
            return
        ctor = ctors[0]
    if ctor is not None and ctor != 'ok':
        k = kind_of(ctor)
        if 'refused' not in ms or ms['refused'].split(':')[0] != k:
            chk.diff('constructor outcome', case, ms.get('refused', 'accepted'), ctor)
        chk.count('constructor refused: ' + k)
        chk.case(('ctor', str(cfg['nprocs']), str(cfg['groups'])), nontrivial=False)
        return
    if 'refused' in ms:
        chk.diff('constructor outcome', case, ms['refused'], 'accepted' if res.ok else str(res.first_error())[:100])
        # the real constructor accepted a grouping the model refuses: the walk on the real code decides whether data can be moved
        if res.ok:
            for i, (dst, ub) in enumerate(cfg['steps']):
                recs = [v['steps'][i] for v in vals]
                if not all(r['ok'] for r in recs):
                    chk.fail('C03:data', 'the constructor accepted the grouping (the model refuses it: %s) and after step %d (-> %s) a rank does not '
                             'hold the global field' % (ms['refused'][:60], i, dst), dict(case, step=i))
                    break
        else:
            chk.fail('C03:transpose-raises', 'the constructor accepted the grouping (the model refuses it: %s) but a transpose raised: %s'
                     % (ms['refused'][:60], str(res.first_error())[:120]), case)
        return
    if not res.ok:
        # a transpose raised on an accepted grouping: the property fails here (data cannot be moved)
        step_i, src, dst = min(cfg['_progress'].values()) if cfg['_progress'] else (0, cfg['start'], cfg['steps'][0][0])
        names = [n for g in cfg['groups'] for n in g]
        hof = {n: gi for gi, g in enumerate(cfg['groups']) for n in g}
        nax = [len(n) for n in as_lists(cfg['nprocs'])]
        route = [src] + (ms['routes'][names.index(src)][names.index(dst)] or [])
        f9 = res.error_kind() == 'value-error' and any(hof[a] != hof[b] and nax[hof[a]] == nax[hof[b]] for a, b in zip(route, route[1:]))
        sig = 'C03:equal-axis-count-handlers-direct-step-raises' if f9 else 'C03:transpose-raises'
        case = dict(case, failing_step=step_i, failing_pair=[src, dst], route=route)
        chk.fail(sig, 'constructor accepted the grouping but a transpose raised: ' + str(res.first_error())[:160], case)
        mw = drv.call(dict(base, op='walk', start=cfg['start'], salt=0, steps=[{'dst': d, 'buf': b} for d, b in cfg['steps']]))
        if not any('refused' in s for s in mw.get('steps', [])):
            chk.diff('transpose refusal', case, 'model: ok', res.error_kind())
        return
    # ---- oracle: in every layout the blocks of all ranks tile the global index space, every point owned by equally many ranks
    #      (world size / number of processes of the layout's handler: the replicas)
    names_all = [n for g in cfg['groups'] for n in g]
    hof_all = {n: gi for gi, g in enumerate(cfg['groups']) for n in g}
    for n in names_all:
        cnt = np.zeros(cfg['ext'], dtype=int)
        for v in vals:
            st, en, order = v['blocks'][n]
            sl = [slice(0, 0)] * len(order)
            for pos, d in enumerate(order):
                sl[d] = slice(st[pos], en[pos])
            cnt[tuple(sl)] += 1
        want = cfg['world'] // int(np.prod(as_lists(cfg['nprocs'])[hof_all[n]]))
        if not (cnt == want).all():
            bad = np.argwhere(cnt != want)[0]
            chk.fail('C03:tiling', 'the blocks of layout %s do not tile the global array: global index %s is owned by %d ranks instead of %d'
                     % (n, [int(x) for x in bad], int(cnt[tuple(bad)]), want), dict(case, layout=n))
            return
    # ---- static data
    if [v['buffer'] for v in vals] != ms['buffer']:
        chk.diff('bufferSize', case, ms['buffer'], [v['buffer'] for v in vals])
    if vals[0]['routes'] is not None and any(v['routes'] != ms['routes'] for v in vals):
        chk.diff('route map', case, ms['routes'], vals[0]['routes'])
    # ---- the walk
    mw = drv.call(dict(base, op='walk', start=cfg['start'], salt=0, steps=[{'dst': d, 'buf': b} for d, b in cfg['steps']]))
    for i, (dst, ub) in enumerate(cfg['steps']):
        recs = [v['steps'][i] for v in vals]
        c = dict(case, step=i)
        if not all(r['ok'] for r in recs):
            chk.fail('C03:data', 'after step %d (-> %s) a rank does not hold the global field' % (i, dst), c)
            break
        if ub and not all(r['src_intact'] for r in recs):
            chk.fail('C03:source', 'source block changed although a spare buffer was supplied (step %d)' % i, c)
            break
        m = mw['steps'][i] if i < len(mw.get('steps', [])) else {'refused': 'missing'}
        if 'refused' in m:
            chk.diff('transpose refusal', c, m['refused'], 'ok')
            break
        if m['dest'] != [r['dest'] for r in recs] or not m['holds']:
            chk.diff('destination blocks', c)
            break
        if ub and m['source'] != [r['source'] for r in recs]:
            chk.diff('source blocks (buffer given)', c)
            break
    for i, (dst2, ub2) in enumerate(cfg.get('second') or []):
        if i < len(cfg['steps']) and not all(v['steps2'][i] for v in vals):
            chk.fail('C03:second-field', 'a second field moved through the same swapper between the steps of the first one does not hold its global '
                     'field after its step %d (-> %s, %s buffer)' % (i, dst2, 'with' if ub2 else 'no'), dict(case, second=cfg['second'], step=i))
            break
    nd = [len(n) for n in as_lists(cfg['nprocs'])]
    chk.case((str(cfg['nprocs']), tuple(cfg['ext']), str(cfg['groups']), str(cfg['steps'])),
             nontrivial=len(set(nd)) > 1 and cfg['world'] > 1,
             sample={'nprocs': cfg['nprocs'], 'ext': cfg['ext'], 'steps': cfg['steps']} if len(chk.samples) < 3 else None)
    chk.count('walks world=%d' % cfg['world'])
    chk.count('transposes', len(cfg['steps']))
    chk.traces_validated += 1


def gen(rng, it, quick):
    fam = rng.random()
    p0, p1 = rng.choice([(1, 1), (2, 1), (1, 2), (2, 2), (3, 2), (2, 3), (3, 1), (1, 3), (4, 1), (1, 4)] + ([] if quick else [(3, 3), (4, 2), (2, 4), (5, 1), (1, 5)]))
    if fam < 0.4:
        groups, nprocs, nd = DRIVER_GROUPS, [[p0, p1], [p0], [p1]], 3
    elif fam < 0.55:
        groups, nprocs, nd = TEST_GROUPS, [[p0, p1], [p1], [p0]], 3
    elif fam < 0.65:
        groups, nprocs, nd = TEST4_GROUPS, [[p0, p1], [p0]], 4
    else:
        # random groupings: 2-D group + 1-D / replicated / permuted groups with random orderings
        nd = rng.choice([3, 4])
        k = rng.randint(1, 3)
        nprocs = [[p0, p1]]
        for _ in range(k - 1):
            nprocs.append(rng.choice([[p0], [p1], [1], [p1, p0], [p0, p1], [p0, 1], [1, p1]]))
        if p0 == p1 and p0 > 1 and rng.random() < 0.5:
            # two 2-D handlers on a square process grid (+ a 1-D one that can connect them): the second must get BOTH sub-communicators
            nprocs = [[p0, p1], [p0, p1], [p0]]
        groups = []
        used = set()
        for gi, n in enumerate(nprocs):
            g = {}
            for li in range(rng.randint(1, 2)):
                o = tuple(rng.choice(lu.all_perms(nd)))
                g['L%d_%d' % (gi, li)] = list(o)
            groups.append(g)
    if rng.random() < 0.4:
        # the 2-D group need not be listed first (the constructor sorts the handlers itself)
        perm = list(range(len(groups)))
        rng.shuffle(perm)
        groups = [groups[i] for i in perm]
        nprocs = [nprocs[i] for i in perm]
    world = p0 * p1
    shape = lu.rand_shape(rng, nd, [p0, p1], hi=6)
    pm = max(p0, p1)
    if pm >= 4 and rng.random() < 0.7:
        # many processes along one direction and extents that leave SEVERAL long and SEVERAL short blocks (2 <= n mod p <= p-2)
        shape = [rng.choice([n for n in range(pm, 3 * pm) if 2 <= n % pm <= pm - 2]) for _ in range(nd)]
    if rng.random() < 0.2:
        # fewer points than processes along one to three dimensions: some ranks own empty blocks in some or all layouts
        # (findings F16a/F16b: constructor IndexError on such a rank only; rank-dependent early exit of transpose)
        shape = list(shape)
        for _ in range(rng.choice([1, 2, 2, 3])):
            shape[rng.randrange(nd)] = rng.choice([1, 1, 2])
    names = [n for g in groups for n in g]
    steps = [(rng.choice(names), rng.random() < 0.5) for _ in range(rng.randint(2, 6))]
    second = None
    if it % 2 == 1:
        second = [(rng.choice(names), (rng.random() < 0.5) if it % 4 == 3 else False) for _ in steps]
    return {'groups': groups, 'nprocs': nprocs, 'ext': shape, 'start': rng.choice(names), 'steps': steps, 'world': world, 'second': second,
            'dtype': rng.choice(['int64', 'float64', 'complex128']), 'policy': rng.choice(['inorder', 'reverse', 'random']), 'seed': it}


def twin(cfg):
    """the same layout NAMES on the mirrored process grid: in every group on two process axes the first two entries of each ordering are
    swapped and the two process counts exchanged.  Used right after `cfg` in the same process: nothing a swapper computed (gather /
    scatter axes, routes, buffer sizes) may be remembered under the layout names alone"""
    groups, nprocs = [], []
    for g, n in zip(cfg['groups'], as_lists(cfg['nprocs'])):
        if len(n) == 2:
            groups.append({k: [o[1], o[0]] + list(o[2:]) for k, o in g.items()})
            nprocs.append([n[1], n[0]])
        else:
            groups.append({k: list(o) for k, o in g.items()})
            nprocs.append(list(n))
    return dict(cfg, groups=groups, nprocs=nprocs, _progress={})


# corpus: the witness of finding F9 (repaired by a fix: commit, see KNOWN_FINDINGS.json) and two look-alikes that were always fine
CORPUS = [{'groups': [{'A': [0, 1]}, {'B': [1, 0]}], 'nprocs': [[2, 1], [2, 1]], 'ext': [2, 2], 'start': 'A', 'steps': [('B', False)], 'world': 2, 'dtype': 'int64'},
          {'groups': [{'A': [0, 1, 2]}, {'B': [1, 0, 2]}], 'nprocs': [[3, 2], [3, 2]], 'ext': [6, 6, 4], 'start': 'A', 'steps': [('B', False)], 'world': 6, 'dtype': 'int64'},
          {'groups': [{'A': [0, 1, 2]}, {'B': [1, 0, 2]}], 'nprocs': [[3, 2], [2, 3]], 'ext': [6, 6, 4], 'start': 'A', 'steps': [('B', True), ('A', False)], 'world': 6, 'dtype': 'float64'}]


# corpus for F16a / F16b (repaired): the driver grouping over-decomposed on both process axes
CORPUS += [{'groups': DRIVER_GROUPS, 'nprocs': [[2, 2], [2], [2]], 'ext': [1, 2, 1], 'start': 'v_parallel_2d', 'world': 4, 'dtype': 'int64',
            'steps': [('v_parallel_1d', False), ('poloidal', True), ('mode_solve', False), ('v_parallel_2d', True)]},
           {'groups': DRIVER_GROUPS, 'nprocs': [[2, 3], [2], [3]], 'ext': [3, 2, 2], 'start': 'v_parallel_2d', 'world': 6, 'dtype': 'float64',
            'steps': [('poloidal', False), ('poloidal', True), ('v_parallel_1d', True), ('v_parallel_2d', True)]}]


def run(chk):
    chk.rule = ('swapper groupings: the driver\'s [[P0,P1],[P0],[P1]], the two groupings of the repo\'s tests, and random groupings (2-D group + 1-D / '
                'replicated / permuted groups, random orderings, 1-2 layouts each), P0,P1 in 1..3 (thorough ..4), extents incl. extent==P; random walks of '
                '2-6 transposes, buffer or not, int/float/complex payload = global flat index. non-trivial = groups with different numbers of process axes on >1 rank')
    chk.proof_side(build=not getattr(chk, 'no_build', False), extra_props=('C03Extra', 'C03Bridge'))
    drv = common.LeanDriver('C03.lean')
    try:
        if chk.replay:
            import json
            c = json.load(open(chk.replay))['case']
            c['world'] = max(int(np.prod(x)) for x in c['nprocs'])
            c['steps'] = [tuple(s) for s in c['steps']]
            check_one(chk, drv, c)
        else:
            for c in CORPUS:                                     # corpus first
                check_one(chk, drv, dict(c))
            for it in range(chk.n(160, 2500)):
                cfg = gen(chk.rng, it, chk.quick())
                check_one(chk, drv, cfg)
                if it % 4 == 0:
                    check_one(chk, drv, twin(cfg))
    finally:
        drv.close()
    chk.assumptions = ['MPI Allgather / Alltoall semantics as implemented by the simulated MPI (byte counts from the buffers, like (buf, MPI.DOUBLE))',
                       'accepted = the constructor returns; a later exception from transpose is a failure to move the data']

    def search():
        """wider seeded sample, biased to the configurations where acceptance decisions matter: equal extents, groups with equally
        many process axes, shuffled group order, several layouts per group"""
        import random
        r = random.Random(chk.seed + 4242)
        sub = common.Check(chk.pid, chk.tier, chk.seed)
        d2 = common.LeanDriver('C03.lean')
        try:
            for it in range(400):
                cfg = gen(r, it, True)
                if it % 2 == 0:
                    p = r.choice([2, 2, 3])
                    nd = 3
                    perms = lu.all_perms(nd)
                    cfg['nprocs'] = [[p, p], r.choice([[p, p], [p, p], [p], [p, 1]])]
                    cfg['groups'] = [{'a%d' % k: list(r.choice(perms)) for k in range(r.randint(1, 3))},
                                     {'b%d' % k: list(r.choice(perms)) for k in range(r.randint(1, 4))}]
                    names = [n for g in cfg['groups'] for n in g]
                    cfg['ext'] = lu.rand_shape(r, nd, [p, p], hi=6)
                    cfg['world'] = p * p
                    cfg['start'] = r.choice(names)
                    cfg['steps'] = [(r.choice(names), r.random() < 0.5) for _ in range(r.randint(2, 6))]
                check_one(sub, d2, cfg)
                if sub.failures:
                    return sub.failures[0]
        finally:
            d2.close()
        return None
    return chk.finish(search)
