"""C02 — block decomposition is an exact balanced partition; accessors agree with it.

proof side : Props/C02.lean (blockStart_last, blockLen_bounds, blocks_tile, lengths_sum, maxBlock_*, accessor specs ...)
correspondence: real `Layout` / `Grid` objects of /repo vs. the Lean model (Drivers/Idx.lean), exact.
oracle     : tiling / balance / accessor facts checked directly on the real objects with numpy (no model).
"""
import itertools

import numpy as np

import common
import layout_util as lu
from mpi4py import MPI

LEVEL = 'proof'


def tolist(a):
    return [int(x) for x in a]


def oracle_split(chk, n, p, starts, lengths, mx):
    """the property, on the real tables"""
    case = {'n': n, 'p': p}
    ok = True
    cover = np.zeros(n, int)
    for s, l in zip(starts, lengths):
        if s < 0 or s + l > n or l < 0:
            ok = False
            break
        cover[s:s + l] += 1
    if ok and not (cover == 1).all():
        ok = False
    if ok and list(starts) != sorted(starts):
        ok = False
    if ok and max(lengths) - min(lengths) > 1:
        ok = False
    if ok and mx != max(lengths):
        ok = False
    if ok and p <= n and min(lengths) < 1:
        ok = False
    if not ok:
        chk.fail('C02:split', 'ranges of extent n over p ranks are not an exact balanced partition / max block wrong',
                 case, expected='tiling of [0,n) by p ranges, lengths within 1, max_block_shape = max length',
                 actual={'starts': tolist(starts), 'lengths': tolist(lengths), 'max': int(mx)})
    return ok


def tables(chk, drv):
    from pygyro.model.layout import Layout
    N = chk.n(40, 96)
    reqs, impl = [], []
    for n in range(1, N + 1):
        for p in range(1, n + 1):
            L = Layout('x', [p], [0], [np.arange(n)], [p - 1])
            st, ln, mx = tolist(L.mpi_starts(0)), tolist(L.mpi_lengths(0)), int(L.max_block_shape[0])
            oracle_split(chk, n, p, st, ln, mx)
            reqs.append({'op': 'split', 'n': n, 'p': p})
            impl.append({'starts': st, 'lengths': ln, 'max': mx, 'last': int(L.ends[0])})
            chk.case(('split', n, p), nontrivial=(n % p != 0), sample={'n': n, 'p': p, 'starts': st} if (n, p) == (10, 3) else None)
    # p > n (empty blocks): exercised, not part of the claim -> correspondence only
    for n in range(1, 8):
        for p in range(n + 1, n + 5):
            L = Layout('x', [p], [0], [np.arange(n)], [p - 1])
            reqs.append({'op': 'split', 'n': n, 'p': p})
            impl.append({'starts': tolist(L.mpi_starts(0)), 'lengths': tolist(L.mpi_lengths(0)),
                         'max': int(L.max_block_shape[0]), 'last': int(L.ends[0])})
            chk.count('p>n')
    # large extents / many processes (production sizes and beyond): the closed form in unbounded integers
    big = [(99999, 50000), (2 ** 20 + 7, 2 ** 16 + 1), (2 ** 31 + 1, 3), (2 ** 33 + 5, 7), (3 * 2 ** 30, 2 ** 10 + 1), (123457, 65535)]
    for n, p in big[:chk.n(4, 6)]:
        L = Layout('x', [p], [0], [range(n)], [p - 1])
        st, ln = [int(x) for x in L.mpi_starts(0)], [int(x) for x in L.mpi_lengths(0)]
        small, nbig = n // p, n % p
        exp = [small * r + nbig * r // p for r in range(p + 1)]
        got_ok = st == exp[:-1] and ln == [b - a for a, b in zip(exp[:-1], exp[1:])] and int(L.ends[0]) == n \
            and int(L.max_block_shape[0]) == small + (1 if nbig else 0)
        if not got_ok:
            bad = next((r for r in range(p) if st[r] != exp[r] or ln[r] != exp[r + 1] - exp[r]), p - 1)
            chk.fail('C02:split-large', 'extent n over p ranks: the ranges are not the balanced partition (first wrong rank %d)' % bad,
                     {'n': n, 'p': p, 'rank': bad}, expected={'start': exp[bad], 'length': exp[bad + 1] - exp[bad], 'last_end': n},
                     actual={'start': st[bad], 'length': ln[bad], 'last_end': int(L.ends[0])})
        mo = drv.call({'op': 'split', 'n': n, 'p': p})
        if mo['starts'][:3] + mo['starts'][-3:] != st[:3] + st[-3:] or mo['last'] != int(L.ends[0]):
            chk.diff('split tables (large)', {'n': n, 'p': p}, {'starts_head_tail': mo['starts'][:3] + mo['starts'][-3:], 'last': mo['last']},
                     {'starts_head_tail': st[:3] + st[-3:], 'last': int(L.ends[0])})
        chk.case(('split-large', n, p), nontrivial=True)
        chk.count('large split tables')
    for rq, im, mo in zip(reqs, impl, drv.batch(reqs)):
        if im != mo:
            chk.diff('split tables', rq, mo, im)
    chk.exhaustive = True
    chk.notes['split_box'] = 'all 1<=p<=n<=%d' % N


def layouts(chk, drv):
    """random Layout objects on every rank of the process grid: advertised data vs model; tiling oracle"""
    from pygyro.model.layout import Layout
    rng = chk.rng
    for it in range(chk.n(150, 2000)):
        nd = rng.randint(1, 4)
        nprocs = [rng.randint(1, 4) for _ in range(rng.randint(1, nd))]
        shape = lu.rand_shape(rng, nd, nprocs, hi=11)
        ord_ = list(rng.choice(lu.all_perms(nd)))
        eta = lu.eta_grids(shape)
        cover = np.zeros(shape, int)
        reqs, impl = [], []
        for coords in itertools.product(*[range(p) for p in nprocs]):
            L = Layout('x', list(nprocs), ord_, eta, list(coords))
            im = {'starts': tolist(L.starts), 'ends': tolist(L.ends), 'shape': tolist(L.shape),
                  'max_shape': tolist(L.max_block_shape), 'full_shape': tolist(L.fullShape),
                  'size': int(L.size), 'max_size': int(L.max_block_size), 'inv': tolist(L.inv_dims_order),
                  'nprocs': tolist(L.nprocs),
                  'mpi_starts': [tolist(L.mpi_starts(i)) for i in range(nd)],
                  'mpi_lengths': [tolist(L.mpi_lengths(i)) for i in range(nd)]}
            reqs.append({'op': 'layout', 'nprocs': nprocs, 'ord': ord_, 'ext': shape, 'coords': list(coords)})
            impl.append(im)
            # oracle: advertised shape/size agree with the ranges; block inside the max block
            sl = [None] * nd
            for i in range(nd):
                sl[ord_[i]] = slice(L.starts[i], L.ends[i])
            cover[tuple(sl)] += 1
            good = (tolist(L.shape) == [e - s for s, e in zip(L.starts, L.ends)]
                    and int(L.size) == int(np.prod(L.shape))
                    and all(a <= b for a, b in zip(L.shape, L.max_block_shape))
                    and int(L.max_block_size) == int(np.prod(L.max_block_shape))
                    and tolist(L.fullShape) == [shape[d] for d in ord_])
            if not good:
                chk.fail('C02:advertised', 'advertised shape/size/max block shape disagree with the owned ranges',
                         reqs[-1], actual=im)
        if not (cover == 1).all():
            chk.fail('C02:tiling', 'blocks of all ranks do not tile the global index box exactly once',
                     {'nprocs': nprocs, 'ord': ord_, 'ext': shape}, actual={'min': int(cover.min()), 'max': int(cover.max())})
        for rq, im, mo in zip(reqs, impl, drv.batch(reqs)):
            if im != mo:
                chk.diff('Layout attributes', rq, mo, im)
        uneven = any(shape[ord_[i]] % p for i, p in enumerate(nprocs) if p > 1)
        chk.case(('layout', tuple(nprocs), tuple(ord_), tuple(shape)), nontrivial=uneven and max(nprocs) > 1,
                 sample={'nprocs': nprocs, 'ord': ord_, 'ext': shape, 'last_rank': impl[-1]} if it == 0 else None)
        chk.count('layouts nd=%d' % nd)


def accessors(chk, drv):
    """Grid accessors on real Grid objects under the simulated MPI vs model and vs the eta grids"""
    from pygyro.model.layout import getLayoutHandler
    from pygyro.model.grid import Grid
    rng = chk.rng
    for it in range(chk.n(40, 400)):
        nd = rng.randint(2, 4)
        nprocs = lu.rand_nprocs(rng, nd, max_ranks=6)
        shape = lu.rand_shape(rng, nd, nprocs)
        lays = lu.rand_layout_set(rng, nd, nprocs)
        name = rng.choice(sorted(lays))
        eta = lu.eta_grids(shape)
        idx_seed = rng.randrange(1 << 30)
        hist = rng.choice([None, 'restore', 'restore', 'set', 'readers', 'readers'])
        fig_dim = rng.randrange(nd)
        fig_idx = rng.randrange(shape[fig_dim])

        def body():
            comm = MPI.COMM_WORLD
            h = getLayoutHandler(comm, lays, list(nprocs), eta)
            g = Grid(eta, [None] * nd, h, name, comm, allocateSaveMemory=True)
            coords0 = tolist(h.mpiCoords)
            if hist == 'readers':
                # a caller that keeps and extends the list it was given (as Grid.getBlockForFig does) must not change the handler
                h.mpiCoords.append(-7)
            if hist:
                # the accessors must describe the CURRENT layout after any history of layout changes / save / restore
                others = [n for n in lays if n != name]
                if hist == 'restore' and others:
                    g.saveGridValues()
                    g.setLayout(others[0])
                    g.restoreGridValues()
                elif hist == 'set' and others:
                    g.setLayout(others[0])
                    g.setLayout(name)
                elif hist == 'readers':
                    # methods that only read the grid (reductions, blocks for figures) may not change what the layout advertises
                    g._f[:] = 1.0
                    g.getBlockFromDict({fig_dim: fig_idx}, comm, 0)
                    g.getBlockFromDict({}, comm, 0)
                    g.getMin()
                    g.getMax()
                    g.getMin(0, fig_dim, fig_idx)
            L = g.getLayout(name)
            r = np.random.RandomState(idx_seed + comm.Get_rank())
            idx = [int(r.randint(0, max(1, s))) for s in L.shape]
            out = {'coords': tolist(h.mpiCoords), 'coords0': coords0, 'idx': idx, 'errors': []}
            # two answers of getGlobalIndices held at the same time (a table of local -> global indices built by the caller)
            idx2 = [int(r.randint(0, max(1, s_))) for s_ in L.shape]
            held = g.getGlobalIndices(*idx)
            held2 = g.getGlobalIndices(*idx2)
            out['global'] = tolist(held)
            out['idx2'], out['global2'] = idx2, tolist(held2)
            out['idxvals'] = [tolist(g.getGlobalIdxVals(i)) for i in range(nd)]
            out['coordvals'] = [[float(x) for x in g.getCoordVals(i)] for i in range(nd)]
            out['getcoords'] = [[(int(a), float(b)) for a, b in g.getCoords(i)] for i in range(nd)]
            try:
                out['geteta'] = [[(int(a), float(b)) for a, b in g.getEta(d)] for d in range(nd)]
            except Exception as e:  # noqa: BLE001
                out['geteta'] = None
                out['errors'].append('getEta: %s: %s' % (type(e).__name__, e))
            out['starts'] = tolist(L.starts)
            out['ends'] = tolist(L.ends)
            out['shape'] = tolist(L.shape)
            # the partition as a freshly built handler advertises it (reference for the accessors after a history)
            L2 = getLayoutHandler(comm, lays, list(nprocs), eta).getLayout(name)
            out['fresh'] = {'starts': tolist(L2.starts), 'ends': tolist(L2.ends), 'shape': tolist(L2.shape)}
            out['buffer'] = int(h.bufferSize)
            out['sizes'] = {n: int(h.getLayout(n).size) for n in lays}
            return out
        res = lu.run_ranks(int(np.prod(nprocs)), body, policy='random', seed=it)
        case = {'nprocs': nprocs, 'ext': shape, 'layouts': lays, 'layout': name, 'history_before': hist}
        if not res.ok:
            chk.fail('C02:accessor-crash', 'constructing handler/grid or calling an accessor raised: ' + str(res.first_error())[:200], case)
            continue
        ord_ = lays[name]
        reqs = []
        for o in res.values():
            reqs.append({'op': 'accessors', 'nprocs': nprocs, 'ord': ord_, 'ext': shape, 'coords': o['coords'], 'idx': o['idx']})
        for o, mo in zip(res.values(), drv.batch(reqs)):
            c = dict(case, coords=o['coords'], idx=o['idx'])
            # --- oracle (no model): accessors agree with the partition
            now = {'starts': o['starts'], 'ends': o['ends'], 'shape': o['shape']}
            if o['coords'] != o['coords0'] or len(o['coords']) != len(nprocs):
                chk.fail('C02:mpiCoords-changed', 'the process coordinates advertised by the handler changed after calls that only read the grid '
                         '(or do not have one entry per process direction)', c, o['coords0'], o['coords'])
                continue
            if now != o['fresh']:
                chk.fail('C02:layout-changed', 'after the history the layout object advertises another block than a freshly built one', c, o['fresh'], now)
                continue
            exp_idx = [list(range(a, b)) for a, b in zip(o['fresh']['starts'], o['fresh']['ends'])]
            if o['idxvals'] != exp_idx:
                chk.fail('C02:getGlobalIdxVals', 'getGlobalIdxVals disagrees with the advertised block', c, exp_idx, o['idxvals'])
                continue
            out_of_range = [(i, gidx) for i in range(nd) for gidx in o['idxvals'][i] if not 0 <= gidx < shape[ord_[i]]]
            if out_of_range:
                chk.fail('C02:getGlobalIdxVals-range', 'getGlobalIdxVals returns an index outside the dimension (position, index) = %s' % (out_of_range[0],),
                         c, 'indices in [0, %d)' % shape[ord_[out_of_range[0][0]]], out_of_range[0][1])
                continue
            exp_vals = [[float(eta[ord_[i]][gidx]) for gidx in o['idxvals'][i]] for i in range(nd)]
            exp_glob = [None] * nd
            for i in range(nd):
                exp_glob[ord_[i]] = o['idx'][i] + o['starts'][i]
            exp_glob2 = [None] * nd
            for i in range(nd):
                exp_glob2[ord_[i]] = o['idx2'][i] + o['starts'][i]
            if o['global'] != exp_glob or o['global2'] != exp_glob2:
                chk.fail('C02:getGlobalIndices', 'getGlobalIndices disagrees with the partition (two answers held at the same time)', dict(c, idx2=o['idx2']),
                         [exp_glob, exp_glob2], [o['global'], o['global2']])
            if o['coordvals'] != exp_vals:
                chk.fail('C02:getCoordVals', 'getCoordVals disagrees with the partition', c)
            if o['getcoords'] != [list(enumerate(v)) for v in exp_vals] and \
               [[list(t) for t in v] for v in o['getcoords']] != [[list(t) for t in enumerate(v)] for v in exp_vals]:
                chk.fail('C02:getCoords', 'getCoords disagrees with the partition', c)
            if o['geteta'] is None:
                chk.fail('C02:getEta', 'Grid.getEta raises: ' + o['errors'][0], c)
            else:
                exp_eta = [[(k, float(eta[d][gi])) for k, gi in enumerate(o['idxvals'][ord_.index(d)])] for d in range(nd)]
                if [[tuple(t) for t in v] for v in o['geteta']] != exp_eta:
                    chk.fail('C02:getEta-values', 'getEta(d) does not enumerate the locally owned coordinates of dimension d', c)
            if any(sz > o['buffer'] for sz in o['sizes'].values()):
                chk.fail('C02:bufferSize', 'advertised bufferSize smaller than a layout block', c, actual=o['sizes'])
            # --- correspondence with the model
            if mo.get('global') != o['global'] or mo.get('idxvals') != o['idxvals']:
                chk.diff('accessors', c, mo, {'global': o['global'], 'idxvals': o['idxvals']})
            if o['geteta'] is not None and mo.get('eta') != [[gi for gi in o['idxvals'][ord_.index(d)]] for d in range(nd)]:
                chk.diff('getEta index set', c, mo.get('eta'))
        uneven = any(shape[ord_[i]] % p for i, p in enumerate(nprocs) if p > 1)
        chk.case(('acc', tuple(nprocs), tuple(shape), tuple(ord_)), nontrivial=uneven,
                 sample=dict(case, rank0=res.values()[0]['global']) if it == 0 else None)
        chk.count('accessor grids ranks=%d' % int(np.prod(nprocs)))
        chk.traces_validated += 1


def accessors_swapper(chk):
    """Grid accessors on grids that share a LayoutSwapper (the driver's phi / rho set-up): a grid created in a layout that is not on
    the swapper's start handler, the same grid after ANOTHER grid has moved the swapper's current manager elsewhere, and after its OWN
    layout changes (setLayout between layouts of the same order on different handlers, save / move / restore).  Oracle: the block the
    grid's own current layout advertises, the global field for the data, and the process grid of the group the layout belongs to."""
    from pygyro.model.layout import LayoutSwapper
    from pygyro.model.grid import Grid
    from props import c03
    rng = chk.rng
    names = ['v_parallel_2d', 'mode_solve', 'v_parallel_1d', 'poloidal']
    group_of = {n: gi for gi, g in enumerate(c03.DRIVER_GROUPS) for n in g}
    for it in range(chk.n(14, 120)):
        p0, p1 = rng.choice([(2, 3), (3, 2), (2, 2), (1, 3), (3, 1), (2, 1)])
        ext = [rng.randint(max(p0, p1), 7) for _ in range(3)]
        eta = lu.eta_grids(ext)
        start = rng.choice(names)
        mine = rng.choice(names)
        # steps: ('other', layout) moves the other grid; ('own', layout) moves g; ('save',) / ('restore',) on g
        steps = []
        saved = False
        for _ in range(rng.randint(1, 5)):
            r = rng.random()
            if r < 0.4:
                steps.append(('other', rng.choice(names)))
            elif r < 0.8:
                steps.append(('own', rng.choice(names)))
            elif not saved:
                steps.append(('save',))
                saved = True
            else:
                steps.append(('restore',))
                saved = False
        if it % 3 == 0:
            # a save taken in a layout that is not the one the grid was built in, a move away, and the restore
            others = [n for n in names if n != mine]
            steps = [('own', others[it % len(others)]), ('save',), ('own', rng.choice(names)), ('restore',)] + [s_ for s_ in steps if s_[0] in ('other', 'own')]
        G = lu.global_array(ext, 'complex128')
        nprocs_of = [[p0, p1], [p0], [p1]]

        def body():
            comm = MPI.COMM_WORLD
            sw = LayoutSwapper(comm, c03.DRIVER_GROUPS, [[p0, p1], p0, p1], eta, start)
            g = Grid(eta, [None] * 3, sw, mine, comm, dtype=np.complex128, allocateSaveMemory=True)
            other = Grid(eta, [None] * 3, sw, start, comm, dtype=np.complex128)
            g._f[:] = lu.expected_block(G, g.getLayout(mine))
            snaps = []
            for step in [None] + steps:
                own = False
                if step is not None:
                    if step[0] == 'other':
                        other.setLayout(step[1])           # moves the swapper's current manager; `g` is not touched
                    elif step[0] == 'own':
                        own = g.currentLayout != step[1]
                        g.setLayout(step[1])
                    elif step[0] == 'save':
                        g.saveGridValues()
                    else:
                        g.restoreGridValues()
                L = g.getLayout(g.currentLayout)
                snap = {'layout': g.currentLayout, 'starts': tolist(L.starts), 'ends': tolist(L.ends), 'order': tolist(L.dims_order),
                        'idxvals': [tolist(g.getGlobalIdxVals(i)) for i in range(3)],
                        'coordvals': [[float(x) for x in g.getCoordVals(i)] for i in range(3)],
                        'coords': [[(int(a), float(b)) for a, b in g.getCoords(i)] for i in range(3)],
                        'eta': [[(int(a), float(b)) for a, b in g.getEta(i)] for i in range(3)],
                        'global0': tolist(g.getGlobalIndices(0, 0, 0)) if min(L.shape) > 0 else None,
                        'shape_ok': tuple(g._f.shape) == tuple(L.shape),
                        'data_ok': tuple(g._f.shape) == tuple(L.shape) and bool(np.array_equal(g._f, lu.expected_block(G, L)))}
                if own:
                    # right after this grid's own move the swapper describes the process grid of the destination's group
                    co = [int(c) for c in sw.mpiCoords]
                    ms = [[int(x) for x in L.mpi_starts(k)] for k in range(len(co))] if len(co) <= 3 else None
                    snap['procgrid'] = {'nProcs': [int(x) for x in np.atleast_1d(sw.nProcs)], 'ndist': int(sw.nDistributedDirections),
                                        'coords': co, 'mpi_starts': ms}
                snaps.append(snap)
            return snaps
        res = lu.run_ranks(p0 * p1, body, policy='random', seed=it)
        case = {'nprocs': [p0, p1], 'ext': ext, 'start': start, 'grid_layout': mine, 'steps': [list(s) for s in steps]}
        if not res.ok:
            chk.fail('C02:accessor-crash', 'accessors of a grid on a shared LayoutSwapper raised: ' + str(res.first_error())[:200], case)
            continue
        for rk, snaps in enumerate(res.values()):
            bad = False
            for k, o in enumerate(snaps):
                exp_idx = [list(range(a, b)) for a, b in zip(o['starts'], o['ends'])]
                exp_val = [[float(eta[o['order'][i]][gi]) for gi in exp_idx[i]] for i in range(3)]
                exp_coords = [list(enumerate(v)) for v in exp_val]
                inv = [o['order'].index(i) for i in range(3)]
                exp_eta = [list(enumerate(exp_val[inv[i]])) for i in range(3)]
                exp_g0 = None
                if o['global0'] is not None:
                    exp_g0 = [None] * 3
                    for i in range(3):
                        exp_g0[o['order'][i]] = o['starts'][i]
                if (o['idxvals'] != exp_idx or o['coordvals'] != exp_val or o['global0'] != exp_g0
                        or [[tuple(x) for x in c] for c in o['coords']] != exp_coords
                        or [[tuple(x) for x in c] for c in o['eta']] != exp_eta):
                    chk.fail('C02:accessors-shared-swapper', 'accessors of a grid on a shared LayoutSwapper disagree with the block its current '
                             'layout advertises (after %d steps)' % k, dict(case, rank=rk, after_steps=k),
                             {'idxvals': exp_idx, 'global0': exp_g0}, {'idxvals': o['idxvals'], 'global0': o['global0']})
                    bad = True
                elif not o['data_ok']:
                    chk.fail('C02:grid-data-shared-swapper', 'the data block of a grid on a shared LayoutSwapper is not the block of the global '
                             'field that its current layout advertises (after %d steps; shape matches: %s)' % (k, o['shape_ok']),
                             dict(case, rank=rk, after_steps=k, layout=o['layout']))
                    bad = True
                elif 'procgrid' in o:
                    pg = o['procgrid']
                    exp_np = nprocs_of[group_of[o['layout']]]
                    # the process coordinates must select this rank's own block in each distributed dimension
                    own_block = pg['mpi_starts'] is not None and len(pg['coords']) == len(exp_np) and all(
                        0 <= pg['coords'][d] < len(pg['mpi_starts'][d]) and pg['mpi_starts'][d][pg['coords'][d]] == o['starts'][d]
                        for d in range(len(exp_np)))
                    if pg['nProcs'] != exp_np or pg['ndist'] != len(exp_np) - exp_np.count(1) or not own_block:
                        chk.fail('C02:swapper-procgrid', 'after a grid moved to layout %r the swapper does not describe the process grid of that '
                                 'layout (nProcs / nDistributedDirections / mpiCoords)' % o['layout'], dict(case, rank=rk, after_steps=k),
                                 {'nProcs': exp_np, 'ndist': len(exp_np) - exp_np.count(1)}, pg)
                        bad = True
                if bad:
                    break
            if bad:
                break
        chk.case(('accsw', p0, p1, tuple(ext), start, mine, tuple(steps)), nontrivial=p0 * p1 > 1)
        chk.count('accessor checks on grids sharing a swapper')


def exact_buffers(chk):
    """arrays of exactly bufferSize suffice for every transpose: EVERY ordered pair of layouts of a handler (the declaration order of
    the layouts shuffled: the size needed by a pair may not depend on which pairs were looked at before), and the layout changes of a
    LayoutSwapper between its groups (groups declared in any order, uneven splits)"""
    from pygyro.model.layout import getLayoutHandler, LayoutSwapper
    from props import c03
    rng = chk.rng
    drv01 = common.LeanDriver('C01.lean')        # the handler model (Model/Handler.lean): its bufferSize is the size the theorems of C01/C02Extra are about
    for it in range(chk.n(40, 400)):
        nd = rng.randint(2, 4)
        nprocs = lu.rand_nprocs(rng, nd, max_ranks=6)
        shape = lu.rand_shape(rng, nd, nprocs, hi=7)
        lays = lu.rand_layout_set(rng, nd, nprocs, k=(rng.randint(3, 5) if (it % 2 and nd >= 3) else None))
        if it % 4 == 3:
            # one distributed direction: every layout is directly connected with every layout that distributes another dimension, so a
            # layout declared late has SEVERAL partners among the earlier ones; extents that do not divide
            nd = 3
            pp = rng.choice([2, 3, 4])
            nprocs = [pp]
            shape = [rng.choice([pp + 1, pp + 2, 2 * pp + 1, 7]) for _ in range(nd)]
            firsts = list(range(nd))
            rng.shuffle(firsts)
            lays = {}
            for k, f0_ in enumerate(firsts):
                rest = [d for d in range(nd) if d != f0_]
                rng.shuffle(rest)
                lays['L%d' % k] = [f0_] + rest
        items = list(lays.items())
        rng.shuffle(items)
        lays = dict(items)
        names = list(lays)
        pairs = [(a, b, rng.random() < 0.5) for a in names for b in names if a != b]
        rng.shuffle(pairs)
        pairs = pairs[:12]
        eta = lu.eta_grids(shape)
        G = lu.global_array(shape, 'float64')

        def body():
            comm = MPI.COMM_WORLD
            h = getLayoutHandler(comm, lays, list(nprocs), eta)
            B = int(h.bufferSize)
            # own-data arrays of exactly B elements (the code asserts `view.base is buffer`, so the buffers
            # cannot themselves be views into a larger sentinel array; numpy's own bounds checks make any
            # access beyond B raise instead of corrupting memory)
            out = []
            for src, dst, usebuf in pairs:
                a, b, c = [np.full(B, -7.0 - k) for k in range(3)]
                ls, ld = h.getLayout(src), h.getLayout(dst)
                lu.put_block(a, G, ls)
                h.transpose(a, b, src, dst, c if usebuf else None)
                ok_data = bool(np.array_equal(lu.block_of(b, ld), lu.expected_block(G, ld)))
                ok_sent = (not usebuf) or bool(np.array_equal(lu.block_of(a, ls), lu.expected_block(G, ls)))
                out.append((src, dst, usebuf, ok_data, ok_sent))
            fits = all(h.getLayout(n).size <= B for n in names)
            return out, fits, B
        res = lu.run_ranks(int(np.prod(nprocs)), body)
        case = {'nprocs': nprocs, 'ext': shape, 'layouts': lays}
        if not res.ok:
            sig = 'C02:exact-buffer-raise'
            chk.fail(sig, 'transpose with buffers of exactly bufferSize raised: ' + str(res.first_error())[:160], dict(case, pairs=pairs))
        else:
            for out, fits, B in res.values():
                badp = [o for o in out if not (o[3] and o[4])]
                if badp or not fits:
                    chk.fail('C02:exact-buffer', 'buffers of exactly the advertised size (%d) do not suffice (%s)' % (
                        B, 'some layout does not fit' if not fits else 'transpose %s -> %s%s: data %s, source intact %s' % (
                            badp[0][0], badp[0][1], ' with buffer' if badp[0][2] else '', badp[0][3], badp[0][4])),
                        dict(case, src=badp[0][0] if badp else None, dst=badp[0][1] if badp else None, buf=badp[0][2] if badp else None))
                    break
        if res.ok:
            mh = drv01.call({'op': 'handler', 'nprocs': list(nprocs), 'ext': list(shape), 'names': names, 'orders': [lays[n] for n in names],
                             'tie': list(range(len(names)))})
            if mh.get('connected', True) and 'buffer' in mh and [v[2] for v in res.values()] != mh['buffer']:
                chk.diff('advertised bufferSize (per rank)', case, mh['buffer'], [v[2] for v in res.values()])
        chk.case(('buf', tuple(nprocs), tuple(shape), tuple(names)), nontrivial=len(names) > 1 and max(nprocs) > 1)
        chk.count('exact-buffer transposes', len(pairs))
    drv01.close()
    # --- swapper: groups in any declaration order
    for it in range(chk.n(60, 400)):
        p0, p1 = rng.choice([(2, 3), (3, 2), (2, 2), (3, 1), (1, 3), (2, 1), (4, 1)])
        fam = it % 5 if it % 5 < 2 else 2
        if fam == 0:
            groups, nprocs = [dict(g) for g in c03.DRIVER_GROUPS], [[p0, p1], [p0], [p1]]
        elif fam == 1:
            groups, nprocs = [dict(g) for g in c03.TEST_GROUPS], [[p0, p1], [p1], [p0]]
        else:
            nd_ = 3
            groups = [{'A': list(rng.choice(lu.all_perms(nd_)))}, {'B': list(rng.choice(lu.all_perms(nd_)))}]
            nprocs = [[p0, p1], [rng.choice([p0, p1])]]
        order = list(range(len(groups)))
        rng.shuffle(order)
        groups, nprocs = [groups[k] for k in order], [nprocs[k] for k in order]
        nd_ = len(next(iter(groups[0].values())))
        shape = [rng.choice([max(p0, p1), max(p0, p1) + 1, max(p0, p1) + 2, 5, 7]) for _ in range(nd_)]
        names = [n for g in groups for n in g]
        eta = lu.eta_grids(shape)
        G = lu.global_array(shape, 'float64')
        walk = [rng.choice(names) for _ in range(6)]
        ubs = [rng.random() < 0.5 for _ in walk]
        start = rng.choice(names)

        def body():
            comm = MPI.COMM_WORLD
            try:
                sw = LayoutSwapper(comm, groups, [n if len(n) > 1 else n[0] for n in nprocs], eta, start)
            except (RuntimeError, AssertionError, IndexError, ValueError) as e:
                return ('refused', type(e).__name__)
            B = int(sw.bufferSize)
            bufs = [np.full(B, -1.0), np.full(B, -2.0), np.full(B, -3.0)]
            cur = start
            lu.put_block(bufs[0], G, sw.getLayout(cur))
            d, o = 0, 1
            for dst, ub in zip(walk, ubs):
                sw.transpose(bufs[d], bufs[o], cur, dst, bufs[2] if ub else None)
                ld = sw.getLayout(dst)
                if not np.array_equal(lu.block_of(bufs[o], ld), lu.expected_block(G, ld)):
                    return ('bad', cur, dst, ub, B)
                d, o, cur = o, d, dst
            return ('ok', B)
        res = lu.run_ranks(p0 * p1, body)
        case = {'groups': groups, 'nprocs': nprocs, 'ext': shape, 'start': start, 'walk': list(zip(walk, ubs))}
        if not res.ok:
            chk.fail('C02:exact-buffer-raise', 'LayoutSwapper.transpose with buffers of exactly bufferSize raised: ' + str(res.first_error())[:160], case)
        else:
            vals = res.values()
            if any(v[0] == 'bad' for v in vals):
                v = [v for v in vals if v[0] == 'bad'][0]
                chk.fail('C02:exact-buffer', 'LayoutSwapper: buffers of exactly the advertised size (%d) do not suffice for %s -> %s%s' % (
                    v[4], v[1], v[2], ' with buffer' if v[3] else ''), case)
            elif len({v[0] for v in vals}) > 1:
                chk.fail('C02:exact-buffer-raise', 'the swapper constructor is refused on some ranks only: %s' % sorted({str(v) for v in vals})[:3], case)
        chk.case(('swbuf', it, p0, p1, tuple(shape)), nontrivial=p0 * p1 > 1)
        chk.count('exact-buffer swapper walks')
    # --- swapper, systematically: a 1-D group declared BEFORE the 2-D group, every pair of orderings, the 1-D group on either process
    #     axis, extents that do not divide; direct gather and scatter with buffers of exactly the advertised size
    combos = [(og, os_, ax) for og in lu.all_perms(3) for os_ in lu.all_perms(3) for ax in (0, 1)]
    rng.shuffle(combos)
    for og, os_, ax in combos[:chk.n(20, 72)]:
        q_, r_ = rng.choice([(3, 2), (2, 3)])
        groups = [{'G': list(og)}, {'S': list(os_)}]
        nprocs = [[(q_, r_)[ax]], [q_, r_]]
        shape = [rng.choice([4, 5, 7]) for _ in range(3)]
        eta = lu.eta_grids(shape)
        G = lu.global_array(shape, 'float64')
        ubs = [rng.random() < 0.5 for _ in range(3)]

        def body():
            comm = MPI.COMM_WORLD
            try:
                sw = LayoutSwapper(comm, groups, [nprocs[0][0], nprocs[1]], eta, 'G')
            except (RuntimeError, AssertionError, IndexError, ValueError) as e:
                return ('refused', type(e).__name__)
            B = int(sw.bufferSize)
            bufs = [np.full(B, -1.0), np.full(B, -2.0), np.full(B, -3.0)]
            cur = 'G'
            lu.put_block(bufs[0], G, sw.getLayout(cur))
            d, o = 0, 1
            for dst, ub in zip(['S', 'G', 'S'], ubs):
                sw.transpose(bufs[d], bufs[o], cur, dst, bufs[2] if ub else None)
                ld = sw.getLayout(dst)
                if not np.array_equal(lu.block_of(bufs[o], ld), lu.expected_block(G, ld)):
                    return ('bad', cur, dst, ub, B)
                d, o, cur = o, d, dst
            return ('ok', B)
        res = lu.run_ranks(q_ * r_, body)
        case = {'groups': groups, 'nprocs': nprocs, 'ext': shape, 'start': 'G', 'walk': list(zip(['S', 'G', 'S'], ubs))}
        if not res.ok:
            chk.fail('C02:exact-buffer-raise', 'LayoutSwapper (1-D group declared first) with buffers of exactly bufferSize raised: ' + str(res.first_error())[:160], case)
        else:
            vals = res.values()
            if any(v[0] == 'bad' for v in vals):
                v = [v for v in vals if v[0] == 'bad'][0]
                chk.fail('C02:exact-buffer', 'LayoutSwapper (1-D group declared first): buffers of exactly the advertised size (%d) do not suffice for %s -> %s%s' % (
                    v[4], v[1], v[2], ' with buffer' if v[3] else ''), case)
            elif len({v[0] for v in vals}) > 1:
                chk.fail('C02:exact-buffer-raise', 'the swapper constructor is refused on some ranks only: %s' % sorted({str(v) for v in vals})[:3], case)
        chk.case(('swbuf1d', tuple(og), tuple(os_), ax, tuple(shape)), nontrivial=True)
        chk.count('exact-buffer swapper, 1-D group first')


def run(chk):
    chk.rule = ('split tables: every (n,p) in the box, non-trivial = p does not divide n; layouts/accessors: random '
                '(rank<=4, process grid, permutation, extents incl. extent==P and extent==P+1) on every rank, '
                'non-trivial = some distributed axis split unevenly; distinct by (grid, order, extents)')
    # Props/C02Gen.lean is about the block arithmetic REGENERATED from Layout.__init__: run the translator first
    common.run_translator(chk, 'translate_pure.py', '--only', 'blocks')
    chk.proof_side(build=not getattr(chk, 'no_build', False), extra_props=('C02Extra', 'C02Gen'))
    drv = common.LeanDriver('Idx.lean')
    try:
        tables(chk, drv)
        layouts(chk, drv)
        accessors(chk, drv)
        accessors_swapper(chk)
        exact_buffers(chk)
    finally:
        drv.close()
    chk.assumptions = ['numpy integer floor division and % on non-negative ints behave like Nat division (mirrored by the model)',
                       'accessor clause for getEta is decided on the code as repaired by the fix: commit (see KNOWN_FINDINGS.json)']
    return chk.finish()
