"""C04 — Grid layout changes and save/restore behave like a single global array.

proof side    : Props/C04.lean (`grid_refines_spec`: any history, refusal pattern and visible data = single global array)
correspondence: real `Grid` objects (over LayoutHandler and over LayoutSwapper) on simulated ranks vs Model/GridSM.lean:
                after every operation: accepted/refused, currentLayout, the index triple (_dataIdx,_buffIdx,_saveIdx),
                notSaved, and the field visible through the data block (field id decoded from the payload) -- exact.
oracle        : a Python spec (one numpy array + Option(saved array, layout)); the global field assembled from all ranks
                must equal it after every accepted operation; refusals must be exactly the spec's.
"""
import itertools

import numpy as np

import common
import layout_util as lu
from mpi4py import MPI

LEVEL = 'proof'
LAY4 = {'flux_surface': [0, 3, 1, 2], 'v_parallel': [0, 2, 1, 3], 'poloidal': [3, 2, 1, 0]}
SALT = 100003


def field_array(shape, fid, dtype):
    return lu.global_array(shape, dtype, salt=fid * SALT)


def run_history(cfg):
    """returns per rank: list of per-op records"""
    from pygyro.model.layout import getLayoutHandler, LayoutSwapper
    from pygyro.model.grid import Grid
    shape, nprocs, lays, ops, hasSave, dtype, start = (cfg[k] for k in ('ext', 'nprocs', 'layouts', 'ops', 'hasSave', 'dtype', 'start'))
    eta = lu.eta_grids(shape)
    nd = len(shape)

    def body():
        comm = MPI.COMM_WORLD
        if cfg['manager'] == 'handler':
            h = getLayoutHandler(comm, lays, list(nprocs), eta)
        else:
            h = LayoutSwapper(comm, cfg['groups'], cfg['group_nprocs'], eta, start)
        g = Grid(eta, [None] * nd, h, start, comm, dtype=np.dtype(dtype).type, allocateSaveMemory=hasSave)

        def put(fid, via='all'):
            blk = lu.expected_block(field_array(shape, fid, dtype), g.getLayout(g.currentLayout))
            if via == '2d':
                # the way the advection operators and the initialisers write: in place through the 2-D slice views
                for idx in np.ndindex(*blk.shape[:-2]):
                    g.get2DSlice(*idx)[:] = blk[idx]
            elif via == '1d':
                for idx in np.ndindex(*blk.shape[:-1]):
                    g.get1DSlice(*idx)[:] = blk[idx]
            else:
                g.getAllData()[:] = blk

        def visible_ok(fid):
            return bool(np.array_equal(g.getAllData(), lu.expected_block(field_array(shape, fid, dtype), g.getLayout(g.currentLayout))))

        def decode():
            a = g.getAllData()
            if a.size == 0:
                return None
            L = g.getLayout(g.currentLayout)
            gidx = [0] * nd
            for i, d in enumerate(L.dims_order):
                gidx[d] = int(L.starts[i])
            flat = int(np.ravel_multi_index(gidx, shape))
            v = a.flat[0]
            base = int(np.real(v)) if dtype != 'int64' else int(v)
            return (base - flat) // SALT if (base - flat) % SALT == 0 else -1
        put(cfg['field0'])
        recs = []
        spec = {'f': cfg['field0'], 'lay': start, 'saved': None}
        for op in ops:
            k = op['k']
            rec = {'ok': True}
            try:
                if k == 'set':
                    g.setLayout(op['l'])
                elif k == 'write':
                    put(op['v'], op.get('via', 'all'))
                elif k == 'save':
                    g.saveGridValues()
                elif k == 'restore':
                    g.restoreGridValues()
                elif k == 'free':
                    g.freeGridSave()
            except (AssertionError, AttributeError) as e:
                rec['ok'] = False
                rec['err'] = type(e).__name__
            # python spec (the oracle)
            exp_ok = True
            if k == 'set':
                spec['lay'] = op['l']
            elif k == 'write':
                spec['f'] = op['v']
            elif k == 'save':
                exp_ok = hasSave and spec['saved'] is None
                if exp_ok:
                    spec['saved'] = (spec['f'], spec['lay'])
            elif k == 'restore':
                exp_ok = hasSave and spec['saved'] is not None
                if exp_ok:
                    spec['f'], spec['lay'] = spec['saved']
                    spec['saved'] = None
            elif k == 'free':
                exp_ok = hasSave and spec['saved'] is not None
                if exp_ok:
                    spec['saved'] = None
            rec['spec_ok'] = exp_ok
            rec['spec_layout'] = spec['lay']
            rec['layout'] = g.currentLayout
            rec['idx'] = [int(g._dataIdx), int(g._buffIdx), int(g._saveIdx)]
            rec['notSaved'] = bool(getattr(g, 'notSaved', True))
            rec['visible_ok'] = visible_ok(spec['f']) if g.currentLayout == spec['lay'] else False
            rec['field'] = decode()
            recs.append(rec)
        return recs
    n = int(np.prod(cfg['world']))
    return lu.run_ranks(n, body, policy=cfg.get('policy', 'inorder'), seed=cfg.get('seed', 0))


def gen(rng, it, quick):
    r = rng.random()
    if r < 0.15:
        # many layouts of a 4-D grid: several pairs are joined by more than one shortest route (ties in the route table)
        nprocs = rng.choice([[2, 2], [2, 1], [1, 2], [2, 3]])
        shape = lu.rand_shape(rng, 4, nprocs, hi=5)
        lays = lu.rand_layout_set(rng, 4, nprocs, k=rng.randint(5, 7))
        if rng.random() < 0.5:
            # names in another order than the order of creation
            keys = list(lays)
            vals = [lays[k] for k in keys]
            rng.shuffle(vals)
            lays = dict(zip(keys, vals))
        cfg = {'manager': 'handler', 'layouts': lays, 'nprocs': nprocs, 'ext': shape, 'world': nprocs}
        names = list(lays)
    elif r < 0.6:
        nprocs = rng.choice([[1, 1], [2, 1], [1, 2], [2, 2], [3, 1], [1, 3], [2, 3]])
        shape = lu.rand_shape(rng, 4, nprocs, hi=5)
        cfg = {'manager': 'handler', 'layouts': LAY4, 'nprocs': nprocs, 'ext': shape, 'world': nprocs}
        names = list(LAY4)
    elif r < 0.8:
        nd = rng.choice([2, 3])
        nprocs = lu.rand_nprocs(rng, nd, max_ranks=6)
        shape = lu.rand_shape(rng, nd, nprocs, hi=5)
        lays = lu.rand_layout_set(rng, nd, nprocs)
        cfg = {'manager': 'handler', 'layouts': lays, 'nprocs': nprocs, 'ext': shape, 'world': nprocs}
        names = list(lays)
    else:
        # the swapper the driver builds for phi
        p0, p1 = rng.choice([(1, 1), (2, 1), (1, 2), (2, 2), (3, 2), (2, 3)])
        groups = [{'v_parallel_2d': [0, 2, 1], 'mode_solve': [1, 2, 0]}, {'v_parallel_1d': [0, 2, 1]}, {'poloidal': [2, 1, 0]}]
        shape = lu.rand_shape(rng, 3, [p0, p1], hi=5)
        cfg = {'manager': 'swapper', 'groups': groups, 'group_nprocs': [[p0, p1], p0, p1], 'layouts': None,
               'nprocs': [p0, p1], 'ext': shape, 'world': [p0, p1]}
        names = [n for gdict in groups for n in gdict]
    ops = []
    for _ in range(rng.randint(3, 12 if quick else 20)):
        k = rng.choice(['set', 'set', 'set', 'write', 'save', 'restore', 'free'])
        ops.append({'k': 'set', 'l': rng.choice(names)} if k == 'set' else
                   {'k': 'write', 'v': rng.randint(1, 9), 'via': rng.choice(['all', '2d', '1d'])} if k == 'write' else {'k': k})
    cfg.update({'ops': ops, 'hasSave': rng.random() < 0.8, 'dtype': rng.choice(['float64', 'complex128']), 'start': rng.choice(names),
                'field0': rng.randint(1, 9), 'names': names, 'policy': rng.choice(['inorder', 'reverse', 'random']), 'seed': it})
    return cfg


def all_histories(length):
    names = list(LAY4)
    kinds = [{'k': 'set', 'l': n} for n in names] + [{'k': 'write', 'v': 5}, {'k': 'save'}, {'k': 'restore'}, {'k': 'free'}]
    return itertools.product(kinds, repeat=length)


def check_one(chk, drv, cfg):
    names = cfg['names']
    res = run_history(cfg)
    case = {k: cfg[k] for k in ('manager', 'nprocs', 'ext', 'ops', 'hasSave', 'dtype', 'start', 'field0')}
    if cfg['manager'] == 'swapper':
        case['group_nprocs'] = cfg['group_nprocs']
    else:
        case['layouts'] = cfg['layouts']
    if not res.ok:
        chk.fail('C04:raise', 'a grid operation raised something other than a refusal: ' + str(res.first_error())[:200], case)
        return
    mops = [dict(o, l=names.index(o['l'])) if o['k'] == 'set' else o for o in cfg['ops']]
    mt = drv.call({'op': 'grid_run', 'hasSave': cfg['hasSave'], 'layout': names.index(cfg['start']), 'field': cfg['field0'], 'ops': mops})['trace']
    for rank, recs in enumerate(res.values()):
        for i, (rec, m) in enumerate(zip(recs, mt)):
            c = dict(case, rank=rank, op_index=i)
            # ---- oracle (python spec)
            if rec['ok'] != rec['spec_ok']:
                chk.fail('C04:refusal', 'operation %s %s but the single-array semantics %s it' % (
                    cfg['ops'][i], 'accepted' if rec['ok'] else 'refused', 'accepts' if rec['spec_ok'] else 'refuses'), c)
                return
            if rec['layout'] != rec['spec_layout']:
                chk.fail('C04:layout', 'currentLayout %s differs from the single-array layout %s' % (rec['layout'], rec['spec_layout']), c)
                return
            if not rec['visible_ok']:
                chk.fail('C04:data', 'data visible through the grid differs from the single global array after op %d' % i, c)
                return
            # ---- model
            im = {'ok': rec['ok'], 'idx': rec['idx'], 'current': names.index(rec['layout']), 'notSaved': rec['notSaved']}
            mm = {'ok': m['ok'], 'idx': m['idx'], 'current': m['current'], 'notSaved': m['notSaved']}
            if not cfg['hasSave']:
                im.pop('notSaved'); mm.pop('notSaved')
            if im != mm:
                chk.diff('grid state after op', c, mm, im)
                return
            if rec['field'] is not None and (m['data'] is None or m['data']['field'] != rec['field']):
                chk.diff('visible field id', c, m['data'], rec['field'])
                return
    kinds = {o['k'] for o in cfg['ops']}
    chk.case((cfg['manager'], tuple(cfg['world']), tuple(cfg['ext']), cfg['hasSave'], str(cfg['ops'])),
             nontrivial=('save' in kinds and 'set' in kinds),
             sample={'world': cfg['world'], 'ext': cfg['ext'], 'hasSave': cfg['hasSave'], 'ops': cfg['ops']} if len(chk.samples) < 3 else None)
    chk.count('histories via ' + cfg['manager'])
    chk.count('ops', len(cfg['ops']))
    chk.traces_validated += 1


def run(chk):
    chk.rule = ('operation histories (set-layout among the manager\'s layouts / write / save / restore / free), length 3-12 (thorough 20), on real '
                'Grid objects over LayoutHandler (standard 4-D layouts and random sets) and over the driver\'s LayoutSwapper, 1-6 ranks, with/without '
                'save memory, float/complex; thorough adds ALL histories of length <= 4 over 7 operation kinds on the standard layouts. '
                'non-trivial = history contains a save and a layout change; distinct by (manager, grid, extents, history)')
    # the driver-script theorem (Props/C04Driver.lean) is about the loop REGENERATED from fullSimulation.py: run the translator first
    import subprocess
    tr = subprocess.run(['/venv/bin/python', str(common.VERIF / 'harness' / 'translate_driver.py'), '--repo', str(common.REPO), '--out', common.generated_dir(chk)],
                        capture_output=True, text=True)
    if tr.returncode != 0:
        chk.proof_broken.append({'theorem': 'translator (harness/translate_driver.py) refused the source of the time loop',
                                 'log': (tr.stdout + tr.stderr)[-800:]})
    # Props/C04Gen.lean is about the state machine REGENERATED from grid.py
    common.run_translator(chk, 'translate_pure.py', '--only', 'grid')
    chk.proof_side(build=not getattr(chk, 'no_build', False), extra_props=('C04Driver', 'C04Gen'))
    drv = common.LeanDriver('C04.lean')
    try:
        if chk.replay:
            import json
            c = json.load(open(chk.replay))['case']
            c.setdefault('world', c['nprocs'])
            c['names'] = list(c['layouts']) if c.get('layouts') else ['v_parallel_2d', 'mode_solve', 'v_parallel_1d', 'poloidal']
            if c['manager'] == 'swapper':
                c['groups'] = [{'v_parallel_2d': [0, 2, 1], 'mode_solve': [1, 2, 0]}, {'v_parallel_1d': [0, 2, 1]}, {'poloidal': [2, 1, 0]}]
            check_one(chk, drv, c)
        else:
            for it in range(chk.n(400, 2500)):
                check_one(chk, drv, gen(chk.rng, it, chk.quick()))
            if not chk.quick():
                names = list(LAY4)
                n = 0
                for L in (1, 2, 3, 4):
                    for ops in all_histories(L):
                        for hs, nprocs in ((True, [2, 1]), (True, [1, 2])) if L == 4 else ((True, [2, 2]), (False, [2, 1]), (True, [1, 3])):
                            cfg = {'manager': 'handler', 'layouts': LAY4, 'nprocs': nprocs, 'ext': [3, 3, 4, 3], 'world': nprocs, 'ops': list(ops),
                                   'hasSave': hs, 'dtype': 'float64', 'start': 'v_parallel', 'field0': 1, 'names': names}
                            check_one(chk, drv, cfg)
                            n += 1
                chk.notes['exhaustive_histories'] = 'all histories of length <= 4 over 7 operation kinds: %d runs' % n
    finally:
        drv.close()
    chk.assumptions = ['the layout manager honours the transpose contract of C01/C03 (destination receives the field; source intact only with a spare buffer)']

    def search():
        """a broken proof obligation about the generated time loop: run the real driver for two steps and see whether a grid
        operation is refused (AssertionError from save/restore/free) or the run differs from the single-array semantics"""
        import os, shutil, tempfile
        import driver_util as du
        work = tempfile.mkdtemp(prefix='pgc04')
        try:
            cfile = du.write_constants(os.path.join(work, 'c.json'), npts=(8, 8, 8, 8), dt=2)
            for nranks in (1, 2):
                st = du.run_driver(nranks, work, 4, 'run%d' % nranks, cfile, 5)
                if st[0] != 'ok':
                    return {'signature': 'C04:driver-loop', 'what': 'the real driver loop fails: ' + st[1][:300],
                            'case': {'driver': 'fullSimulation.main', 'nranks': nranks, 'tEnd': 4, 'npts': [8, 8, 8, 8]}}
        finally:
            shutil.rmtree(work, ignore_errors=True)
        return None
    return chk.finish(search)
