"""C08 — interpolants reproduce their data and all polynomials of the spline degree.

proof side : Props/C08.lean (interp_reproduces_1d, banded_index_roundtrip, interp_reproduces_2d, wrap_consistent, ...)
correspondence: real make_knots / BSplines.greville / collocation_matrix / compute_interpolant (1-D, 2-D) of /repo vs. the
             ℚ model (Drivers/C08.lean).  The real solver's output is handed to the model, which returns the exact
             residual M c - u (solver contract, accepted within CN*eps*sum_j|M_ij||c_j|), the wrapped coefficient
             array and the exact interpolant values at the real interpolation points.
oracle     : (no model) real spline evaluated at the real interpolation points vs. the data; wrapped coefficients;
             polynomial reproduction at random points on clamped spaces; complex data component-wise.
             Bounds use an independent Fraction implementation of the Cox-de Boor recursion (`basis_at`).
This module also hosts the helpers shared with c09.py (space generator, Fraction B-splines, exact integration).
"""
from fractions import Fraction as F

import numpy as np

import common

LEVEL = 'proof'
CN = 16384.0         # backward-error constant of the solver contract: 2^14, > 100 x the largest ratio seen on the unchanged tree
                     # in thorough runs of seeds 0-2 (1-D 40, complex 16, 2-D 14, transposed solve 36, equal weights 73)
EPS = F(common.EPS)

# findings of the design/build phase that are not (yet) in KNOWN_FINDINGS.json; see finish_local()
LOCAL_KNOWN = {}   # every finding of the build phase has been decided in KNOWN_FINDINGS.json (fixed or known)


# ----------------------------------------------------------------------------------------------
# shared helpers

def finish_local(chk, local_known, search=None):
    """Violation protocol with a *local* list of known findings: a failure whose signature has no entry at all in
    KNOWN_FINDINGS.json (neither known nor fixed) and is listed in `local_known` is printed as KNOWN-FINDING and does
    not fail the run.  As soon as KNOWN_FINDINGS.json names the signature, the committed file alone decides."""
    import json
    f = common.VERIF / 'KNOWN_FINDINGS.json'
    named = set()
    if f.exists():
        named = {e['signature'] for e in json.load(open(f))['findings']}
    keep, seen = [], {}
    for fl in chk.failures:
        s = fl['signature']
        if s in local_known and s not in named:
            seen.setdefault(s, fl)
        else:
            keep.append(fl)
    for s, fl in sorted(seen.items()):
        print('KNOWN-FINDING: property=%s %s [signature %s, e.g. %s]' % (chk.pid, local_known[s], s, fl['case']))
    chk.notes['local_known_findings'] = {s: {'what': local_known[s], 'example': fl['case'],
                                             'expected': fl['expected'], 'actual': fl['actual']}
                                         for s, fl in seen.items()}
    chk.failures = keep
    return chk.finish(search)


def frs(xs):
    return [F(float(x)) for x in xs]


class Sp:
    """one 1-D spline space built with the repo's constructors + what the model / the oracles need"""
    BUILT = {}

    def __init__(self, p, per, kind, breaks, int_knots=False):
        from pygyro.splines.splines import make_knots, BSplines
        self.p, self.per, self.kind = int(p), bool(per), kind
        self.breaks = np.asarray(breaks, dtype=float)
        self.nc = len(self.breaks) - 1
        self.knots = make_knots(self.breaks, self.p, self.per)
        self.int_knots = bool(int_knots) and bool(np.all(self.knots == np.round(self.knots)))
        if self.int_knots:
            # a hand-built knot vector of whole numbers (np.arange / np.r_ give an integer array): the same space
            self.knots = self.knots.astype(np.int64)
        # the two flags as a caller may spell them: Python bools, numpy bools (elements of an array of options), 0 / 1; in turn
        key_ = (bool(self.per), kind.startswith('cu'))          # in turn within each class of spaces (periodic or not, fast path or not)
        Sp.BUILT[key_] = Sp.BUILT.get(key_, 0) + 1
        sp_ = [bool, np.bool_, int][Sp.BUILT[key_] % 3]
        self.flag_spelling = sp_.__name__
        self.basis = BSplines(self.knots, self.p, sp_(self.per), sp_(kind.startswith('cu')))
        self.cu = bool(self.basis.cubic_uniform)
        self.nb = int(self.basis.nbasis)
        self.ncoef = self.nc + self.p
        if self.cu:
            xmin, xmax, dx, _ = [float(v) for v in self.basis.knots]
            self.req = {'kind': 'cu', 'xmin': common.rat(xmin), 'xmax': common.rat(xmax), 'dx': common.rat(dx),
                        'ncells': self.nc, 'periodic': self.per}
            # the knot vector the uniform-cubic kernels mean
            self.T = [F(xmin) + (k - 3) * F(dx) for k in range(self.nc + 7)]
        else:
            self.req = {'kind': 'nu', 'knots': common.rats(self.knots), 'degree': self.p, 'periodic': self.per}
            self.T = frs(self.knots)
        self.a, self.b = self.T[self.p], self.T[self.p + self.nc]

    def key(self):
        return (self.p, self.per, self.kind, self.nc)

    def desc(self):
        return {'degree': self.p, 'periodic': self.per, 'kind': self.kind, 'ncells': self.nc,
                'breaks': [float(x) for x in self.breaks], **({'knots_dtype': 'int64'} if self.int_knots else {}),
                'flags_given_as': self.flag_spelling}


KINDS = ['cu', 'uniform', 'uniform-dyadic', 'dyadic', 'random']


def gen_breaks(rng, kind, nc):
    if kind == 'cu' or kind == 'uniform':
        if rng.random() < 0.5:
            # generic origins and lengths: (x - xmin)/dx is then not exactly representable (the radial domain [0.1, 14.5] of the
            # simulation is of this kind)
            a = rng.choice([0.1, 0.3, 1.1, rng.uniform(-10, 10), rng.uniform(0, 2)])
            return np.linspace(a, a + rng.choice([1.0, 14.4, rng.uniform(0.5, 20.0)]), nc + 1)
        a = rng.choice([-1.0, 0.0, 0.5, -3.25])
        return np.linspace(a, a + rng.choice([1.0, 3.0, 2.5, 7.0]), nc + 1)
    if kind == 'uniform-dyadic' or kind == 'cu-dyadic':
        h = 2.0 ** rng.randint(-3, 1)
        a = rng.randint(-8, 8) * 0.25
        return a + h * np.arange(nc + 1)
    if kind == 'dyadic':
        # distinct multiples of 2^-5, irregular
        a = rng.randint(-8, 8) * 0.25
        steps = [rng.randint(1, 12) for _ in range(nc)]
        return a + np.concatenate([[0.0], np.cumsum(steps)]) / 32.0
    if kind == 'random':
        a = rng.uniform(-2, 2)
        w = np.array([rng.uniform(0.15, 1.0) for _ in range(nc)])
        r_ = rng.random()
        if r_ < 0.12:
            # nearly equidistant: cell sizes equal to within 1e-6 .. 1e-9 relative (must NOT be treated as equidistant)
            w = 0.5 * (1 + 10.0 ** -rng.randint(6, 9) * np.array([rng.uniform(-1, 1) for _ in range(nc)]))
        elif r_ < 0.24:
            # a strongly graded grid on a tiny or a huge length scale, possibly far from the origin
            sc = rng.choice([1e-8, 1e-6, 1e5])
            return rng.choice([0.0, a, 2e4 * sc]) + sc * np.concatenate([[0.0], np.cumsum(w)])
        return a + np.concatenate([[0.0], np.cumsum(w)])
    raise ValueError(kind)


def gen_space(rng, p=None, per=None, kind=None, nc=None, maxcells=12, allow_min=True):
    p = rng.randint(1, 5) if p is None else p
    per = (rng.random() < 0.5) if per is None else per
    kind = rng.choice(['cu', 'cu-dyadic', 'uniform', 'uniform-dyadic', 'dyadic', 'dyadic', 'random', 'random']) if kind is None else kind
    if kind.startswith('cu'):
        p = 3
    lo = max(1, p) if per else 1
    if not allow_min and per:
        lo = p + 1
    if nc is None:
        nc = lo + (0 if rng.random() < 0.15 else rng.randint(0, maxcells - lo))
    return Sp(p, per, kind, gen_breaks(rng, kind, nc))


def gen_data(rng, n, kind):
    u = np.array([rng.gauss(0, 1) for _ in range(n)])
    if kind == 'scaled':           # every entry with its own power of two
        u = u * np.array([2.0 ** rng.randint(-30, 30) for _ in range(n)])
    elif kind == 'big':
        u = u * 2.0 ** 30
    elif kind == 'small':
        u = u * 2.0 ** -30
    elif kind == 'ints':
        u = np.array([float(rng.randint(-9, 9)) for _ in range(n)])
    elif kind == 'background':     # a small perturbation on a large constant background (delta-f like data)
        u = 1.0e3 + 1.0e-3 * u
    return u


# ---- independent Fraction B-splines (Cox-de Boor triangle, written on basis functions, not on A2.2's left/right)

def find_cell(T, p, nc, x):
    """span with T[span] <= x < T[span+1], first/last cell at/outside the ends"""
    lo, hi = p, p + nc - 1
    if x <= T[lo]:
        return lo
    if x >= T[hi + 1]:
        return hi
    s = lo
    while not (T[s] <= x < T[s + 1]):
        s += 1
    return s


def basis_at(T, p, nc, x):
    """(span, [N_{span-p}(x) .. N_{span}(x)]) exactly"""
    s = find_cell(T, p, nc, x)
    vals = {s: F(1)}
    for k in range(1, p + 1):
        new = {}
        for j in range(s - k, s + 1):
            v = F(0)
            a, b = vals.get(j, 0), vals.get(j + 1, 0)
            if a and T[j + k] != T[j]:
                v += (x - T[j]) / (T[j + k] - T[j]) * a
            if b and T[j + k + 1] != T[j + 1]:
                v += (T[j + k + 1] - x) / (T[j + k + 1] - T[j + 1]) * b
            new[j] = v
        vals = new
    return s, [vals[j] for j in range(s - p, s + 1)]


def oracle_matrix(sp, xs):
    """exact collocation matrix B_j(x_i) of the space (periodic: B_j + B_{j+n}), independent of the code and the model"""
    M = [[F(0)] * sp.nb for _ in xs]
    for i, x in enumerate(xs):
        s, vals = basis_at(sp.T, sp.p, sp.nc, x)
        for r, v in enumerate(vals):
            j = s - sp.p + r
            M[i][j % sp.nb if sp.per else j] += v
    return M


def padd(a, b):
    n = max(len(a), len(b))
    return [(a[i] if i < len(a) else 0) + (b[i] if i < len(b) else 0) for i in range(n)]


def pmul_lin(a, c0, c1):
    """a(x) * (c0 + c1 x)"""
    out = [F(0)] * (len(a) + 1)
    for i, v in enumerate(a):
        out[i] += v * c0
        out[i + 1] += v * c1
    return out


def cell_polys(T, p, s):
    """the polynomials (ascending coefficients) of N_{s-p}..N_s on the cell [T[s], T[s+1])"""
    vals = {s: [F(1)]}
    for k in range(1, p + 1):
        new = {}
        for j in range(s - k, s + 1):
            v = [F(0)]
            a, b = vals.get(j), vals.get(j + 1)
            if a is not None and T[j + k] != T[j]:
                d = T[j + k] - T[j]
                v = padd(v, pmul_lin(a, -T[j] / d, 1 / d))
            if b is not None and T[j + k + 1] != T[j + 1]:
                d = T[j + k + 1] - T[j + 1]
                v = padd(v, pmul_lin(b, T[j + k + 1] / d, -1 / d))
            new[j] = v
        vals = new
    return [vals[j] for j in range(s - p, s + 1)]


def pint(a, lo, hi):
    return sum(c * (hi ** (k + 1) - lo ** (k + 1)) / (k + 1) for k, c in enumerate(a))


def peval(a, x):
    r = F(0)
    for c in reversed(a):
        r = r * x + c
    return r


def exact_basis_integrals(sp):
    """integral over the domain of every unwrapped basis function B_0 .. B_{ncells+p-1} (exact piecewise integration)"""
    out = [F(0)] * sp.ncoef
    for s in range(sp.p, sp.p + sp.nc):
        for r, pol in enumerate(cell_polys(sp.T, sp.p, s)):
            out[s - sp.p + r] += pint(pol, sp.T[s], sp.T[s + 1])
    return out


def exact_spline_integral(sp, coeffs):
    """integral over the domain of the spline with the given (unwrapped, length ncells+p) coefficients"""
    I = exact_basis_integrals(sp)
    return sum(c * i for c, i in zip(coeffs, I)), sum(abs(c) * abs(i) for c, i in zip(coeffs, I))


def real_interpolant(sp, u, dtype=float, spelling=None):
    """`spelling`: how the caller names the complex element type (complex, np.complex128, np.dtype(complex), 'complex128', the dtype
    of the data): all mean the same interpolator (finding F19)"""
    from pygyro.splines.splines import Spline1D
    from pygyro.splines.spline_interpolators import SplineInterpolator1D
    itp = SplineInterpolator1D(sp.basis, dtype if spelling is None else spelling) if dtype is complex else SplineInterpolator1D(sp.basis)
    spl = Spline1D(sp.basis, dtype) if dtype is complex else Spline1D(sp.basis)
    itp.compute_interpolant(u, spl)
    return itp, spl


def all_finite(*arrays):
    return all(bool(np.all(np.isfinite(np.asarray(a, dtype=complex)))) for a in arrays)


def inv_norm(Mfloat):
    """||M^-1||_inf of an (oracle) matrix, None if singular"""
    try:
        return float(np.abs(np.linalg.inv(Mfloat)).sum(axis=1).max())
    except np.linalg.LinAlgError:
        return None


# ----------------------------------------------------------------------------------------------
# knots and interpolation points

def knots_and_points(chk, drv):
    from pygyro.splines.splines import make_knots
    rng = chk.rng
    for it in range(chk.n(150, 1500)):
        sp = gen_space(rng)
        case = sp.desc()
        exact_family = sp.kind in ('uniform-dyadic', 'cu-dyadic', 'dyadic')
        # make_knots
        mk = common.unrats(drv.call({'op': 'make_knots', 'breaks': common.rats(sp.breaks), 'degree': sp.p,
                                     'periodic': sp.per})['knots'])
        real = make_knots(sp.breaks, sp.p, sp.per)
        period = abs(F(float(sp.breaks[-1]))) + abs(F(float(sp.breaks[0])))
        if len(mk) != len(real):
            chk.diff('make_knots length', case, len(mk), len(real))
        else:
            for k, (m, r) in enumerate(zip(mk, real)):
                ok = (F(float(r)) == m) if exact_family else common.close(r, m, abs(m) + period, 8)
                if not ok:
                    chk.diff('make_knots[%d]' % k, case, str(m), float(r))
                    break
        # oracle for the knots (numpy, no model): periodic extension / clamping
        L = sp.breaks[-1] - sp.breaks[0]
        p, nc = sp.p, sp.nc
        exp = np.concatenate([sp.breaks[-p - 1:-1] - L if sp.per else np.full(p, sp.breaks[0]), sp.breaks,
                              sp.breaks[1:p + 1] + L if sp.per else np.full(p, sp.breaks[-1])])
        if len(real) != len(exp) or not np.allclose(real, exp, rtol=0, atol=8 * common.EPS * float(period)):
            chk.fail('C08:make_knots', 'knot vector is not the clamped / periodically extended break sequence', case,
                     [float(x) for x in exp], [float(x) for x in real])
        # interpolation points
        mp = common.unrats(drv.call({'op': 'points', 'space': sp.req})['points'])
        rp = sp.basis.greville
        scale = max(abs(sp.a), abs(sp.b)) + (sp.b - sp.a)
        # np.around(x, 15) twice (general branch): 0.5e-15 each, documented in the model header
        tol = F(64) * EPS * scale + (F(0) if sp.cu else F(1, 10 ** 15))
        if len(mp) != len(rp):
            chk.diff('number of interpolation points', case, len(mp), len(rp))
        else:
            for k, (m, r) in enumerate(zip(mp, rp)):
                d = abs(F(float(r)) - m)
                ok = d <= tol
                if not ok and sp.per and not sp.cu:
                    # the periodic wrap `% (b-a)` is discontinuous: a point within tol of an end may land on either
                    near_end = min(abs(m - sp.a), abs(sp.b - m)) <= tol
                    ok = near_end and abs(d - (sp.b - sp.a)) <= tol
                    chk.count('greville point on the seam (either end accepted)')
                if not ok:
                    chk.diff('interpolation point %d' % k, case, str(m), float(r))
                    break
        # oracle: the points are n distinct points of the domain, increasing for clamped spaces
        xs = np.asarray(rp, dtype=float)
        good = len(xs) == sp.nb and np.all(xs >= float(sp.a) - 1e-14) and np.all(xs <= float(sp.b) + 1e-14) \
            and len(set(xs.tolist())) == len(xs) and (sp.per or np.all(np.diff(xs) > 0))
        if not good:
            chk.fail('C08:points', 'interpolation points are not nbasis distinct points of the domain', case,
                     actual=[float(x) for x in xs])
        chk.case(('pts',) + sp.key(), nontrivial=sp.kind not in ('uniform', 'uniform-dyadic') or sp.per,
                 sample={'space': case, 'points': [float(x) for x in rp]} if it == 0 else None)
        chk.count('points %s %s' % ('periodic' if sp.per else 'clamped', 'cu' if sp.cu else 'general'))


# ----------------------------------------------------------------------------------------------
# 1-D interpolation

def check_1d(chk, drv, sp, u, dkind, stats):
    """one real data vector (float) on one space: oracle + correspondence.  Returns True if no finding/diff."""
    from pygyro.splines.spline_interpolators import SplineInterpolator1D
    case = dict(sp.desc(), data=dkind, u=[float(x) for x in u])
    xs = np.asarray(sp.basis.greville, dtype=float)
    min_per = False
    if sp.per and sp.nc == sp.p:
        # the recorded finding is recognised by its specific symptom on the public collocation_matrix: a row that lost an entry
        # (does not sum to one); any other failure on these spaces gets the generic signatures
        try:
            Mr0 = SplineInterpolator1D.collocation_matrix(sp.nb, sp.basis.knots, sp.p, xs, sp.per, sp.cu)
            min_per = bool(np.any(np.abs(Mr0.sum(axis=1) - 1.0) > 1e-9))
        except Exception:  # noqa: BLE001
            min_per = False
    try:
        itp, spl = real_interpolant(sp, u)
    except Exception as e:  # noqa: BLE001
        sig = 'C08:periodic-ncells-eq-degree' if min_per else 'C08:interpolator-raises'
        chk.fail(sig, 'constructing the interpolator / computing the interpolant raised %s: %s' % (type(e).__name__, e),
                 case)
        return False
    c = np.array(spl.coeffs, dtype=float)
    ev = [spl.eval(float(x)) for x in xs]
    if not all_finite(c, ev, xs):
        sig = 'C08:periodic-ncells-eq-degree' if min_per else 'C08:non-finite'
        chk.fail(sig, 'interpolation produced non-finite coefficients / values (singular or wrongly stored collocation matrix)',
                 case, actual=[float(x) for x in c])
        return False
    cf = frs(c)
    ok = True
    # ---------------- oracle (no model)
    Mo = oracle_matrix(sp, frs(xs))
    sc_o = [sum(abs(Mo[i][j]) * abs(cf[j]) for j in range(sp.nb)) for i in range(sp.nb)]
    bad = None
    for i in range(sp.nb):
        d = abs(F(float(ev[i])) - F(float(u[i])))
        bound = F(CN) * EPS * sc_o[i]
        if sc_o[i] > 0 and not min_per:
            stats['oracle_ratio'] = max(stats.get('oracle_ratio', 0.0), float(d / (EPS * sc_o[i])))
        if d > bound:
            bad = (i, float(ev[i]), float(u[i]))
            break
    failed_sig = None
    if bad is not None:
        failed_sig = 'C08:periodic-ncells-eq-degree' if min_per else 'C08:reproduce-1d'
        chk.fail(failed_sig, 'interpolant evaluated at interpolation point %d differs from the datum' % bad[0], case,
                 expected=bad[2], actual=bad[1])
        ok = False
    if sp.per:
        if not np.array_equal(c[sp.nb:sp.nb + sp.p], c[:sp.p]) or len(c) != sp.nb + sp.p:
            chk.fail('C08:wrap', 'periodic coefficients are not wrapped: c[n:n+p] != c[0:p]', case,
                     expected=[float(x) for x in c[:sp.p]], actual=[float(x) for x in c[sp.nb:]])
            ok = False
    # ---------------- correspondence
    rq = {'op': 'interp1d', 'space': sp.req, 'xgrid': common.rats(xs), 'u': common.rats(u), 'sol': common.rats(c[:sp.nb])}
    mo = drv.call(rq)
    if mo.get('matrix') is None:
        chk.diff('model could not build the collocation matrix', case, mo)
        return False
    if mo['old_differs']:
        chk.count('space where the last-wins assignment of the unpatched code loses an entry')
    if not mo.get('hyp', False):
        chk.diff('an interpolation point violates the hypothesis of interp_reproduces_1d(_cu) (span search / cell index)', case)
        return False
    # matrix entries: public static method of the real class
    Mr = SplineInterpolator1D.collocation_matrix(sp.nb, sp.basis.knots, sp.p, xs, sp.per, sp.cu)
    Mm = [common.unrats(r) for r in mo['matrix']]
    exact_family = sp.kind in ('dyadic', 'uniform-dyadic') and sp.p in (1, 2, 4)
    if failed_sig != 'C08:periodic-ncells-eq-degree':
        mscale = F(1) + (F(sp.nc) if sp.cu else F(0))
        for i in range(sp.nb):
            for j in range(sp.nb):
                if not common.close(Mr[i, j], Mm[i][j], mscale, 64):
                    chk.diff('collocation matrix entry (%d,%d)' % (i, j), case, str(Mm[i][j]), float(Mr[i, j]))
                    return False
        if exact_family and sp.p <= 2:
            # dyadic knots and points, degree <= 2: every float operation of A2.2 is exact up to the divisions;
            # entries whose exact value is dyadic must be reproduced bit for bit
            for i in range(sp.nb):
                for j in range(sp.nb):
                    if (Mm[i][j].denominator & (Mm[i][j].denominator - 1)) == 0 and Mm[i][j].denominator < 2 ** 40 \
                            and Mm[i][j] in (0, 1) and F(float(Mr[i, j])) != Mm[i][j]:
                        chk.diff('collocation matrix 0/1 entry (%d,%d) not exact' % (i, j), case, str(Mm[i][j]), float(Mr[i, j]))
                        return False
        # solver contract: exact residual of what the real solver returned
        res, sc = common.unrats(mo['residual']), common.unrats(mo['scale'])
        for i in range(sp.nb):
            if sc[i] > 0 and not min_per:
                stats['residual_ratio'] = max(stats.get('residual_ratio', 0.0), float(abs(res[i]) / (EPS * sc[i])))
            if abs(res[i]) > F(CN) * EPS * sc[i]:
                chk.diff('solver contract: residual of row %d exceeds CN*eps*sum|M||c|' % i, case,
                         {'residual': float(res[i]), 'scale': float(sc[i])}, None)
                ok = False
                break
        # exact interpolant values vs the real evaluation (rounding of the evaluation kernels only)
        for i, v in enumerate(mo['values']):
            if v is None:
                chk.diff('model span search failed', case, i)
                ok = False
                break
            if not common.close(ev[i], F(v), sc[i] * (1 + (sp.nc if sp.cu else 0)), 64):
                chk.diff('interpolant value at point %d' % i, case, v, float(ev[i]))
                ok = False
                break
            if abs(F(v) - F(float(u[i]))) > F(CN) * EPS * sc[i]:
                chk.diff('model value at point %d differs from the datum' % i, case, v, float(u[i]))
                ok = False
                break
    # coefficient array incl. wrap: pure data movement, exact
    if [F(x) for x in mo['coeffs']] != cf:
        chk.diff('coefficient array (wrap)', case, mo['coeffs'], [float(x) for x in c])
        ok = False
    stats['lu'] = stats.get('lu', 0) + 1
    if not sp.per:
        # mechanism agreement (not deciding): band widths
        if hasattr(itp, '_l') and hasattr(itp, '_u') and (int(itp._l), int(itp._u)) != (mo['l'], mo['u']):
            stats['band_mismatch'] = stats.get('band_mismatch', 0) + 1
    return ok


def interp_1d(chk, drv):
    rng = chk.rng
    stats = {}
    # minimal sizes first (deterministic), then random spaces
    fixed = []
    for p in range(1, 6):
        for per in (False, True):
            for kind in ('uniform', 'dyadic'):
                for nc in ((p, p + 1) if per else (1, 2)):
                    fixed.append((p, per, kind, nc))
    for kind in ('cu', 'cu-dyadic'):
        for per, ncs in ((False, (1, 2, 3)), (True, (3, 4))):
            for nc in ncs:
                fixed.append((3, per, kind, nc))
    if chk.quick():
        fixed = [f for k, f in enumerate(fixed) if k % 2 == chk.seed % 2 or (f[1] and f[3] == f[0])]
    todo = [gen_space(rng, p, per, kind, nc) for (p, per, kind, nc) in fixed]
    todo += [gen_space(rng) for _ in range(chk.n(220, 3500))]
    for it, sp in enumerate(todo):
        dk = rng.choice(['normal', 'normal', 'scaled', 'big', 'small', 'ints'])
        if it % 5 == 2:
            dk = 'background'
        u = gen_data(rng, sp.nb, dk)
        good = check_1d(chk, drv, sp, u, dk, stats)
        chk.case(('1d',) + sp.key() + (dk,), nontrivial=True,
                 sample={'space': sp.desc(), 'data': dk, 'ok': good} if it == len(fixed) else None)
        chk.count('1-D %s %s deg%d' % ('periodic' if sp.per else 'clamped', 'cu' if sp.cu else 'general', sp.p))
        chk.count('data ' + dk)
        if sp.per and sp.nc == sp.p:
            chk.count('minimal periodic (ncells == degree)')
    chk.notes['solver_contract'] = {'CN': CN, 'largest residual/(eps*scale) seen': stats.get('residual_ratio'),
                                    'largest |S(x_i)-u_i|/(eps*scale) seen (oracle)': stats.get('oracle_ratio')}
    chk.notes['mechanism_agreement'] = {'band widths (l,u) differ from the model in': stats.get('band_mismatch', 0),
                                        'of': stats.get('lu', 0)}


# ----------------------------------------------------------------------------------------------
# banded storage (mechanism, not deciding) — the array handed to dgbtrf

def banded(chk, drv):
    import pygyro.splines.spline_interpolators as si
    rng = chk.rng
    agree = tot = 0
    orig = getattr(si, 'dgbtrf', None)
    if orig is None:
        chk.notes.setdefault('mechanism_agreement', {})['bmat handed to dgbtrf equals bandedStore'] = 'not observable (no dgbtrf in module)'
        return
    seen = []

    def spy(bmat, l, u):
        seen.append((np.array(bmat), int(l), int(u)))
        return orig(bmat, l, u)
    try:
        si.dgbtrf = spy
        for it in range(chk.n(20, 200)):
            sp = gen_space(rng, per=False)
            del seen[:]
            try:
                si.SplineInterpolator1D(sp.basis)
            except Exception:  # noqa: BLE001  (decided elsewhere)
                continue
            if not seen:
                continue
            bmat, l, u = seen[-1]
            M = si.SplineInterpolator1D.collocation_matrix(sp.nb, sp.basis.knots, sp.p, sp.basis.greville, False, sp.cu)
            mo = drv.call({'op': 'banded', 'matrix': [common.rats(r) for r in M], 'u': u, 'l': l})
            mb = np.array([[float(F(x)) for x in r] for r in mo['bmat']])
            tot += 1
            agree += int(mb.shape == bmat.shape and np.array_equal(mb, bmat))
    finally:
        si.dgbtrf = orig
    chk.notes.setdefault('mechanism_agreement', {})['bmat handed to dgbtrf equals bandedStore'] = '%d of %d' % (agree, tot)


# ----------------------------------------------------------------------------------------------
# complex data on clamped spaces: component-wise

def complex_1d(chk, drv):
    rng = chk.rng
    stats = {}
    for it in range(chk.n(40, 600)):
        sp = gen_space(rng, per=False)
        dk = rng.choice(['normal', 'scaled'])
        ur, ui = gen_data(rng, sp.nb, dk), gen_data(rng, sp.nb, dk)
        u = ur + 1j * ui
        case = dict(sp.desc(), data='complex-' + dk, re=[float(x) for x in ur], im=[float(x) for x in ui])
        try:
            if it % 2 == 0:
                # as in the driver: a real interpolator (advection, quadrature weights) exists on the same BSplines object before the
                # complex one (quasi-neutrality solver) is built
                real_interpolant(sp, ur, float)
                case['real_interpolator_built_first'] = True
            spelling = [complex, np.complex128, np.dtype(complex), 'complex128', u.dtype, np.dtype('complex128').type][it % 6]
            case['dtype_given_as'] = repr(spelling)
            itp, spl = real_interpolant(sp, u, complex, spelling)
        except Exception as e:  # noqa: BLE001
            chk.fail('C08:complex-raises', 'complex interpolation raised %s: %s' % (type(e).__name__, e), case)
            continue
        c = np.array(spl.coeffs)
        xs = np.asarray(sp.basis.greville, dtype=float)
        ev = np.array([complex(spl.eval(float(x))) for x in xs])
        if not all_finite(c, ev, xs):
            chk.fail('C08:non-finite', 'complex interpolation produced non-finite coefficients / values', case)
            continue
        Mo = oracle_matrix(sp, frs(xs))
        cabs = [abs(F(float(z.real))) + abs(F(float(z.imag))) for z in c]
        bad = None
        for i in range(sp.nb):
            sc = sum(abs(Mo[i][j]) * cabs[j] for j in range(sp.nb))
            for part, (a, b) in (('re', (ev[i].real, ur[i])), ('im', (ev[i].imag, ui[i]))):
                if abs(F(float(a)) - F(float(b))) > F(CN) * EPS * sc:
                    bad = (i, part, float(a), float(b))
        if bad:
            chk.fail('C08:complex', 'complex interpolant does not reproduce its data (%s part of point %d)' % (bad[1], bad[0]),
                     case, bad[3], bad[2])
        # correspondence: the model applied to each component (theorem interp_complex_componentwise);
        # zgbtrs mixes the components only through rounding, so the contract scale uses |re|+|im|
        for part, uu, cc in (('re', ur, c.real), ('im', ui, c.imag)):
            mo = drv.call({'op': 'interp1d', 'space': sp.req, 'xgrid': common.rats(xs), 'u': common.rats(uu),
                           'sol': common.rats(cc[:sp.nb])})
            res = common.unrats(mo['residual'])
            Mm = [common.unrats(r) for r in mo['matrix']]
            for i in range(sp.nb):
                sc = sum(abs(Mm[i][j]) * cabs[j] for j in range(sp.nb))
                if sc > 0:
                    stats['r'] = max(stats.get('r', 0.0), float(abs(res[i]) / (EPS * sc)))
                if abs(res[i]) > F(CN) * EPS * sc:
                    chk.diff('complex solver contract (%s part, row %d)' % (part, i), case, float(res[i]), float(sc))
                    break
                evp = ev[i].real if part == 're' else ev[i].imag
                if not common.close(evp, F(mo['values'][i]), sc * (1 + (sp.nc if sp.cu else 0)), 64):
                    chk.diff('complex interpolant value (%s part, point %d)' % (part, i), case, mo['values'][i], float(evp))
                    break
        chk.case(('cplx',) + sp.key() + (dk,), nontrivial=True)
        chk.count('complex clamped %s deg%d' % ('cu' if sp.cu else 'general', sp.p))
    chk.notes['solver_contract']['largest complex residual ratio'] = stats.get('r')


# ----------------------------------------------------------------------------------------------
# polynomial reproduction on clamped spaces

def solve_exact(M, u):
    """Gaussian elimination in Fractions; None if singular"""
    n = len(M)
    A = [list(r) + [b] for r, b in zip(M, u)]
    for k in range(n):
        piv = next((r for r in range(k, n) if A[r][k] != 0), None)
        if piv is None:
            return None
        A[k], A[piv] = A[piv], A[k]
        for r in range(k + 1, n):
            if A[r][k] != 0:
                f = A[r][k] / A[k][k]
                A[r] = [a - f * b for a, b in zip(A[r], A[k])]
    x = [F(0)] * n
    for k in reversed(range(n)):
        x[k] = (A[k][n] - sum(A[k][j] * x[j] for j in range(k + 1, n))) / A[k][k]
    return x


def polynomials(chk, drv):
    rng = chk.rng
    worst = 0.0
    for it in range(chk.n(80, 1000)):
        sp = gen_space(rng, per=False, maxcells=9)
        deg = rng.randint(0, sp.p)
        q = [F(rng.randint(-64, 64), 16) for _ in range(deg + 1)]
        xs = np.asarray(sp.basis.greville, dtype=float)
        u = np.array([float(peval(q, F(float(x)))) for x in xs])
        case = dict(sp.desc(), polynomial=[float(x) for x in q])
        try:
            itp, spl = real_interpolant(sp, u)
        except Exception as e:  # noqa: BLE001
            chk.fail('C08:interpolator-raises', 'interpolating polynomial data raised %s: %s' % (type(e).__name__, e), case)
            continue
        # oracle on the real code: random points of the domain; the data are rounded values of q, the interpolation
        # operator amplifies that by at most ||M^-1||_inf (M from the independent Fraction basis)
        Mo = np.array([[float(v) for v in r] for r in oracle_matrix(sp, frs(xs))]) if all_finite(xs) else None
        kappa = inv_norm(Mo) if Mo is not None else None
        if kappa is None or not all_finite(spl.coeffs):
            chk.fail('C08:non-finite', 'interpolation points not unisolvent / non-finite coefficients for polynomial data', case)
            continue
        ys = [float(sp.a) + (float(sp.b) - float(sp.a)) * rng.random() for _ in range(8)] + [float(sp.a), float(sp.b)]
        umax = max(1.0, float(np.max(np.abs(u))), float(sum(abs(x) for x in q)))
        for y in ys:
            yv = min(max(y, float(sp.a)), float(sp.b))
            d = abs(F(float(spl.eval(yv))) - peval(q, F(yv)))
            qs = sum(abs(cq) * abs(F(yv)) ** k for k, cq in enumerate(q)) + F(umax)
            bound = F(CN) * EPS * F(kappa) * qs
            worst = max(worst, float(d / (EPS * F(kappa) * qs)))
            if d > bound:
                chk.fail('C08:polynomial', 'interpolant of a polynomial of degree <= spline degree differs from it', dict(case, y=yv),
                         float(peval(q, F(yv))), float(spl.eval(yv)))
                break
        # exact test of the model (labelled test, not proof): exact solve of the model's matrix, exact evaluation
        if it < chk.n(25, 250) and sp.kind in ('dyadic', 'uniform-dyadic', 'cu-dyadic', 'random', 'uniform', 'cu'):
            # uniform-cubic kernels evaluate a point beyond xmin + ncells*dx (xmax rounded up) at xmin + ncells*dx (offset := 1)
            ue = [peval(q, min(F(float(x)), sp.b) if sp.cu else F(float(x))) for x in xs]
            mo = drv.call({'op': 'interp1d', 'space': sp.req, 'xgrid': common.rats(xs), 'u': [str(v) for v in ue],
                           'sol': ['0'] * sp.nb})
            Mm = [common.unrats(r) for r in mo['matrix']]
            ce = solve_exact(Mm, ue)
            if ce is None:
                chk.diff('model collocation matrix singular', case)
            else:
                yq = [F(float(y)) for y in ys[:4]]
                if sp.cu:
                    # the uniform-cubic kernel means xmin + k*dx; stay inside [xmin, xmin + ncells*dx]
                    yq = [min(max(y, sp.a), sp.b) for y in yq]
                mv = drv.call({'op': 'eval', 'space': sp.req, 'coeffs': [str(v) for v in ce], 'xs': [str(y) for y in yq]})
                for y, v in zip(yq, mv['values']):
                    if v is None or F(v) != peval(q, y):
                        chk.diff('exact model interpolant of a polynomial is not the polynomial', dict(case, y=str(y)), v,
                                 str(peval(q, y)))
                        break
                chk.count('exact-Q polynomial reproduction tests')
        chk.case(('poly',) + sp.key() + (deg,), nontrivial=deg > 0)
        chk.count('polynomial deg%d on clamped deg%d' % (deg, sp.p))
    chk.notes['polynomial_oracle'] = {'bound': 'CN*eps*||M^-1||_inf*(sum|q_k||y|^k + max|u|)', 'largest ratio seen': worst}


# ----------------------------------------------------------------------------------------------
# 2-D

def interp_2d(chk, drv):
    from pygyro.splines.splines import Spline2D
    from pygyro.splines.spline_interpolators import SplineInterpolator2D
    rng = chk.rng
    stats = {}
    combos = [(a, b) for a in (False, True) for b in (False, True)]
    n_done = [0]
    for it in range(chk.n(48, 700)):
        per1, per2 = combos[it % 4]
        cu = rng.random() < 0.25          # Spline2D asserts basis1.cubic_uniform == basis2.cubic_uniform
        if cu:
            s1 = gen_space(rng, 3, per1, rng.choice(['cu', 'cu-dyadic']), maxcells=7, allow_min=False)
            s2 = gen_space(rng, 3, per2, rng.choice(['cu', 'cu-dyadic']), maxcells=7, allow_min=False)
        else:
            k = ['uniform', 'uniform-dyadic', 'dyadic', 'random']
            s1 = gen_space(rng, per=per1, kind=rng.choice(k), maxcells=7, allow_min=False)
            s2 = gen_space(rng, per=per2, kind=rng.choice(k), maxcells=7, allow_min=False)
            if s1.cu != s2.cu:
                continue
        if it % 8 in (5, 6):
            # the two directions agree in degree, number of cells and boundary condition but NOT in their break points (a graded grid
            # in one direction, an equidistant or otherwise graded one in the other): each direction has its own collocation matrix
            pdeg = rng.randint(1, 5)
            per_ = it % 8 == 6
            ncell = rng.randint(max(pdeg + 1, 3), 7)
            wA = np.array([1.0 + 0.7 * j for j in range(ncell)])
            wB = np.ones(ncell) if rng.random() < 0.5 else wA[::-1] * np.array([1.0 + 0.2 * (j % 2) for j in range(ncell)])
            mk = lambda w_: Sp(pdeg, per_, 'random', np.concatenate([[0.0], np.cumsum(w_)]) / w_.sum())   # noqa: E731
            s1, s2 = (mk(wA), mk(wB)) if rng.random() < 0.5 else (mk(wB), mk(wA))
            per1 = per2 = per_
        dk = rng.choice(['normal', 'normal', 'scaled', 'big'])
        U = gen_data(rng, s1.nb * s2.nb, dk).reshape(s1.nb, s2.nb)
        n_done[0] += 1
        x2_only = n_done[0] % 5 == 3
        if x2_only:
            # data that do not depend on x1 (a profile of x2 only): every line along x1 holds the same numbers - also the first and the
            # last one; the spline object has been used before for other data
            U = np.tile(U[0:1, :], (s1.nb, 1))
            dk = dk + ', the same on every x1 line'
        # how the caller stores the data is not part of the problem: row-major, column-major (x1 the fast index: the transpose of an
        # (x2, x1) table) or a strided window of a larger table
        mem = ('C', 'F', 'strided')[it // 4 % 3]
        if mem == 'F':
            U = np.asfortranarray(U)
        elif mem == 'strided':
            big = np.full((2 * s1.nb + 1, 3 * s2.nb), np.nan)
            big[1::2, ::3] = U
            U = big[1::2, ::3]
        case = {'space1': s1.desc(), 'space2': s2.desc(), 'data': dk, 'u': U.tolist(), 'memory_layout_of_the_data': mem}
        try:
            itp = SplineInterpolator2D(s1.basis, s2.basis)
            spl = Spline2D(s1.basis, s2.basis)
            if x2_only:
                itp.compute_interpolant(gen_data(rng, s1.nb * s2.nb, 'normal').reshape(s1.nb, s2.nb) + 3.0, spl)
            itp.compute_interpolant(U, spl)
        except Exception as e:  # noqa: BLE001
            chk.fail('C08:2d-raises', '2-D interpolation raised %s: %s' % (type(e).__name__, e), case)
            continue
        W = np.array(spl.coeffs)
        x1 = np.asarray(s1.basis.greville, dtype=float)
        x2 = np.asarray(s2.basis.greville, dtype=float)
        try:
            ev = np.array([[spl.eval(float(a), float(b)) for b in x2] for a in x1])
        except Exception as e:  # noqa: BLE001
            chk.fail('C08:2d-eval-raises', 'evaluating the 2-D interpolant at its interpolation points raised %s: %s' % (type(e).__name__, e), case)
            continue
        if not all_finite(W, ev, x1, x2):
            chk.fail('C08:non-finite', '2-D interpolation produced non-finite coefficients / values', case)
            continue
        # the table entry point writes into the array it is given, also when that array is a window of a larger one
        try:
            tab = np.full((2 * s1.nb, 2 * s2.nb + 1), np.nan)
            win = tab[::2, 1::2]
            spl.eval_vector(x1.copy(), x2.copy(), win)
            if not np.array_equal(win, tab[::2, 1::2]) or not np.allclose(tab[::2, 1::2], ev, rtol=1e-12, atol=1e-12 * max(1.0, float(np.abs(ev).max()))):
                chk.fail('C08:eval-vector-strided-output', 'Spline2D.eval_vector into a strided window of a larger table does not leave the values of the '
                         'interpolant at the interpolation points there', case)
        except Exception as e:  # noqa: BLE001
            chk.fail('C08:2d-eval-raises', 'Spline2D.eval_vector into a strided output raised %s: %s' % (type(e).__name__, e), case)
        # ---- oracle
        M1 = np.array([[float(v) for v in r] for r in oracle_matrix(s1, frs(x1))])
        M2 = np.array([[float(v) for v in r] for r in oracle_matrix(s2, frs(x2))])
        Wn = np.abs(W[:s1.nb, :s2.nb])
        scale = np.abs(M1) @ Wn @ np.abs(M2).T
        ratio = np.max(np.abs(ev - U) / (common.EPS * np.maximum(scale, 1e-300)))
        stats['oracle'] = max(stats.get('oracle', 0.0), float(ratio))
        if ratio > CN:
            i, j = np.unravel_index(np.argmax(np.abs(ev - U) / np.maximum(scale, 1e-300)), U.shape)
            chk.fail('C08:reproduce-2d', '2-D interpolant at interpolation point (%d,%d) differs from the datum' % (i, j), case,
                     float(U[i, j]), float(ev[i, j]))
        wrap_ok = True
        if per1:
            wrap_ok &= np.array_equal(W[s1.nb:s1.nb + s1.p, :], W[:s1.p, :])
        if per2:
            wrap_ok &= np.array_equal(W[:, s2.nb:s2.nb + s2.p], W[:, :s2.p])
        if not wrap_ok:
            chk.fail('C08:wrap-2d', '2-D periodic coefficients are not wrapped', case)
        # ---- correspondence.  Only the final array is observable: the model's two-sweep function is fed the real solution
        # block (sol1 := W[:n1,:n2]^T) and must rebuild the *whole* real array incl. both wraps exactly (pure data movement,
        # independent of how the solves are organised); the contract is the exact residual of M1 W M2^T = U.  The first
        # sweep's 1-D contract is measured on an own 1-D interpolator of direction 2.
        from pygyro.splines.splines import Spline1D
        from pygyro.splines.spline_interpolators import SplineInterpolator1D
        sp2 = Spline1D(s2.basis)
        it2 = SplineInterpolator1D(s2.basis)
        sol2 = np.zeros((s1.nb, s2.nb))
        for i1 in range(s1.nb):
            it2.compute_interpolant(U[i1, :], sp2)
            sol2[i1, :] = sp2.coeffs[:s2.nb]
        sol1 = W[:s1.nb, :s2.nb].T.copy()
        mo = drv.call({'op': 'interp2d', 'space1': s1.req, 'space2': s2.req, 'xgrid1': common.rats(x1),
                       'xgrid2': common.rats(x2), 'u': [common.rats(r) for r in U],
                       'sol2': [common.rats(r) for r in sol2], 'sol1': [common.rats(r) for r in sol1]})
        if mo.get('coeffs') is None:
            chk.diff('model could not build the 2-D collocation matrices', case)
            continue
        Wm = [[F(x) for x in r] for r in mo['coeffs']]
        if Wm != [frs(r) for r in W]:
            chk.diff('2-D coefficient array: wraps of the model applied to the real solution block differ from the real array', case,
                     [[float(x) for x in r] for r in Wm], W.tolist())
        for nm, sc in (('res2', 'scale2'), ('resU', 'scaleU')):
            R, Sc = mo[nm], mo[sc]
            for r_, s_ in zip(R, Sc):
                for a, b in zip(r_, s_):
                    a, b = F(a), F(b)
                    if b > 0:
                        stats[nm] = max(stats.get(nm, 0.0), float(abs(a) / (EPS * b)))
                    if abs(a) > F(CN) * EPS * b:
                        chk.diff('2-D solver contract %s' % nm, case, float(a), float(b))
                        break
        for i in range(s1.nb):
            for j in range(s2.nb):
                v = mo['values'][i][j]
                cuf = (1 + s1.nc + s2.nc) if s1.cu else 1
                if v is None or not common.close(ev[i, j], F(v), F(float(scale[i, j])) * cuf, 256):
                    chk.diff('2-D interpolant value at (%d,%d)' % (i, j), case, v, float(ev[i, j]))
                    break
        chk.case(('2d', s1.key(), s2.key(), dk), nontrivial=True,
                 sample={'space1': s1.desc(), 'space2': s2.desc(), 'data': dk} if it == 0 else None)
        chk.count('2-D %s x %s%s' % ('periodic' if per1 else 'clamped', 'periodic' if per2 else 'clamped', ' cu' if s1.cu else ''))
    chk.notes['solver_contract']['2-D largest ratios'] = stats


def reuse_sequences(chk):
    """the interpolant depends on the data of THIS call only: splines and interpolators are re-used (as in every time step /
    mode loop of the code), with data containing exact zeros — a vector of zeros after non-zero data, 2-D data with zero rows/columns"""
    from pygyro.splines.splines import Spline1D, Spline2D
    from pygyro.splines.spline_interpolators import SplineInterpolator1D, SplineInterpolator2D
    rng = chk.rng
    for it in range(chk.n(24, 200)):
        per = rng.random() < 0.5
        sp = gen_space(rng, per=per, kind=rng.choice(['cu', 'uniform', 'dyadic', 'random']) if True else None, maxcells=8)
        cplx = (not per) and rng.random() < 0.3
        dtype = complex if cplx else float
        mask = np.array([rng.random() < 0.5 for _ in range(sp.nb)])
        # also badly scaled data (interpolation is linear: the same relative accuracy at every magnitude)
        seq = [gen_data(rng, sp.nb, 'normal'), np.zeros(sp.nb), gen_data(rng, sp.nb, 'normal') * mask, np.zeros(sp.nb),
               gen_data(rng, sp.nb, 'normal') * 2.0 ** -rng.randint(60, 200), gen_data(rng, sp.nb, 'normal') * 2.0 ** rng.randint(60, 200)]
        xs = np.asarray(sp.basis.greville, dtype=float)
        try:
            itp = SplineInterpolator1D(sp.basis, dtype) if cplx else SplineInterpolator1D(sp.basis)
            spl = Spline1D(sp.basis, dtype) if cplx else Spline1D(sp.basis)
            buf = np.zeros(sp.nb, dtype=dtype)          # ONE data array, re-filled in place before every call (a work array of the caller)
            held = []                                   # results of array evaluations, kept by the caller across later calls
            for k, u in enumerate(seq):
                u = u.astype(dtype) * ((1 + 0.5j) if cplx else 1)
                if k % 2 == 1 or k >= 4:
                    buf[:] = u
                    u = buf
                if k in (1, 2):
                    # a query between two interpolations: asking for the quadrature weights may not change what the interpolator does
                    itp.get_quadrature_coefficients()
                itp.compute_interpolant(u, spl)
                vals = np.array([spl.eval(float(x)) for x in xs])
                scale = float(np.abs(u).max())
                if not cplx:
                    held.append((k, spl.eval(xs.copy()), np.array(u, dtype=float), scale))
                    spl.eval(xs.copy(), 1)              # a derivative evaluation at as many points afterwards
                if not np.all(np.abs(vals - u) <= 1e-9 * scale * sp.nb):
                    chk.fail('C08:reuse-1d', 're-using a spline/interpolator: the interpolant of call %d does not take the data of that call '
                             '(e.g. zero data after non-zero data)' % k, {'space': sp.desc(), 'call': k, 'data': [complex(x) if cplx else float(x) for x in u]},
                             actual=[complex(v) if cplx else float(v) for v in vals])
                    break
            for k, va, u0, scale in held:
                if not np.all(np.abs(np.asarray(va) - u0) <= 1e-9 * scale * sp.nb):
                    chk.fail('C08:held-eval', 'the array returned by spl.eval(points) after call %d no longer holds the data of that call once '
                             'the same spline has been interpolated / evaluated again (the result is not the caller\'s own array)' % k,
                             {'space': sp.desc(), 'call': k, 'data': [float(x) for x in u0]}, actual=[float(v) for v in np.asarray(va)])
                    break
            # element types of the data: single precision (real / complex) values are exact doubles; the interpolant must take them
            for dt_ in ((np.complex64, np.float32) if cplx else (np.float32,)):
                u = (gen_data(rng, sp.nb, 'normal') * ((1 + 0.5j) if cplx else 1)).astype(dt_ if (cplx or dt_ == np.float32) else float)
                if dt_ == np.float32 and cplx:
                    u = gen_data(rng, sp.nb, 'normal').astype(np.float32)
                itp.compute_interpolant(u, spl)
                vals = np.array([spl.eval(float(x)) for x in xs])
                ref = u.astype(complex if cplx else float)
                if not np.all(np.abs(vals - ref) <= 1e-6 * float(np.abs(ref).max()) * sp.nb):
                    chk.fail('C08:data-dtype', 'data given as %s: the interpolant does not take the data values' % np.dtype(dt_).name,
                             {'space': sp.desc(), 'dtype': np.dtype(dt_).name, 'data': [complex(x) if cplx else float(x) for x in ref]},
                             actual=[complex(v) if cplx else float(v) for v in vals])
        except Exception as e:  # noqa: BLE001
            chk.fail('C08:reuse-raises', 'interpolating a sequence of data sets raised %s: %s' % (type(e).__name__, e), {'space': sp.desc()})
        chk.case(('reuse1d', it, per, cplx), nontrivial=True)
        chk.count('re-use sequences 1-D')
    for it in range(chk.n(12, 100)):
        per1, per2 = rng.random() < 0.5, rng.random() < 0.5
        k = ['uniform', 'dyadic', 'random']
        s1 = gen_space(rng, per=per1, kind=rng.choice(k), maxcells=6, allow_min=False)
        s2 = gen_space(rng, per=per2, kind=rng.choice(k), maxcells=6, allow_min=False)
        if s1.cu != s2.cu:
            continue
        U = gen_data(rng, s1.nb * s2.nb, 'normal').reshape(s1.nb, s2.nb)
        U[rng.randrange(1, s1.nb):, :] = 0.0            # exact zero rows after non-zero ones
        if rng.random() < 0.5:
            U[:, rng.randrange(s2.nb)] = 0.0
        try:
            itp = SplineInterpolator2D(s1.basis, s2.basis)
            spl = Spline2D(s1.basis, s2.basis)
            for rep in range(2):
                itp.compute_interpolant(U if rep == 0 else U[::-1].copy(), spl)
            Ulast = U[::-1]
            x1 = np.asarray(s1.basis.greville, dtype=float)
            x2 = np.asarray(s2.basis.greville, dtype=float)
            ev = np.array([[spl.eval(float(a), float(b)) for b in x2] for a in x1])
            if not np.all(np.abs(ev - Ulast) <= 1e-8 * max(1.0, float(np.abs(U).max())) * s1.nb * s2.nb):
                chk.fail('C08:reuse-2d', '2-D data with exactly-zero rows / a second call on the same objects: the interpolant does not take its data',
                         {'space1': s1.desc(), 'space2': s2.desc(), 'u': Ulast.tolist()}, actual=ev.tolist())
        except Exception as e:  # noqa: BLE001
            chk.fail('C08:reuse-raises', '2-D interpolation of data with zero rows raised %s: %s' % (type(e).__name__, e),
                     {'space1': s1.desc(), 'space2': s2.desc()})
        chk.case(('reuse2d', it), nontrivial=True)
        chk.count('re-use sequences 2-D')
    # long directions (hundreds of points along one direction, as in production grids): any blocking / batching of the 1-D solves
    for it in range(chk.n(2, 10)):
        long_first = it % 2 == 1
        nlong = rng.choice([257, 300, 384, 513, 600]) if it % 3 else rng.randint(258, 700)
        per_l, per_s = rng.random() < 0.5, rng.random() < 0.5
        cu = rng.random() < 0.5
        from pygyro.splines.splines import BSplines, make_knots
        def space(n, per):
            d = 3 if cu else rng.choice([1, 2, 3])
            nc = n if per else n - d
            br = np.linspace(0.0, 1.0 + rng.randint(0, 3), nc + 1)
            if not cu:
                br[1:-1] += (np.array([rng.random() for _ in range(nc - 1)]) - 0.5) * 0.3 * (br[1] - br[0])
            return BSplines(make_knots(br, d, per), d, per, cu)
        bl, bs = space(nlong, per_l), space(rng.randint(4, 7), per_s)
        b1, b2 = (bl, bs) if long_first else (bs, bl)
        U = np.array([[rng.gauss(0, 1) for _ in range(b2.nbasis)] for _ in range(b1.nbasis)])
        case = {'nbasis': [int(b1.nbasis), int(b2.nbasis)], 'degrees': [int(b1.degree), int(b2.degree)], 'periodic': [bool(b1.periodic), bool(b2.periodic)],
                'cubic_uniform': cu, 'breaks1': [float(x) for x in b1.breaks], 'breaks2': [float(x) for x in b2.breaks], 'u': U.tolist()}
        try:
            itp = SplineInterpolator2D(b1, b2)
            spl = Spline2D(b1, b2)
            itp.compute_interpolant(U, spl)
            ev = np.empty_like(U)
            spl.eval_vector(np.asarray(b1.greville, float).copy(), np.asarray(b2.greville, float).copy(), ev)
            err = np.abs(ev - U)
            if not np.all(err <= 1e-7 * float(np.abs(U).max())):
                i, j = np.unravel_index(int(np.argmax(err)), err.shape)
                chk.fail('C08:long-2d', '2-D interpolation with %d x %d points: the interpolant misses its data by %.3g at point (%d,%d)'
                         % (b1.nbasis, b2.nbasis, float(err.max()), i, j), case)
        except Exception as e:  # noqa: BLE001
            chk.fail('C08:long-2d-raises', '2-D interpolation with a long direction raised %s: %s' % (type(e).__name__, e), case)
        chk.case(('long2d', it, nlong, long_first), nontrivial=True)
        chk.count('2-D cases with a long direction')


def mixed_dtypes(chk):
    """the receiving spline need not have the interpolator's dtype: a real interpolator may fill a complex spline (the result is the
    real interpolant, imaginary part zero)"""
    from pygyro.splines.splines import Spline1D
    from pygyro.splines.spline_interpolators import SplineInterpolator1D
    rng = chk.rng
    for it in range(chk.n(16, 160)):
        sp = gen_space(rng, per=(rng.random() < 0.3), maxcells=8)
        u = gen_data(rng, sp.nb, 'normal')
        xs = np.asarray(sp.basis.greville, dtype=float)
        case = dict(sp.desc(), data=[float(x) for x in u], interpolator='float', spline='complex')
        try:
            itp = SplineInterpolator1D(sp.basis)
            spl = Spline1D(sp.basis, complex)
            spl.coeffs[:] = 3.0 - 2.0j          # previous content
            itp.compute_interpolant(u, spl)
            vals = np.array([complex(spl.eval(float(x))) for x in xs])
        except Exception as e:  # noqa: BLE001
            chk.fail('C08:mixed-dtype-raises', 'real interpolator into a complex spline raised %s: %s' % (type(e).__name__, e), case)
            continue
        if not np.all(np.abs(vals - u) <= 1e-9 * max(1.0, float(np.abs(u).max())) * sp.nb):
            chk.fail('C08:mixed-dtype', 'a real interpolator filling a complex spline: the interpolant does not take its data', case,
                     expected=[float(x) for x in u], actual=[complex(v) for v in vals])
        chk.case(('mixed', it), nontrivial=True)
        chk.count('mixed dtype cases')


def run(chk):
    common.use_repo(sim_mpi=False)
    chk.rule = ('spaces: degree 1-5, clamped/periodic, uniform (cubic fast path and general path), dyadic non-uniform, random '
                'non-uniform, 1..12 cells incl. every minimal size (1-2 cells clamped, ncells=degree and degree+1 periodic); data: '
                'normal, per-entry 2^±30, 2^30, 2^-30, small integers, complex (clamped), polynomials (clamped); 2-D: all four '
                'clamped/periodic combinations; distinct by (degree, boundary, kind, cells, data kind)')
    chk.proof_side(build=not getattr(chk, 'no_build', False), extra_props=('C08Extra',))
    drv = common.LeanDriver('C08.lean')
    try:
        knots_and_points(chk, drv)
        interp_1d(chk, drv)
        banded(chk, drv)
        complex_1d(chk, drv)
        polynomials(chk, drv)
        interp_2d(chk, drv)
        reuse_sequences(chk)
        mixed_dtypes(chk)
        import optflag
        optflag.compare(chk, 'c08', 'C08')
    finally:
        drv.close()
    chk.assumptions = [
        'LAPACK dgbtrf/dgbtrs, zgbtrf/zgbtrs and SuperLU splu are contracts: M c = u; the exact residual of what they returned is '
        'measured on every case and accepted within CN*eps*sum_j|M_ij||c_j| (CN = %g)' % CN,
        'np.around(x, decimals=15) in BSplines.greville is not modelled; the real points are compared with the exact Greville '
        'averages within 1e-15 + rounding and are then the input of the collocation model (as they are of collocation_matrix)',
        'polynomial reproduction: proved only under unisolvence + given spline coefficients of the polynomial '
        '(poly_reproduction_partial); otherwise exact-Q tests of the model and the oracle on the real code',
        'periodic spaces with ncells == degree: the model follows the repaired collocation matrix (accumulate); the unpatched '
        'behaviour is the witness Props/C08.lastWins_loses_entry',
    ]
    return finish_local(chk, LOCAL_KNOWN)
