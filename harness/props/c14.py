"""C14 — elliptic solver returns the per-mode Galerkin solution of the radial equation.

(shared helpers for c15.py / c16.py live at the top of this file)
"""
from fractions import Fraction as Fr

import numpy as np

import common

LEVEL = 'other'


# ------------------------------------------------------------------------------------------------
# shared helpers (C14, C15, C16)

def make_setup(npts, degrees, uniform_flag=True, rrange=None, vrange=None, period=(False, True, True, False), **consts):
    """splines / eta grids exactly as pygyro.initialisation.setups builds them (but any sizes, degrees, flag)"""
    common.use_repo()
    from pygyro.splines.splines import make_knots, BSplines
    from pygyro.initialisation.constants import Constants
    c = Constants()
    for k, v in consts.items():
        setattr(c, k, v)
    if rrange is not None:
        c.rMin, c.rMax = rrange
    if vrange is not None:
        c.vMin, c.vMax = vrange
    nd = len(npts)
    domain = [[c.rMin, c.rMax], [0, 2 * np.pi], [c.zMin, c.zMax], [c.vMin, c.vMax]][:nd]
    period = list(period)[:nd]
    nkts = [n + 1 + d * (int(p) - 1) for n, d, p in zip(npts, degrees, period)]
    breaks = [np.linspace(*l, num=n) for l, n in zip(domain, nkts)]
    knots = [make_knots(b, int(d), p) for b, d, p in zip(breaks, degrees, period)]
    bs = [BSplines(k, int(d), p, uniform_flag) for k, d, p in zip(knots, degrees, period)]
    eta = [b.greville for b in bs]
    if nd == 4:
        c.npts = list(npts)
    return {'eta': eta, 'bsplines': bs, 'constants': c, 'breaks': breaks, 'knots': knots, 'npts': list(npts),
            'degrees': list(degrees)}


def frac_knots(bs):
    """exact rational knot vector of a (non-periodic) BSplines object, also for the cubic-uniform storage"""
    from pygyro.splines.splines import make_knots
    if bs.cubic_uniform:
        kn = make_knots(bs.breaks, 3, bs.periodic)
    else:
        kn = bs.knots
    return [Fr(float(k)) for k in kn]


def frac_basis(kn, d, j, x, der=0):
    """exact Cox-de Boor value (or first derivative) of basis function j of degree d at x; clamped knots, the
    last non-empty knot interval is closed on the right"""
    if der == 1:
        a = kn[j + d] - kn[j]
        b = kn[j + d + 1] - kn[j + 1]
        return d * ((frac_basis(kn, d - 1, j, x) / a if a else 0) - (frac_basis(kn, d - 1, j + 1, x) / b if b else 0))
    if d == 0:
        last = max(i for i in range(len(kn) - 1) if kn[i] < kn[i + 1])
        if kn[j] <= x < kn[j + 1] or (j == last and x == kn[j + 1]):
            return Fr(1)
        return Fr(0)
    a = kn[j + d] - kn[j]
    b = kn[j + d + 1] - kn[j + 1]
    return ((x - kn[j]) / a * frac_basis(kn, d - 1, j, x) if a else 0) + \
           ((kn[j + d + 1] - x) / b * frac_basis(kn, d - 1, j + 1, x) if b else 0)


def frac_solve(A, B):
    """exact solution X of A X = B (A n x n, B n x m lists of Fractions) by Gauss-Jordan with pivot search"""
    n = len(A)
    m = len(B[0])
    M = [list(A[i]) + list(B[i]) for i in range(n)]
    for c in range(n):
        p = next(r for r in range(c, n) if M[r][c] != 0)
        M[c], M[p] = M[p], M[c]
        pv = M[c][c]
        M[c] = [v / pv for v in M[c]]
        for r in range(n):
            if r != c and M[r][c] != 0:
                f = M[r][c]
                M[r] = [a - f * b for a, b in zip(M[r], M[c])]
    return [row[n:n + m] for row in M]


def frac_inverse(A):
    n = len(A)
    return frac_solve(A, [[Fr(int(i == j)) for j in range(n)] for i in range(n)])
