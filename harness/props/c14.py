"""C14 — elliptic solver returns the per-mode Galerkin solution of the radial equation.

(shared helpers for c15.py / c16.py live at the top of this file)
"""
from fractions import Fraction as Fr

import numpy as np

import common

LEVEL = 'proof'


# ------------------------------------------------------------------------------------------------
# shared helpers (C14, C15, C16)

def make_setup(npts, degrees, uniform_flag=True, rrange=None, vrange=None, period=(False, True, True, False), vbreaks=None, rbreaks=None,
               **consts):
    """splines / eta grids exactly as pygyro.initialisation.setups builds them (but any sizes, degrees, flag)"""
    common.use_repo()
    from pygyro.splines.splines import make_knots, BSplines
    from pygyro.initialisation.constants import Constants
    c = Constants()
    for k, v in consts.items():
        setattr(c, k, v)
    if rrange is not None:
        c.rMin, c.rMax = rrange
    if vrange is not None:
        c.vMin, c.vMax = vrange
    nd = len(npts)
    domain = [[c.rMin, c.rMax], [0, 2 * np.pi], [c.zMin, c.zMax], [c.vMin, c.vMax]][:nd]
    period = list(period)[:nd]
    nkts = [n + 1 + d * (int(p) - 1) for n, d, p in zip(npts, degrees, period)]
    breaks = [np.linspace(*l, num=n) for l, n in zip(domain, nkts)]
    if rbreaks is not None:
        # the caller's own radial break points (graded grids): a function nkts, lo, hi -> increasing array with the end points lo, hi
        breaks[0] = np.asarray(rbreaks(nkts[0], c.rMin, c.rMax), dtype=float)
    if vbreaks is not None and nd == 4:
        # the caller's own break points along v (graded / asymmetric grids): a function nkts -> increasing array on [vMin, vMax]
        breaks[3] = np.asarray(vbreaks(nkts[3], c.vMin, c.vMax), dtype=float)
    knots = [make_knots(b, int(d), p) for b, d, p in zip(breaks, degrees, period)]
    bs = [BSplines(k, int(d), p, uniform_flag) for k, d, p in zip(knots, degrees, period)]
    eta = [b.greville for b in bs]
    if nd == 4:
        c.npts = list(npts)
    return {'eta': eta, 'bsplines': bs, 'constants': c, 'breaks': breaks, 'knots': knots, 'npts': list(npts),
            'degrees': list(degrees)}


def frac_knots(bs):
    """exact rational knot vector of a (non-periodic) BSplines object, also for the cubic-uniform storage"""
    from pygyro.splines.splines import make_knots
    if bs.cubic_uniform:
        kn = make_knots(bs.breaks, 3, bs.periodic)
    else:
        kn = bs.knots
    return [Fr(float(k)) for k in kn]


def frac_basis(kn, d, j, x, der=0):
    """exact Cox-de Boor value (or first derivative) of basis function j of degree d at x; clamped knots, the
    last non-empty knot interval is closed on the right"""
    if der == 1:
        a = kn[j + d] - kn[j]
        b = kn[j + d + 1] - kn[j + 1]
        return d * ((frac_basis(kn, d - 1, j, x) / a if a else 0) - (frac_basis(kn, d - 1, j + 1, x) / b if b else 0))
    if d == 0:
        last = max(i for i in range(len(kn) - 1) if kn[i] < kn[i + 1])
        if kn[j] <= x < kn[j + 1] or (j == last and x == kn[j + 1]):
            return Fr(1)
        return Fr(0)
    a = kn[j + d] - kn[j]
    b = kn[j + d + 1] - kn[j + 1]
    return ((x - kn[j]) / a * frac_basis(kn, d - 1, j, x) if a else 0) + \
           ((kn[j + d + 1] - x) / b * frac_basis(kn, d - 1, j + 1, x) if b else 0)


def frac_solve(A, B):
    """exact solution X of A X = B (A n x n, B n x m lists of Fractions) by Gauss-Jordan with pivot search"""
    n = len(A)
    m = len(B[0])
    M = [list(A[i]) + list(B[i]) for i in range(n)]
    for c in range(n):
        p = next(r for r in range(c, n) if M[r][c] != 0)
        M[c], M[p] = M[p], M[c]
        pv = M[c][c]
        M[c] = [v / pv for v in M[c]]
        for r in range(n):
            if r != c and M[r][c] != 0:
                f = M[r][c]
                M[r] = [a - f * b for a, b in zip(M[r], M[c])]
    return [row[n:n + m] for row in M]


def frac_inverse(A):
    n = len(A)
    return frac_solve(A, [[Fr(int(i == j)) for j in range(n)] for i in range(n)])


# ------------------------------------------------------------------------------------------------
# C14 proper

EPS = Fr(common.EPS)
# accepted ratios (in units of eps * scale); the observed maxima on the unchanged tree are printed in the evidence
C_MATRIX = 1024      # |attribute entry - model entry| / (eps * sum|terms|)
C_RESIDUAL = 1 << 12  # |A xhat - b| / (eps * (rowabs(A) max|xhat| + rowabs(Mass) max|c|)), third-party LU + interpolation + evaluation
C_ORACLE = 1 << 14  # same residual, formed in floating point with the independent dense numpy assembly
C_ZERO = 64         # |phi at a Dirichlet boundary| / (eps * max|phi|)


SIG_FUNC_E = 'C14:function-rhs-ignores-rhoFactor'
WHAT_FUNC_E = ('DiffEqSolver.solveEquationForFunction ignores rhoFactor: with a function right-hand side and rhoFactor != 1 it solves '
               '"... = rho" instead of "... = E rho" (the discrete entry point solveEquation applies E through the mass matrix)')


def known_or_fail(chk, sig, what, case, expected=None, actual=None):
    """genuine defect of /repo with a proposed patch (notes/patch_C14_funcrhs_rhofactor.diff).  If KNOWN_FINDINGS.json
    lists the signature the central protocol decides (KNOWN-FINDING / VIOLATION when marked fixed); until it is listed
    there the finding is reported here as KNOWN-FINDING without failing the run (local copy of the mechanism)."""
    if any(e.get('signature') == sig for e in common.known_findings(chk.pid)):
        chk.fail(sig, what, case, expected, actual)
        return
    if sig not in chk.known_printed:
        chk.known_printed.add(sig)
        print('KNOWN-FINDING: property=%s %s' % (chk.pid, what))
        chk.notes.setdefault('local_known_findings', []).append({'signature': sig, 'what': what, 'first_case': case})
    chk.count('KNOWN ' + sig)


def lam(kind, *p):
    """coefficient functions as plain Python callables (the solver np.vectorize's them)"""
    if kind == 'const':
        return lambda r: p[0]
    if kind == 'lin':
        return lambda r: p[0] + p[1] * r
    if kind == 'inv':
        return lambda r: p[0] / r
    if kind == 'inv2':
        return lambda r: p[0] / r ** 2
    if kind == 'invlin':
        return lambda r: -(1 / r + p[0] * r)
    if kind == 'quad':
        return lambda r: p[0] + p[1] * r * r
    if kind == 'exp':
        return lambda r: p[0] * float(np.exp(-p[1] * r)) + p[2]
    if kind == 'hinge':
        # a Python int on the inner part of the domain, floats beyond (continuous): the type of the first value is not the type of all
        return lambda r: p[0] if r < p[1] else p[0] + p[2] * (r - p[1])
    raise ValueError(kind)


def rand_coefs(rng, manufactured=False):
    """returns dict arg-name -> (spec, callable); absent key = constructor default"""
    c = {}
    if manufactured:
        if rng.random() < 0.7:
            c['ddrFactor'] = ('const', rng.choice([-1.0, 1.0, -2.5, 0.5]))
        if rng.random() < 0.7:
            c['drFactor'] = ('const', rng.choice([0.75, -1.5, 2.0]))
        c['rFactor'] = ('const', rng.choice([0.0, 1.25, 3.0, 0.5]))
        c['ddThetaFactor'] = ('const', rng.choice([-1.0, 0.0, -0.5, 0.25]))
        if rng.random() < 0.5:
            c['rhoFactor'] = ('const', rng.choice([1.0, 2.0, -0.5]))
    else:
        if rng.random() < 0.6:
            c['ddrFactor'] = ('const', rng.choice([-1.0, 1.0, -2.5, 0.5]))
        if rng.random() < 0.75:
            c['drFactor'] = rng.choice([('const', 0.75), ('inv', -1.0), ('invlin', 0.1), ('lin', 0.3, -0.2), ('const', 0.0)])
        if rng.random() < 0.75:
            c['rFactor'] = rng.choice([('const', 2.0), ('lin', 1.0, 0.5), ('exp', 1.0, 0.3, 0.5), ('const', 0.0), ('quad', 0.5, 0.1)])
        if rng.random() < 0.75:
            c['ddThetaFactor'] = rng.choice([('inv2', -1.0), ('const', -1.0), ('const', 0.0), ('lin', -1.0, -0.1)])
        if rng.random() < 0.6:
            c['rhoFactor'] = rng.choice([('quad', 1.0, 1.0), ('const', 2.0), ('exp', 1.0, 0.2, 0.1), ('inv', 1.0)])
    return {k: (v, lam(*v)) for k, v in c.items()}


DEFAULTS = {'ddrFactor': lambda r: -1, 'drFactor': lambda r: 0, 'rFactor': lambda r: 0,
            'ddThetaFactor': lambda r: -1, 'rhoFactor': lambda r: 1}
ARGS = ['ddrFactor', 'drFactor', 'rFactor', 'ddThetaFactor', 'rhoFactor']


def coef_callables(coefs):
    return [coefs[k][1] if k in coefs else DEFAULTS[k] for k in ARGS]


def mvals(N):
    return [k if k < (N - 1) // 2 + 1 else k - N for k in range(N)]


def gauss_setup(rs_breaks, qdeg):
    """Gauss points on the cells, computed the way the property states it (affine image of leggauss(n) on each
    cell, n = degree//2+1); floats"""
    from numpy.polynomial.legendre import leggauss
    n = qdeg // 2 + 1
    pts, wts = leggauss(n)
    br = np.asarray(rs_breaks, float)
    mult = (br[1:] - br[:-1]) * 0.5          # one half-width per cell (the cells may have different lengths)
    ev = ((br[1:] + br[:-1]) * 0.5)[:, None] + pts[None, :] * mult[:, None]
    return pts, wts, mult, ev


def solver_request(rs, qdeg, fns, extra):
    """the `solver` request of Drivers/C14.lean for radial spline `rs` (the non-cubic-uniform one the solver uses)"""
    kn = frac_knots(rs)
    pts, wts, mult, ev = gauss_setup(rs.breaks, qdeg)
    tabs = {k: [[common.rat(float(f(float(x)))) for x in row] for row in ev] for k, f in zip('ABCDE', fns)}
    req = {'op': 'solver', 'knots': [str(k) for k in kn], 'degree': int(rs.degree), 'ncells': int(rs.ncells),
           'weights': common.rats(wts), 'mult': common.rats(mult), 'evalpts': [common.rats(r) for r in ev]}
    req.update(tabs)
    req.update(extra)
    return req, ev


def fr_matrix(m):
    return [[Fr(v) for v in row] for row in m]


def collocation_tools(rs, nodes):
    """exact collocation matrix at the radial nodes and its exact inverse"""
    kn, d = frac_knots(rs), rs.degree
    xs = [Fr(float(x)) for x in nodes]
    M = [[frac_basis(kn, d, j, x) for j in range(rs.nbasis)] for x in xs]
    return M, frac_inverse(M)


def fr_matvec(M, v):
    return [sum(a * b for a, b in zip(row, v) if a) for row in M]


# ---- independent dense Galerkin assembly (oracle; numpy/scipy only, no pygyro spline code, no Lean)

def oracle_assembly(knots, d, breaks, qdeg, fns):
    from numpy.polynomial.legendre import leggauss
    from scipy.interpolate import BSpline
    n = qdeg // 2 + 1
    pts, wts = leggauss(n)
    t = np.asarray(knots, float)
    nb = len(t) - d - 1
    eye = np.eye(nb)
    Bs = [BSpline(t, eye[j], d) for j in range(nb)]
    dBs = [b.derivative(1) for b in Bs]
    fA, fB, fC, fD, fE = [np.vectorize(f, otypes=[float]) for f in fns]
    mass = np.zeros((nb, nb))
    k2 = np.zeros((nb, nb))
    stiff = np.zeros((nb, nb))
    pts_all, w_all = [], []
    for a, b in zip(breaks[:-1], breaks[1:]):
        x = 0.5 * (a + b) + 0.5 * (b - a) * pts
        w = 0.5 * (b - a) * wts
        pts_all.append(x)
        w_all.append(w)
        P = np.array([bj(x) for bj in Bs])       # nb x nq, P[j] = B_j(x)
        dP = np.array([bj(x) for bj in dBs])
        # row = test function i, column = trial function j
        mass += (P * (w * fE(x) * x)) @ P.T
        k2 += (P * (w * fD(x) * x)) @ P.T
        stiff += (dP * (w * -fA(x) * x)) @ dP.T          # -A phi_j' psi_i' r
        stiff += (P * (w * -fA(x))) @ dP.T               # -A phi_j' psi_i
        stiff += (P * (w * fB(x) * x)) @ dP.T            # B phi_j' psi_i r
        stiff += (P * (w * fC(x) * x)) @ P.T             # C phi_j psi_i r
    return {'mass': mass, 'k2': k2, 'stiff': stiff, 'nb': nb, 'x': np.concatenate(pts_all), 'w': np.concatenate(w_all),
            'Bs': Bs}


def oracle_colloc(knots, d, nodes):
    from scipy.interpolate import BSpline
    t = np.asarray(knots, float)
    nb = len(t) - d - 1
    eye = np.eye(nb)
    return np.array([BSpline(t, eye[j], d)(np.asarray(nodes, float)) for j in range(nb)]).T


def build_case(chk, rng, it):
    d = rng.choice([1, 2, 3, 3, 4, 5])
    ncells = rng.randint(1, 6)
    if rng.random() < 0.15:
        ncells = rng.choice([1, 2])
    nr = ncells + d
    uniform_flag = rng.random() < 0.6
    N = rng.randint(1, 7)
    nz = rng.randint(1, 3)
    qdeg = rng.choice([2 * d, 2 * d + 1, 2 * d + 2, max(1, d), 3, 1])
    manufactured = rng.random() < 0.35 and d >= 2 and it % 8 != 5 and it % 9 != 4
    if it % 9 == 4:
        N = rng.randint(5, 7)
    if manufactured:
        qdeg = rng.choice([2 * d, 2 * d + 1, 2 * d + 3])
    coefs = rand_coefs(rng, manufactured)
    big_n = it % 10 == 9
    if big_n:
        # a poloidal size for which fftfreq(n, 1/n) is not exactly integer-valued (1.0000000000000002 for m = 1): the boundary
        # choices per mode are given as integers (finding F20)
        N, nz, d, ncells, manufactured = 49, 1, min(d, 2), min(ncells, 2), False
        nr = ncells + d
        qdeg = 2 * d
        coefs = rand_coefs(rng, False)
    mv = mvals(N)
    style = rng.choice(['none', 'all_l', 'all_u', 'qn', 'random', 'random', 'both', 'asym', 'asym'])
    if big_n:
        style = rng.choice(['asym', 'random'])
    if style == 'asym' and N < 3:
        N = rng.randint(3, 7)
        mv = mvals(N)
    if manufactured:
        style = rng.choice(['none', 'all_l', 'all_u', 'both'])
    extra = [rng.randint(8, 12), -9]
    if it % 7 == 3 and not manufactured and N >= 3:
        # 'the first k modes': a list of numbers 0..k-1 with k beyond N/2 - the entries above N/2 (and, for even N, +N/2 itself: the
        # Nyquist mode is stored as -N/2) are no mode numbers of the table and name no mode
        style = 'first_k'
    if it % 9 == 4 and not manufactured and not big_n and N >= 5:
        # one mode m != 0 with Neumann conditions at both ends: ill-posed exactly when the reaction term of THAT mode, C - m^2 D,
        # vanishes (C = m^2 D != 0: to be refused), well-posed when C = 0 and D != 0 (to be accepted and solved) - finding F33
        m_ = [1, 2, -1, -2][it // 9 % 4]
        ill = it // 9 % 2 == 0
        coefs['ddThetaFactor'] = (('inv2', -1.0), lam('inv2', -1.0))
        coefs['rFactor'] = (('inv2', -float(m_ * m_)), lam('inv2', -float(m_ * m_))) if ill else (('const', 0.0), lam('const', 0.0))
        style = 'one_pure_neumann_mode'
        lneu, uneu = [m_], [m_]
    elif style == 'first_k':
        kk = rng.randint(N // 2 + 1, N)
        lneu, uneu = (list(range(kk)), []) if it % 2 else ([], list(range(kk)))
    elif style == 'none':
        lneu, uneu = [], []
    elif style == 'all_l':
        lneu, uneu = list(mv), []
    elif style == 'all_u':
        lneu, uneu = [], list(mv)
    elif style == 'qn':
        lneu, uneu = [0], []
    elif style == 'both':
        lneu, uneu = list(mv), list(mv)
    elif style == 'asym':
        # boundary choices that are NOT symmetric in +-m: mode +m Neumann at one end, mode -m at the other (or only one of them)
        pos = [m for m in mv if m > 0 and -m in mv]
        m = rng.choice(pos) if pos else 0
        lneu, uneu = ([m], [-m]) if rng.random() < 0.6 else ([m], [])
        if rng.random() < 0.5:
            lneu, uneu = uneu, lneu
    else:
        lneu = [m for m in mv if rng.random() < 0.4] + ([rng.choice(extra)] if rng.random() < 0.3 else [])
        uneu = [m for m in mv if rng.random() < 0.4] + ([rng.choice(extra)] if rng.random() < 0.3 else [])
        rng.shuffle(lneu)
        rng.shuffle(uneu)
    rrange = rng.choice([(1.0, 3.0), (0.1, 14.5), (2.0, 9.0), (0.5, 1.5)])
    func_rhs = rng.random() < 0.3
    if it % 8 == 5 and not big_n:
        # a coefficient function that returns a Python int on a part of the domain (finding F24)
        j = it // 8 % 4
        # (the hinge point is put on an interior break point of the radial grid once the grid is known - `place_hinge` -: at a point
        # within rounding of a quadrature point the value of such a function is 100 % sensitive to the rounding of the point itself)
        spec = ('hinge', [0, 1, -1, 2][j], rrange[0] + 0.37 * (rrange[1] - rrange[0]), [0.75, -0.5, 0.6, 1.5][j] / (rrange[1] - rrange[0]))
        coefs[['drFactor', 'rFactor', 'ddThetaFactor', 'rhoFactor'][j]] = (spec, lam(*spec))
    grids = [(1,)] + [(p,) for p in range(2, 7) if p <= N] + [(p, q) for p in range(1, 5) for q in range(2, 4)
                                                                if p * q <= 6 and p <= N and q <= nz]
    nprocs = rng.choice(grids)
    return {'d': d, 'ncells': ncells, 'nr': nr, 'uniform_flag': uniform_flag, 'N': N, 'nz': nz, 'qdeg': qdeg,
            'coefs': coefs, 'lneu': lneu, 'uneu': uneu, 'rrange': rrange, 'func_rhs': func_rhs,
            'manufactured': manufactured, 'nprocs': list(nprocs), 'seed': rng.randrange(1 << 30), 'style': style,
            # radial break points graded towards one end on a third of the cases (cells of different lengths)
            'graded_r': ncells >= 2 and it % 3 == 1}


def case_desc(cs):
    out = {k: cs[k] for k in ('d', 'ncells', 'nr', 'uniform_flag', 'N', 'nz', 'qdeg', 'lneu', 'uneu', 'rrange',
                              'func_rhs', 'manufactured', 'nprocs', 'seed', 'graded_r')}
    out['coefs'] = {k: v[0] for k, v in cs['coefs'].items()}
    return out


def run_solver(cs, S, rho_global, rho_func=None, want_attrs=True, float_lists=False):
    """real DiffEqSolver on the simulated ranks; rho_global[N, nz, nr] complex (mode space)"""
    from mpi4py import MPI
    from pygyro.model.layout import getLayoutHandler
    from pygyro.model.grid import Grid
    from pygyro.poisson.poisson_solver import DiffEqSolver
    eta, bs = S['eta'], S['bsplines']
    nprocs = cs['nprocs']
    kwargs = {k: v[1] for k, v in cs['coefs'].items()}
    lneu = [float(m) for m in cs['lneu']] if float_lists else list(cs['lneu'])
    uneu = [float(m) for m in cs['uneu']] if float_lists else list(cs['uneu'])

    def body():
        comm = MPI.COMM_WORLD
        try:
            ps = DiffEqSolver(cs['qdeg'], bs[0], cs['nr'], cs['N'], lNeumannIdx=lneu, uNeumannIdx=uneu, **kwargs)
        except ValueError as e:
            return {'refused': str(e)}
        h = getLayoutHandler(comm, {'mode_solve': [1, 2, 0]}, list(nprocs), eta)
        phi = Grid(eta, bs, h, 'mode_solve', comm, dtype=np.complex128)
        rho = Grid(eta, bs, h, 'mode_solve', comm, dtype=np.complex128)
        L = phi.getLayout('mode_solve')
        sl = (slice(L.starts[0], L.ends[0]), slice(L.starts[1], L.ends[1]))
        rho._f[:] = rho_global[sl]
        phi._f[:] = 1e300
        if rho_func is not None and getattr(rho_func, 'direct', False):
            # the caller's function is handed over as it is (it may return its own argument, or an array it keeps): twice
            ps.solveEquationForFunction(phi, rho_func)
            phi._f[:] = 1e300
            ps.solveEquationForFunction(phi, rho_func)
        elif rho_func is not None:
            # a right-hand side whose values change between two calls while the callable stays the same object (a source with a
            # time-dependent amplitude): the second call must solve for the values of the second call
            class Source:
                def __init__(self, amp):
                    self.amp = amp

                def __call__(self, r):
                    return self.amp * rho_func(r)
            src = Source(0.37)
            ps.solveEquationForFunction(phi, src)
            src.amp = 1.0
            ps.solveEquationForFunction(phi, src)
        else:
            ps.solveEquation(phi, rho)
        out = {'starts': [int(x) for x in L.starts], 'phi': np.array(phi._f), 'rho_after': np.array(rho._f),
               'rho_in': np.array(rho_global[sl])}
        if want_attrs and comm.Get_rank() == 0:
            at = {}
            try:
                at['mass'] = ps._massMatrix.toarray()
                at['k2'] = ps._k2PhiPsi.toarray()
                at['phipsi'] = ps._PhiPsi.toarray()
                at['dphidpsi'] = ps._dPhidPsi.toarray()
                at['dphipsi'] = ps._dPhiPsi.toarray()
                at['stiffness'] = ps._stiffnessMatrix.toarray()
                at['coeff_range'] = [[int(s.start), int(s.stop)] for s in ps._coeff_range]
                at['stiff_range'] = [[int(s.start), int(s.stop)] for s in ps._stiffness_range]
                at['m2'] = [float(x) for x in ps._mVals]
                at['n_unknowns'] = int(ps._nUnknowns)
            except AttributeError as e:
                at = {'unavailable': str(e)}
            out['attrs'] = at
        return out
    return MPI.run(int(np.prod(nprocs)), body, policy='random', seed=cs['seed'] & 0xffff)


class RealCodeRaised(Exception):
    """the real solver raised on a legal configuration inside one of the follow-up oracle runs"""


def gather_phi(res, shape):
    if not res.ok:
        raise RealCodeRaised(str(res.first_error())[:300])
    out = np.full(shape, np.nan, dtype=complex)
    for o in res.values():
        s = o['starts']
        b = o['phi']
        out[s[0]:s[0] + b.shape[0], s[1]:s[1] + b.shape[1], :] = b
    return out


def compare_attrs(chk, cs, at, mo, stats):
    """mechanism level (explicitly part of the property's anchors): assembled matrices and slices vs model"""
    if 'unavailable' in at:
        chk.count('attributes unavailable')
        return
    nb = cs['nr']
    s, e = mo['start_range'], mo['start_range'] + mo['n_unknowns']
    M = {k: fr_matrix(v) for k, v in mo['matrices'].items()}
    Ab = {k: fr_matrix(v) for k, v in mo['abs'].items()}
    for name in ('mass', 'k2', 'phipsi', 'dphidpsi', 'dphipsi'):
        imp = at[name]
        cols = range(nb) if name == 'mass' else range(s, e)
        if imp.shape != (e - s, len(cols)):
            chk.diff('matrix shape ' + name, case_desc(cs), [e - s, len(cols)], list(imp.shape))
            continue
        for a, r in enumerate(range(s, e)):
            for b, c in enumerate(cols):
                ex, sc = M[name][r][c], Ab[name][r][c]
                if sc:
                    stats['matrix'] = max(stats['matrix'], float(abs(Fr(float(imp[a, b])) - ex) / (EPS * sc)))
                if not common.close(imp[a, b], ex, sc, C_MATRIX):
                    chk.diff('assembled %s[%d,%d]' % (name, r, c), case_desc(cs), str(float(ex)), float(imp[a, b]))
                    return
    for I, md in enumerate(mo['modes']):
        if at['coeff_range'][I] != md['coeff_range'] or at['stiff_range'][I] != md['stiff_range']:
            chk.diff('boundary slices of mode %d' % I, case_desc(cs), md, [at['coeff_range'][I], at['stiff_range'][I]])
        if not common.close(at['m2'][I], Fr(md['m2']), Fr(md['m2']), 8):
            chk.diff('squared mode number %d' % I, case_desc(cs), md['m2'], at['m2'][I])
    if at['n_unknowns'] != mo['n_unknowns']:
        chk.diff('nUnknowns', case_desc(cs), mo['n_unknowns'], at['n_unknowns'])


def exact_queries(cs, rs, nodes, rho_g, phi_g, pairs, Minv, rho_at=None):
    """driver queries for the (I, z, part) triples: coefficients recovered exactly from the grid values"""
    qs = []
    for (I, z, part) in pairs:
        ph = [Fr(float(v)) for v in (phi_g[I, z].real if part == 0 else phi_g[I, z].imag)]
        xhat = fr_matvec(Minv, ph)
        q = {'I': I, 'xhat': [str(v) for v in xhat], 'phi': [str(v) for v in ph]}
        if rho_at is not None:
            q['rho_at'] = rho_at if part == 0 else [['0'] * len(r) for r in rho_at]
        else:
            rh = [Fr(float(v)) for v in (rho_g[I, z].real if part == 0 else rho_g[I, z].imag)]
            q['rho'] = [str(v) for v in rh]
            q['rho_c'] = [str(v) for v in fr_matvec(Minv, rh)]
        qs.append(q)
    return qs


def z_structure(nprng, fac):
    """per (mode, z) factor: within a mode, z slices with a complex right-hand side are followed by purely real, purely imaginary and
    identically zero ones (helical modes, z-localised perturbations): every slice is solved on its own"""
    kind = nprng.randint(0, 6, size=fac.shape)      # 0 complex, 1 real, 2 zero, 3 imaginary, 4 nearly the previous slice, 5 tiny
    kind[:, 0] = 0
    out = np.array(fac, dtype=complex)
    out[kind == 1] = out[kind == 1].real
    out[kind == 2] = 0.0
    out[kind == 3] = 1j * out[kind == 3].imag
    # slices that differ from their predecessor by a relative 1e-7 only (a slowly varying perturbation along z), and slices of very
    # small amplitude (the high modes of a smooth field): each is still solved with its own right-hand side
    for I in range(out.shape[0]):
        for z in range(1, out.shape[1]):
            if kind[I, z] == 4:
                out[I, z] = out[I, z - 1] * (1.0 + 1e-7 * (0.3 + 0.7 * nprng.uniform()))
            elif kind[I, z] == 5:
                out[I, z] = out[I, z] * 1e-9
    return out


def one_case(chk, drv, it, stats):
    rng = chk.rng
    cs = build_case(chk, rng, it)
    desc = case_desc(cs)
    d, nr, N, nz = cs['d'], cs['nr'], cs['N'], cs['nz']
    rbreaks = None
    if cs.get('graded_r'):
        def rbreaks(n, lo, hi):
            gr = np.random.RandomState(cs['seed'] ^ 0x5bd1)
            w = (1.0 + 0.5 * np.arange(n - 1)) * gr.uniform(0.7, 1.3, size=n - 1)
            x = np.concatenate([[0.0], np.cumsum(w)])
            out_ = lo + (hi - lo) * x / x[-1]
            out_[0], out_[-1] = lo, hi
            return out_
    S = make_setup([nr], [d], cs['uniform_flag'] and not cs.get('graded_r'), rrange=cs['rrange'], period=(False,), rbreaks=rbreaks)
    # theta / z grids are only labels here
    S['eta'] = [S['eta'][0], np.arange(N, dtype=float), np.arange(nz, dtype=float)]
    S['bsplines'] = [S['bsplines'][0], None, None]
    from pygyro.splines.splines import BSplines, make_knots
    rs0 = S['bsplines'][0]
    rs = BSplines(make_knots(rs0.breaks, 3, False), 3, False, False) if rs0.cubic_uniform else rs0
    nodes = S['eta'][0]
    if cs['func_rhs'] and not cs['manufactured'] and it % 3 != 1 and nr >= 3:
        # the potential lives on radial nodes that are NOT the interpolation points of the spline space (a function right-hand side needs
        # no interpolation): the solution is to be evaluated at the nodes of the grid it is written to
        g_ = np.asarray(nodes, float)
        mv_ = np.array([0.0] + [(0.3 if j % 2 else -0.25) * (g_[j + 1] - g_[j] if j % 2 else g_[j] - g_[j - 1]) for j in range(1, nr - 1)] + [0.0])
        nodes = g_ + mv_
        S['eta'][0] = nodes
        cs['nodes_off_greville'] = True
        chk.count('function right-hand side, potential on nodes other than the Greville points')
    for k_, (spec_, _) in list(cs['coefs'].items()):
        if spec_[0] == 'hinge':
            # place the hinge on an interior break point (half a cell away from the nearest quadrature point of an odd rule, at least
            # 3 % of a cell for the rules used); a single cell has no interior break point: a constant then
            br_ = np.asarray(rs.breaks, float)
            spec_ = ('hinge', spec_[1], float(br_[len(br_) // 2]), spec_[3]) if len(br_) >= 3 else ('const', float(spec_[1]))
            cs['coefs'][k_] = (spec_, lam(*spec_))
    desc = case_desc(cs)
    fns = coef_callables(cs['coefs'])
    nprng = np.random.RandomState(cs['seed'])
    mv = mvals(N)
    lset, uset = set(cs['lneu']), set(cs['uneu'])

    # ---------- expected refusal (oracle, independent): pure Neumann requested and C == 0 at all Gauss points
    _, _, _, ev = gauss_setup(rs.breaks, cs['qdeg'])
    cnull = all(float(fns[2](float(x))) == 0 for x in ev.ravel())
    # a number b in both Neumann lists is refused when the reaction term of that mode, C - b^2 D, vanishes at every quadrature point
    # (finding F33: the code used to look at C alone); same floating-point expression as the code: rFactor(r) - b*b*ddThetaFactor(r)
    nulls = sorted(b for b in (lset & uset)
                   if all(float(fns[2](float(x))) - b * b * float(fns[3](float(x))) == 0 for x in ev.ravel()))
    expect_refusal = bool(nulls)

    # ---------- right-hand side
    oa = oracle_assembly([float(k) for k in frac_knots(rs)], d, np.asarray(rs.breaks, float), cs['qdeg'], fns)
    Vc = oracle_colloc([float(k) for k in frac_knots(rs)], d, nodes)
    rho_func = None
    phi_star = None
    if not expect_refusal:
        # under-integrated or otherwise singular mode systems are outside the claim (the solve is "any x with A x = b")
        for m in set(mv):
            idx = mode_index_set(oa['nb'], m, lset, uset)
            if idx and np.linalg.cond((oa['stiff'] - m * m * oa['k2'])[np.ix_(idx, idx)]) > 1e9:
                chk.count('discarded: singular / ill-conditioned mode system')
                return
    if cs['manufactured']:
        a, b = cs['rrange']
        pl = 2 if (lset and style_is_neumann(cs, 'l')) else 1
        pu = 2 if (uset and style_is_neumann(cs, 'u')) else 1
        if d < pl + pu:
            cs['manufactured'] = False
        else:
            P = np.poly1d([1.0, -a]) ** pl * np.poly1d([-1.0, b]) ** pu
            rest = d - pl - pu
            P = P * np.poly1d(nprng.uniform(0.5, 1.5, size=rest + 1))
            cA, cB, cC, cD, cE = [float(f(1.0)) for f in fns]
            rho_pol = {m: (cA * P.deriv(2) + cB * P.deriv(1) + cC * P - (m * m * cD) * P) / cE for m in set(mv)}
            fac = z_structure(nprng, nprng.uniform(-1, 1, size=(N, nz)) + 1j * nprng.uniform(-1, 1, size=(N, nz)))
            if cs['func_rhs']:
                fac = np.ones((N, nz), complex)
                if len(set(m * m for m in mv)) > 1 and cD != 0:
                    cs['func_rhs'] = False   # a function right-hand side is the same for all modes
                    fac = z_structure(nprng, nprng.uniform(-1, 1, size=(N, nz)) + 1j * nprng.uniform(-1, 1, size=(N, nz)))
            rho_g = np.array([[fac[I, z] * rho_pol[mv[I]](nodes) for z in range(nz)] for I in range(N)])
            phi_star = np.array([[fac[I, z] * P(nodes) for z in range(nz)] for I in range(N)])
            if cs['func_rhs']:
                rp = rho_pol[mv[0]]
                rho_func = lambda r: rp(r)  # noqa: E731
    if not cs['manufactured']:
        rho_g = nprng.uniform(-1, 1, size=(N, nz, nr)) + 1j * nprng.uniform(-1, 1, size=(N, nz, nr))
        rho_g = rho_g * z_structure(nprng, np.ones((N, nz), complex))[:, :, None]
        if cs['func_rhs']:
            kf = nprng.uniform(0.2, 1.5)
            rho_func = lambda r: np.cos(kf * r) + 0.25 * r  # noqa: E731
    desc = case_desc(cs)

    knots_before = [(b, np.array(b.knots, copy=True)) for b in S['bsplines'] if b is not None]
    rho_impl = rho_func
    if rho_func is not None and not cs['manufactured'] and it % 4 in (1, 3):
        # what the solver is given: a function that returns ITS ARGUMENT (the identity source rho(r) = r) or an array it keeps and returns
        # again for the same points (memoised values) - the solver may read what it gets, not write into it
        if it % 4 == 1:
            rho_func = lambda r: r                                   # noqa: E731   (oracles: the same function, on their own arrays)
            rho_impl = lambda r: r                                   # noqa: E731
        else:
            memo_ = {}
            pure_ = rho_func

            def rho_impl(r):
                k_ = np.asarray(r).tobytes()
                if k_ not in memo_:
                    memo_[k_] = np.asarray(pure_(np.asarray(r)))
                return memo_[k_]
        rho_impl.direct = True
    res = run_solver(cs, S, rho_g, rho_impl)
    if any(not np.array_equal(k0, np.asarray(b.knots)) for b, k0 in knots_before):
        chk.fail('C14:spline-space-modified', 'building / using the solver changed the knots of the spline space it was given', desc)
        return
    if not res.ok:
        chk.fail('C14:crash', 'DiffEqSolver raised: ' + str(res.first_error())[:200], desc)
        return
    outs = res.values()
    refused = 'refused' in outs[0]
    # ---------- model (decision part first)
    sl = drv.call({'op': 'slices', 'nb': nr, 'N': N, 'lneu': cs['lneu'], 'uneu': cs['uneu'], 'nulls': nulls})
    if 'error' in sl:
        raise RuntimeError(sl['error'])
    if refused != expect_refusal:
        chk.fail('C14:refusal', 'constructor %s although %s' % ('raised' if refused else 'accepted',
                 'no ill-posed pure-Neumann mode list was given' if refused else 'some mode number is Neumann at both ends and the reaction term vanishes'),
                 desc, expect_refusal, refused)
    if sl['refuses'] != refused:
        chk.diff('refusal', desc, sl['refuses'], refused)
    chk.count('refused' if refused else 'accepted')
    if refused or expect_refusal:
        chk.case(('refusal', tuple(cs['lneu']), tuple(cs['uneu']), cnull), nontrivial=True)
        return
    phi_g = gather_phi(res, (N, nz, nr))
    for o in outs:
        if not np.array_equal(o['rho_after'], o['rho_in']):
            chk.fail('C14:rho-modified', 'solveEquation modified its right-hand side grid', desc)
    if np.isnan(phi_g.real).any() or (np.abs(phi_g) > 1e200).any():
        chk.fail('C14:phi-not-written', 'part of phi was not written', desc)
        return

    # ---------- model: matrices, slices, exact Galerkin residual of the returned phi
    M, Minv = collocation_tools(rs, nodes)
    allpairs = [(I, z, part) for I in range(N) for z in range(nz) for part in (0, 1)]
    if rho_func is not None:
        allpairs = [(I, z, 0) for I in range(N) for z in range(nz)]
    rng.shuffle(allpairs)
    pairs = sorted(set([(I, 0, 0) for I in range(N)] + allpairs[:chk.n(4, 12)]))
    rho_at = None
    if rho_func is not None:
        rho_at = [[common.rat(float(rho_func(float(x)))) for x in row] for row in ev]
    queries = exact_queries(cs, rs, nodes, rho_g, phi_g, pairs, Minv, rho_at)
    if rho_func is not None:
        queries = queries + [dict(q, no_e=True) for q in queries]
    req, _ = solver_request(rs, cs['qdeg'], fns, {'N': N, 'lneu': cs['lneu'], 'uneu': cs['uneu'],
                                                 'nodes': common.rats(nodes), 'queries': queries})
    mo = drv.call(req)
    if 'error' in mo:
        raise RuntimeError('driver: ' + mo['error'])
    mo['modes'] = sl['modes']
    at = outs[0].get('attrs')
    if at is not None:
        compare_attrs(chk, cs, at, mo, stats)
    nq0 = len(pairs)
    e_one = all(float(fns[4](float(x))) == 1 for x in ev.ravel())

    def residual_bad(q, rq):
        xmax = max([abs(Fr(v)) for v in rq['xhat']] + [Fr(0)])
        cmax = max(abs(Fr(v)) for v in rq['rho_c']) if rho_func is None else Fr(0)
        bad = None
        for a in range(q['size']):
            sc = Fr(q['rowabs'][a]) * xmax + Fr(q['rhs_abs'][a])
            if rho_func is None:
                # interpolation error of the real code enters through max|c|
                sc += sum(abs(Fr(v)) for v in mo['abs']['mass'][mo['start_range'] + q['stiff_range'][0] + a]) * cmax
            r = abs(Fr(q['residual'][a]))
            if r > C_RESIDUAL * EPS * sc and bad is None:
                bad = (a, float(r), float(sc))
            elif sc and bad is None:
                stats['residual'] = max(stats['residual'], float(r / (EPS * sc)))
        return bad, xmax

    known_class = False
    for k, ((I, z, part), q, rq) in enumerate(zip(pairs, mo['queries'][:nq0], req['queries'][:nq0])):
        if any(Fr(v) != 0 for v in q['eval_residual']):
            raise RuntimeError('harness: exact collocation of the harness and of the Lean model disagree')
        bad, xmax = residual_bad(q, rq)
        if bad is not None and rho_func is not None and not e_one:
            # does the returned phi solve the system of the *unrepaired* right-hand side (rhoFactor ignored)?
            bad_old, _ = residual_bad(mo['queries'][nq0 + k], req['queries'][nq0 + k])
            if bad_old is None:
                known_class = True
                continue
        if bad is not None:
            chk.diff('Galerkin residual of the returned phi (mode %d, z %d, %s part)' % (I, z, 'real' if part == 0 else 'imag'),
                     desc, 'residual row %d <= %d eps * %g' % (bad[0], C_RESIDUAL, bad[2]), bad[1])
        for v in q['outside']:
            if abs(Fr(v)) > C_RESIDUAL * EPS * max(xmax, Fr(1, 10 ** 300)):
                chk.diff('coefficient outside the mode\'s slice is not zero (mode %d)' % I, desc, 0, float(Fr(v)))
    if known_class:
        chk.count('model: phi solves the unrepaired function right-hand side (rhoFactor ignored)')

    # ---------- oracle on the real output (numpy dense assembly)
    oracle_checks(chk, cs, desc, oa, Vc, rho_g, phi_g, rho_func, mv, lset, uset, stats, phi_star, fns[4])
    try:
        more_oracles(chk, cs, S, desc, rho_g, rho_func, phi_g, oa, mv, lset, uset, nprng, it)
    except RealCodeRaised as e:
        chk.fail('C14:solve-raises', 'the solver raised on a well-posed configuration (second call / other right-hand side): %s' % e, desc)
    nontriv = (len(lset) + len(uset) > 0) or len(cs['coefs']) > 0
    chk.case(('solve', d, cs['ncells'], N, nz, cs['qdeg'], tuple(cs['lneu']), tuple(cs['uneu']),
              tuple(sorted((k, v[0]) for k, v in cs['coefs'].items())), cs['func_rhs'], tuple(cs['nprocs'])),
             nontrivial=nontriv, sample=dict(desc, phi_mode0=[float(x) for x in phi_g[0, 0].real[:3]]) if it < 2 else None)
    chk.count('degree %d' % d)
    chk.count('rhs function' if rho_func is not None else 'rhs discrete')
    chk.count('manufactured' if cs['manufactured'] else 'random rho')
    chk.count('bc ' + cs['style'])
    chk.count('ranks %d' % int(np.prod(cs['nprocs'])))
    chk.count('cubic-uniform rspline' if rs0.cubic_uniform else 'general rspline')
    chk.traces_validated += 1


def style_is_neumann(cs, side):
    return cs['style'] in (('all_l', 'both') if side == 'l' else ('all_u', 'both'))


def mode_index_set(nb, m, lset, uset):
    return list(range(0 if m in lset else 1, nb - (0 if m in uset else 1)))


def oracle_checks(chk, cs, desc, oa, Vc, rho_g, phi_g, rho_func, mv, lset, uset, stats, phi_star, fE):
    nb = oa['nb']
    N, nz = cs['N'], cs['nz']
    eps = common.EPS
    for I in range(N):
        m = mv[I]
        idx = mode_index_set(nb, m, lset, uset)
        Aop = (oa['stiff'] - (m * m) * oa['k2'])[np.ix_(idx, idx)]
        absA = (np.abs(oa['stiff']) + (m * m) * np.abs(oa['k2']))[np.ix_(idx, idx)]
        for z in range(nz):
            xh = np.linalg.solve(Vc, phi_g[I, z])
            if rho_func is not None:
                Ex = np.vectorize(fE, otypes=[float])(oa['x'])
                b = np.array([np.sum(oa['w'] * oa['Bs'][j](oa['x']) * oa['x'] * rho_func(oa['x']) * Ex) for j in idx]).astype(complex)
                bs = np.array([np.sum(np.abs(oa['w'] * oa['Bs'][j](oa['x']) * oa['x'] * rho_func(oa['x']) * Ex)) for j in idx])
                b_old = np.array([np.sum(oa['w'] * oa['Bs'][j](oa['x']) * oa['x'] * rho_func(oa['x'])) for j in idx]).astype(complex)
            else:
                c = np.linalg.solve(Vc, rho_g[I, z])
                b = oa['mass'][idx, :] @ c
                bs = np.abs(oa['mass'][idx, :]).sum(axis=1) * np.abs(c).max()
            r = Aop @ xh[idx] - b
            sc = absA.sum(axis=1) * max(np.abs(xh).max(), 1e-300) + bs
            ratio = np.abs(r) / (eps * np.where(sc > 0, sc, 1))
            if len(ratio) and ratio.max() <= C_ORACLE:
                stats['oracle'] = max(stats['oracle'], float(ratio.max()))
            if len(ratio) and ratio.max() > C_ORACLE and rho_func is not None and not np.all(Ex == 1):
                r_old = Aop @ xh[idx] - b_old
                if (np.abs(r_old) / (eps * np.where(sc > 0, sc, 1))).max() <= C_ORACLE:
                    known_or_fail(chk, SIG_FUNC_E, WHAT_FUNC_E, dict(desc, mode_index=I, m=m, z=z),
                                  'Galerkin residual w.r.t. "... = E rho" <= %d eps scale' % C_ORACLE, float(ratio.max()))
                    return
            if len(ratio) and ratio.max() > C_ORACLE:
                chk.fail('C14:galerkin', 'returned phi does not satisfy the Galerkin weak form of the mode (independent dense assembly)',
                         dict(desc, mode_index=I, m=m, z=z), 'residual <= %d eps scale' % C_ORACLE, float(ratio.max()))
                return
            # Dirichlet: the value at the boundary node vanishes
            pm = max(np.abs(phi_g[I, z]).max(), 1e-300)
            if m not in lset and abs(phi_g[I, z, 0]) > C_ZERO * eps * pm:
                chk.fail('C14:dirichlet', 'phi does not vanish at the lower Dirichlet boundary', dict(desc, mode_index=I), 0.0, abs(phi_g[I, z, 0]))
            if m not in uset and abs(phi_g[I, z, -1]) > C_ZERO * eps * pm:
                chk.fail('C14:dirichlet', 'phi does not vanish at the upper Dirichlet boundary', dict(desc, mode_index=I), 0.0, abs(phi_g[I, z, -1]))
            if phi_star is not None:
                cond = np.linalg.cond(Aop)
                tol = 256 * eps * cond * max(np.abs(phi_star[I, z]).max(), 1e-300) * 16
                err = np.abs(phi_g[I, z] - phi_star[I, z]).max()
                if err <= tol:
                    stats['manufactured'] = max(stats['manufactured'], float(err / (eps * cond * max(np.abs(phi_star[I, z]).max(), 1e-300))))
                if err > tol:
                    chk.fail('C14:manufactured', 'a polynomial solution in the spline space is not reproduced',
                             dict(desc, mode_index=I, m=m, z=z, cond=float(cond)), 'error <= %.3g' % tol, float(err))
                    return


def more_oracles(chk, cs, S, desc, rho_g, rho_func, phi_g, oa, mv, lset, uset, nprng, it):
    """linearity, mode independence, serial == parallel, int/float Neumann lists (discrete right-hand sides)"""
    N, nz, nr = cs['N'], cs['nz'], cs['nr']
    eps = common.EPS
    serial = dict(cs, nprocs=[1])
    which = it % 3
    conds = []
    for I in range(N):
        idx = mode_index_set(oa['nb'], mv[I], lset, uset)
        conds.append(np.linalg.cond((oa['stiff'] - mv[I] ** 2 * oa['k2'])[np.ix_(idx, idx)]) if idx else 1.0)
    conds = np.array(conds)
    if rho_func is not None:
        # linearity for a function right-hand side: a complex multiple of the function gives that multiple of the solution (the grids
        # are complex; finding F26)
        c = complex(nprng.uniform(-2, 2), nprng.uniform(0.5, 2) * (1 if it % 2 else -1))
        p1 = gather_phi(run_solver(serial, S, rho_g, rho_func, want_attrs=False), rho_g.shape)
        pc = gather_phi(run_solver(serial, S, rho_g, lambda r: c * rho_func(r), want_attrs=False), rho_g.shape)
        tol = 1024 * eps * conds[:, None] * np.maximum(abs(c) * np.abs(p1).max(axis=2), 1e-300)
        if not (np.abs(pc - c * p1).max(axis=2) <= tol).all():
            chk.fail('C14:linearity-function-rhs', 'the solution for a function right-hand side is not linear in rho: solve(c*f) != c*solve(f) '
                     'for a complex number c', dict(desc, c=[c.real, c.imag]), 0.0, float(np.abs(pc - c * p1).max()))
        chk.count('linearity cases (function right-hand side, complex multiple)')
        return
    if which == 0:
        a, b = nprng.uniform(-2, 2, size=2)
        rho2 = nprng.uniform(-1, 1, size=rho_g.shape) + 1j * nprng.uniform(-1, 1, size=rho_g.shape)
        p1 = gather_phi(run_solver(serial, S, rho_g, want_attrs=False), rho_g.shape)
        p2 = gather_phi(run_solver(serial, S, rho2, want_attrs=False), rho_g.shape)
        p3 = gather_phi(run_solver(serial, S, a * rho_g + b * rho2, want_attrs=False), rho_g.shape)
        sc = (abs(a) * np.abs(p1).max(axis=2) + abs(b) * np.abs(p2).max(axis=2))
        tol = 1024 * eps * conds[:, None] * np.maximum(sc, 1e-300)
        if not (np.abs(p3 - (a * p1 + b * p2)).max(axis=2) <= tol).all():
            chk.fail('C14:linearity', 'the solution is not linear in rho', desc)
        chk.count('linearity cases')
    elif which == 1:
        I0, z0 = nprng.randint(N), nprng.randint(nz)
        rho2 = nprng.uniform(-1, 1, size=rho_g.shape) + 1j * nprng.uniform(-1, 1, size=rho_g.shape)
        rho2[I0, z0] = rho_g[I0, z0]
        p2 = gather_phi(run_solver(cs, S, rho2, want_attrs=False), rho_g.shape)
        dev = np.abs(p2[I0, z0] - phi_g[I0, z0]).max()
        if dev > 64 * eps * conds[I0] * max(np.abs(phi_g[I0, z0]).max(), 1e-300):
            chk.fail('C14:mode-independence', 'the solution of one (mode, z) slice depends on the other slices',
                     dict(desc, mode_index=int(I0), z=int(z0)), 0.0, float(dev))
        chk.count('mode independence cases' + ('' if dev == 0 else ' (not bitwise)'))
    else:
        p1 = gather_phi(run_solver(serial, S, rho_g, want_attrs=False, float_lists=True), rho_g.shape)
        dev = np.abs(p1 - phi_g).max(axis=2)
        if not (dev <= 64 * eps * conds[:, None] * np.maximum(np.abs(phi_g).max(axis=2), 1e-300)).all():
            chk.fail('C14:decomposition', 'serial run (float mode lists) and distributed run (int mode lists) differ', desc)
        chk.count('serial == distributed cases' + ('' if dev.max() == 0 else ' (not bitwise)'))


def run(chk):
    chk.rule = ('random degree 1-5, 1-6 cells, nTheta 1-7, nz 1-3, quadrature parameter, coefficient functions '
                '(constant A; B,C,D,E constants / 1/r / 1/r^2 / linear / quadratic / exp), Neumann lists (none, all lower, all upper, '
                'QN, both, random subsets incl. numbers that are no modes), discrete or function right-hand side, '
                'cubic-uniform or general radial spline, random process grid <= 6 ranks; non-trivial = some non-default '
                'coefficient or Neumann list; distinct by all of these')
    chk.explanation = ('partial proof + correspondence: decision logic (slices, refusal, band storage, buffer), symmetry, linearity '
                       'and the meaning of every assembled entry are Lean theorems; exactness of the Gauss sums for piecewise '
                       'polynomials, the third-party solves and the spline evaluation are covered by the rational model '
                       '(exact Galerkin residual of the returned phi) and by an independent dense numpy assembly')
    chk.proof_side(build=not getattr(chk, 'no_build', False), extra_props=('C14Extra',))
    common.use_repo()
    drv = common.LeanDriver('C14.lean')
    stats = {'matrix': 0.0, 'residual': 0.0, 'oracle': 0.0, 'manufactured': 0.0}
    try:
        for it in range(chk.n(44, 450)):
            one_case(chk, drv, it, stats)
    finally:
        drv.close()
    chk.notes['max_ratio_matrix'] = 'max |attribute - model entry|/(eps*sum|terms|) = %.3g (accepted %d)' % (stats['matrix'], C_MATRIX)
    chk.notes['max_ratio_residual'] = 'max exact Galerkin residual/(eps*scale) = %.3g (accepted %d)' % (stats['residual'], C_RESIDUAL)
    chk.notes['max_ratio_oracle'] = 'max float residual of the dense numpy assembly/(eps*scale) = %.3g (accepted %d)' % (stats['oracle'], C_ORACLE)
    chk.notes['max_ratio_manufactured'] = 'max manufactured-solution error/(eps*cond*max|phi|) = %.3g (accepted 4096)' % stats['manufactured']
    chk.assumptions = [
        'uniform radial breaks (the solver scales all cells with the width of the first one; pygyro builds r grids with linspace)',
        'leggauss points/weights, spsolve, LAPACK banded interpolation solve, spline evaluation at the nodes: contracts, '
        'checked through the exact Galerkin residual of the returned grid values',
        'mode numbers in the Neumann lists are matched by float equality in the code; nTheta with nTheta*(1/nTheta) != 1.0 '
        '(49, 98, ...) are not generated',
    ]
    return chk.finish()
