"""C17 — diagnostics and global reductions equal serial quadrature of the global field.

proof side     : Props/C17.lean (local_weights_are_global_slices, sum_over_ranks_eq_global, sum_over_ranks_replicated,
                 trapezoid_volume_of_one*, min_max_of_blocks, extrema_of_local_extrema, collect_slot*, ...)
correspondence : the real l2 / l1 / nParticles / KineticEnergy objects, Grid.getMin/getMax and DiagnosticCollector of /repo
                 on simulated ranks vs. the Lean model (Drivers/C17.lean) evaluated at exact rationals, per rank.
oracle         : numpy serial quadrature / min / max of the assembled global field (no model), analytic volume for f == 1,
                 Python integer arithmetic for the slot.
"""
import itertools
import math
from fractions import Fraction

import numpy as np

import common
import layout_util as lu
from mpi4py import MPI

LEVEL = 'proof'

STD4 = {'flux_surface': [0, 3, 1, 2], 'v_parallel': [0, 2, 1, 3], 'poloidal': [3, 2, 1, 0]}
KINDS = ['l2', 'l1', 'nPart', 'ke']
FACTOR = 64.0


# ------------------------------------------------------------------------------------------------
# generators

def rand_grids(rng, npts, int_coords=False):
    """non-uniform r (>0) and v, uniform periodic theta on [0, 2pi) and uniform z: what the constructors assume"""
    nr, nq, nz, nv = npts
    if int_coords:
        # whole-number radii and velocities handed over as INTEGER arrays (np.arange, cumulative sums of ints)
        r = np.cumsum([rng.randint(1, 3) for _ in range(nr)]).astype(np.int64)
        v = (np.cumsum([rng.randint(1, 3) for _ in range(nv)]) - rng.randint(3, 6)).astype(np.int64)
        return [r, np.arange(nq) * (2 * np.pi / nq), rng.uniform(-1, 1) + np.arange(nz) * rng.uniform(0.3, 3.0), v]
    r0 = rng.uniform(0.05, 2.0)
    r = r0 + np.concatenate([[0.0], np.cumsum([rng.uniform(0.2, 1.5) for _ in range(nr - 1)])])
    v0 = rng.uniform(-6.0, -1.0)
    v = v0 + np.concatenate([[0.0], np.cumsum([rng.uniform(0.3, 2.0) for _ in range(nv - 1)])])
    q = np.arange(nq) * (2 * np.pi / nq)
    dz = rng.uniform(0.3, 3.0)
    z = rng.uniform(-1, 1) + np.arange(nz) * dz
    return [np.array(r), q, z, np.array(v)]


def rand_field(rng, shape, cplx):
    s = np.random.RandomState(rng.randrange(1 << 31))
    a = s.normal(size=shape) * np.exp(s.uniform(-2, 2, size=shape))
    if cplx:
        return a + 1j * s.normal(size=shape)
    return a


def proc_grids(max_ranks):
    return [(a, b) for a in range(1, max_ranks + 1) for b in range(1, max_ranks + 1) if a * b <= max_ranks]


def npts_for(rng, P, hi=6):
    """extents >= both process counts (so no block is empty), >= 3 (theta, z need index 2), with forced edge cases"""
    m = max(P)
    out = []
    for _ in range(4):
        x = rng.random()
        lo = max(3, m)
        out.append(lo if x < 0.25 else (lo + 1 if x < 0.45 else rng.randint(lo, max(hi, lo))))
    return out


def trap_w(x):
    """independent re-statement of the composite trapezoidal weights"""
    w = np.zeros(len(x))
    w[0] = (x[1] - x[0]) / 2
    w[-1] = (x[-1] - x[-2]) / 2
    w[1:-1] = (x[2:] - x[:-2]) / 2
    return w


def serial_quadrature(kind, eta, G):
    """numpy quadrature of the global field G[r,q,z(,v)] on one process; returns (value, sum of |terms|)"""
    nd = G.ndim
    r = eta[0]
    wr = trap_w(r) * r
    if kind == 'l2':
        g = (G * np.conj(G)).real
    elif kind == 'l1':
        g = np.abs(G.real)
    else:
        g = G.real.copy()
    dq = eta[1][2] - eta[1][1]
    dz = eta[2][2] - eta[2][1]
    fac = dq * dz
    if nd == 4:
        v = eta[3]
        wv = trap_w(v) * (v ** 2 if kind == 'ke' else 1.0)
        terms = g * wr[:, None, None, None] * wv[None, None, None, :]
        if kind == 'ke':
            fac *= 0.5
    else:
        terms = g * wr[:, None, None]
    return float(np.sum(terms) * fac), float(np.sum(np.abs(terms)) * abs(fac))


def block_scale(kind, eta, G, ord_, starts, ends):
    """sum of |terms| of one rank's block (a float is enough for a scale)"""
    sl = [None] * G.ndim
    for k, d in enumerate(ord_):
        sl[d] = slice(starts[k], ends[k])
    nd = G.ndim
    r = eta[0]
    wr = trap_w(r) * r
    g = (G * np.conj(G)).real if kind == 'l2' else np.abs(G.real)
    if nd == 4:
        v = eta[3]
        wv = np.abs(trap_w(v) * (v ** 2 if kind == 'ke' else 1.0))
        t = g * wr[:, None, None, None] * wv[None, None, None, :]
    else:
        t = g * wr[:, None, None]
    dq = eta[1][2] - eta[1][1]
    dz = eta[2][2] - eta[2][1]
    return float(np.sum(np.abs(t[tuple(sl)])) * abs(dq * dz))


def coords_of(layout, ord_, nprocs_padded, shape):
    """process coordinates along the axes of `layout`, recovered from its starts (blocks are non-empty)"""
    out = []
    for k in range(len(ord_)):
        st = [int(x) for x in layout.mpi_starts(k)]
        out.append(st.index(int(layout.starts[k])))
    return out


def diag_request(ord_, ps, eta, G, kinds, coords):
    Gc = np.asarray(G, dtype=complex)
    return {'op': 'diag', 'ord': list(ord_), 'ps': list(ps), 'r': common.rats(eta[0]), 'q': common.rats(eta[1]),
            'z': common.rats(eta[2]), 'v': common.rats(eta[3]) if len(eta) > 3 else [],
            're': common.rats(Gc.real.ravel()), 'im': common.rats(Gc.imag.ravel()), 'kinds': kinds, 'coords': coords}


# ------------------------------------------------------------------------------------------------
# A. local diagnostics, sum over ranks, every layout

def local_objects(kind, eta, layout):
    from pygyro.diagnostics.norms import l2, l1, nParticles
    from pygyro.diagnostics.energy import KineticEnergy
    if kind == 'l2':
        o = l2(eta, layout)
        return o.l2NormSquared
    if kind == 'l1':
        o = l1(eta, layout)
        return o.l1Norm
    if kind == 'nPart':
        o = nParticles(eta, layout)
        return o.getN
    o = KineticEnergy(eta, layout)
    return o.getKE


def run_diag_case(chk, drv, P, npts, lays, eta, G, kinds, tag, const=False, policy='inorder', seed=0):
    """all layouts of one handler; G indexed physically.  Returns nothing; records diffs / failures."""
    from pygyro.model.layout import getLayoutHandler
    from pygyro.model.grid import Grid
    nd = G.ndim
    cplx = np.iscomplexobj(G)

    def body():
        comm = MPI.COMM_WORLD
        h = getLayoutHandler(comm, lays, list(P), eta[:nd])
        out = {}
        for name in sorted(lays):
            g = Grid(eta[:nd], [None] * nd, h, name, comm, dtype=(np.complex128 if cplx else float))
            L = g.getLayout(name)
            g.getAllData()[:] = lu.expected_block(G, L)
            vals = [float(local_objects(k, eta[:nd], L)(g)) for k in kinds]
            out[name] = {'vals': vals, 'coords': coords_of(L, lays[name], None, None),
                         'starts': [int(x) for x in L.starts], 'ends': [int(x) for x in L.ends]}
        return out
    res = lu.run_ranks(int(np.prod(P)), body, policy=policy, seed=seed)
    case = {'P': list(P), 'npts': list(npts), 'layouts': lays, 'tag': tag, 'complex': bool(cplx)}
    if not res.ok:
        chk.fail('C17:diag-crash', 'constructing / evaluating a diagnostic raised: ' + str(res.first_error())[:200], case)
        return
    vals = res.values()
    for name in sorted(lays):
        ord_ = lays[name]
        coords = [o[name]['coords'] for o in vals]
        mo = drv.call(diag_request(ord_, P, eta[:nd] if nd == 4 else eta[:3], G, kinds, coords))
        if 'error' in mo:
            raise RuntimeError('Lean driver: ' + mo['error'])
        for ki, kind in enumerate(kinds):
            ser, ser_scale = serial_quadrature(kind, eta, G)
            # --- correspondence, per rank: the code's local float vs the model's exact local value
            for ri, o in enumerate(vals):
                exact = Fraction(mo['local'][ri][ki])
                scale = Fraction(block_scale(kind, eta, G, ord_, o[name]['starts'], o[name]['ends']))
                if not common.close(o[name]['vals'][ki], exact, scale, FACTOR):
                    chk.diff('local %s' % kind, dict(case, layout=name, rank=ri, coords=coords[ri]),
                             float(exact), o[name]['vals'][ki])
            # --- oracle (no model): sum over ranks, in three orders, vs numpy quadrature of the global field
            loc = [o[name]['vals'][ki] for o in vals]
            for order_name, seq in (('rank', loc), ('reverse', loc[::-1]),
                                    ('random', chk.rng.sample(loc, len(loc)))):
                tot = 0.0
                for x in seq:
                    tot += x
                if abs(tot - ser) > FACTOR * common.EPS * ser_scale * 2:
                    chk.fail('C17:sum-%s' % kind, 'sum over ranks of the local %s differs from the serial quadrature of the global field' % kind,
                             dict(case, layout=name, order=order_name), expected=ser, actual=tot)
                    break
            # --- model's own serial value agrees with numpy (sanity of the oracle, counted as correspondence)
            if not common.close(ser, Fraction(mo['serial'][ki]), Fraction(ser_scale), FACTOR):
                chk.diff('serial quadrature %s (numpy oracle vs model)' % kind, dict(case, layout=name), mo['serial'][ki], ser)
            if const:
                # f == 1: analytic volume factor
                r, v = eta[0], eta[3] if nd == 4 else None
                vol = (r[-1] ** 2 - r[0] ** 2) / 2 * (len(eta[1]) * (eta[1][2] - eta[1][1])) * (len(eta[2]) * (eta[2][2] - eta[2][1]))
                if nd == 4 and kind != 'ke':
                    vol *= (v[-1] - v[0])
                if kind != 'ke':
                    tot = sum(loc)
                    if abs(tot - vol) > FACTOR * common.EPS * abs(vol) * 4:
                        chk.fail('C17:volume-%s' % kind, 'f == 1: the %s diagnostic is not the analytic volume factor' % kind,
                                 dict(case, layout=name), expected=vol, actual=tot)
        uneven = any(npts[ord_[i]] % p for i, p in enumerate(P) if p > 1)
        inv_branch = 'idx_r<idx_v' if nd == 3 or ord_.index(0) < ord_.index(3) else 'idx_r>idx_v'
        chk.count('%dD %s' % (nd, inv_branch))
        chk.case(('diag', nd, tuple(P), tuple(npts), tuple(ord_), cplx, const), nontrivial=(max(P) > 1 and not const),
                 sample=dict(case, layout=name, rank0_local=vals[0][name]['vals'], serial_l2=serial_quadrature('l2', eta, G)[0])
                 if len(chk.samples) < 2 and uneven else None)


def diag_cases(chk, drv):
    rng = chk.rng
    grids = proc_grids(chk.n(6, 8))
    reps = chk.n(1, 3)
    for P in grids:
        for rep in range(reps):
            npts = npts_for(rng, P, hi=chk.n(5, 6))
            eta = rand_grids(rng, npts, int_coords=(len(grids) > 2 and P == grids[2] and rep == 0) or (P == grids[0] and rep == 0))
            # 4-D real distribution function: the three standard layouts + a random connected set of permutations
            G = rand_field(rng, npts, False)
            run_diag_case(chk, drv, P, npts, STD4, eta, G, KINDS, 'standard', policy=rng.choice(['inorder', 'reverse', 'random']), seed=rep)
            if rep == 0 or not chk.quick():
                lays = lu.rand_layout_set(rng, 4, list(P), k=3)
                run_diag_case(chk, drv, P, npts, lays, eta, G, ['l2', 'ke'], 'random-perms')
            # 3-D complex potential
            lays3 = {'v_parallel_2d': [0, 2, 1], 'mode_solve': [1, 2, 0]}
            G3 = rand_field(rng, npts[:3], True)
            run_diag_case(chk, drv, P, npts, lays3, eta, G3, ['l2'], 'phi')
    # a single-precision complex potential (dtype complex64): same norm, to single precision
    from pygyro.model.layout import getLayoutHandler
    from pygyro.model.grid import Grid
    for P in [(1, 1), (2, 1), (1, 2)] + ([(2, 2), (3, 2)] if not chk.quick() else []):
        npts = npts_for(rng, P)
        eta = rand_grids(rng, npts)
        lays3 = {'v_parallel_2d': [0, 2, 1], 'mode_solve': [1, 2, 0]}
        G3 = rand_field(rng, npts[:3], True).astype(np.complex64)
        ser, ser_scale = serial_quadrature('l2', eta, G3.astype(complex))

        def body():
            comm = MPI.COMM_WORLD
            h = getLayoutHandler(comm, lays3, list(P), eta[:3])
            out = {}
            for name in sorted(lays3):
                g = Grid(eta[:3], [None] * 3, h, name, comm, dtype=np.complex64)
                L = g.getLayout(name)
                g.getAllData()[:] = lu.expected_block(G3, L)
                out[name] = complex(local_objects('l2', eta[:3], L)(g))
            return out
        res = lu.run_ranks(int(np.prod(P)), body)
        case = {'P': list(P), 'npts': list(npts[:3]), 'dtype': 'complex64', 'tag': 'phi single precision'}
        if not res.ok:
            chk.fail('C17:diag-crash', 'l2 norm of a complex64 grid raised: ' + str(res.first_error())[:200], case)
            continue
        for name in sorted(lays3):
            tot = sum(o[name] for o in res.values())
            if abs(tot.imag) > 1e-4 * ser_scale or abs(tot.real - ser) > 1e-4 * ser_scale:
                chk.fail('C17:sum-l2', 'sum over ranks of the local squared l2 norm of a complex64 field differs from the serial quadrature of |f|^2',
                         dict(case, layout=name), expected=ser, actual=[tot.real, tot.imag])
        chk.case(('diag-c64', tuple(P), tuple(npts[:3])), nontrivial=True)
        chk.count('single-precision complex potential')
    # f == 1 : analytic volume (any grid size), a few process grids
    for P in [(1, 1), (2, 1), (2, 2), (1, 3)] + ([(3, 2), (2, 4)] if not chk.quick() else []):
        npts = npts_for(rng, P)
        eta = rand_grids(rng, npts)
        run_diag_case(chk, drv, P, npts, STD4, eta, np.ones(npts), KINDS, 'ones', const=True)
        run_diag_case(chk, drv, P, npts, {'v_parallel_2d': [0, 2, 1], 'mode_solve': [1, 2, 0]}, eta,
                      np.ones(npts[:3], dtype=complex), ['l2'], 'ones-phi', const=True)


# ------------------------------------------------------------------------------------------------
# B. replicated layouts of a LayoutSwapper

def replicated_cases(chk, drv):
    from pygyro.model.layout import LayoutSwapper
    from pygyro.model.grid import Grid
    from pygyro.diagnostics.norms import l2
    rng = chk.rng
    layout_poisson = {'v_parallel_2d': [0, 2, 1], 'mode_solve': [1, 2, 0]}
    layout_vpar = {'v_parallel_1d': [0, 2, 1]}
    layout_poloidal = {'poloidal': [2, 1, 0]}
    allord = dict(layout_poisson, **layout_vpar, **layout_poloidal)
    for P in [p for p in proc_grids(chk.n(6, 8)) if p[0] != p[1] or p == (1, 1) or p == (2, 2)]:
        npts = npts_for(rng, P)
        eta = rand_grids(rng, npts)[:3]
        G = rand_field(rng, npts[:3], True)

        def body():
            comm = MPI.COMM_WORLD
            sw = LayoutSwapper(comm, [layout_poisson, layout_vpar, layout_poloidal], [list(P), P[0], P[1]], eta, 'mode_solve')
            out = {}
            for name in sorted(allord):
                g = Grid(eta, [None] * 3, sw, name, comm, dtype=np.complex128)
                L = g.getLayout(name)
                g.getAllData()[:] = lu.expected_block(G, L)
                out[name] = {'val': float(l2(eta, L).l2NormSquared(g)), 'coords': coords_of(L, allord[name], None, None),
                             'nprocs': [int(x) for x in L.nprocs], 'starts': [int(x) for x in L.starts], 'ends': [int(x) for x in L.ends]}
            return out
        res = lu.run_ranks(int(np.prod(P)), body)
        case = {'P': list(P), 'npts': npts[:3], 'what': 'LayoutSwapper'}
        if not res.ok:
            if P[0] == P[1] and P[0] > 1:
                chk.count('swapper refused (equal process counts)')
                continue
            chk.fail('C17:swapper-crash', 'LayoutSwapper / l2 raised: ' + str(res.first_error())[:200], case)
            continue
        vals = res.values()
        ser, ser_scale = serial_quadrature('l2', eta, G)
        nranks = int(np.prod(P))
        for name in sorted(allord):
            ps = vals[0][name]['nprocs']
            nproc_layout = int(np.prod(ps))
            R = nranks // nproc_layout
            coords = [o[name]['coords'] for o in vals]
            mo = drv.call(diag_request(allord[name], ps, eta, G, ['l2'], coords))
            for ri, o in enumerate(vals):
                exact = Fraction(mo['local'][ri][0])
                scale = Fraction(block_scale('l2', eta, G, allord[name], o[name]['starts'], o[name]['ends']))
                if not common.close(o[name]['val'], exact, scale, FACTOR):
                    chk.diff('local l2 (swapper layout)', dict(case, layout=name, rank=ri), float(exact), o[name]['val'])
            tot = sum(o[name]['val'] for o in vals)
            # every coordinate tuple of the layout's own process grid occurs exactly R times among the world ranks
            cnt = {}
            for c in coords:
                cnt[tuple(c)] = cnt.get(tuple(c), 0) + 1
            if set(cnt.values()) != {R} or len(cnt) != nproc_layout:
                chk.fail('C17:replication', 'a replicated layout does not place every block on exactly R processes', dict(case, layout=name, R=R), actual=str(cnt))
            if abs(tot - R * ser) > FACTOR * common.EPS * R * ser_scale * 2:
                chk.fail('C17:sum-replicated', 'world sum of the local l2 over a layout replicated R times is not R times the serial quadrature',
                         dict(case, layout=name, R=R), expected=R * ser, actual=tot)
            chk.count('replicated R=%d' % R if R > 1 else 'swapper layout R=1')
            chk.case(('repl', tuple(P), tuple(npts[:3]), name), nontrivial=R > 1)


# ------------------------------------------------------------------------------------------------
# C. getMin / getMax

def minmax_cases(chk, drv):
    from pygyro.model.layout import getLayoutHandler
    from pygyro.model.grid import Grid
    rng = chk.rng
    for it in range(chk.n(60, 300)):
        nd = rng.choice([3, 4, 4])
        P = rng.choice(proc_grids(chk.n(6, 8)))
        npts = npts_for(rng, P)[:nd]
        lays = dict(STD4) if nd == 4 else {'v_parallel_2d': [0, 2, 1], 'mode_solve': [1, 2, 0]}
        name = rng.choice(sorted(lays))
        ord_ = lays[name]
        empty = max(P) > 1 and rng.random() < 0.15
        if empty:
            # fewer points than processes along one distributed axis: some processes own nothing (the `size == 0` branch)
            k = rng.choice([i for i in range(2) if P[i] > 1])
            npts[ord_[k]] = P[k] - 1
        eta = lu.eta_grids(npts)
        cplx = nd == 3 and rng.random() < 0.5
        # shifted away from zero in both directions: a wrong neutral element (0 instead of +-inf) must show
        G = rand_field(rng, npts, cplx) + rng.choice([-40.0, 0.0, 40.0])
        kind = rng.choice(['whole', 'one', 'one', 'two'])
        if kind == 'whole':
            sel = []
        else:
            axes = rng.sample(range(nd), 1 if kind == 'one' else 2)
            sel = [[a, rng.choice([0, npts[a] - 1, rng.randrange(npts[a])])] for a in axes]
        root = rng.randrange(int(np.prod(P)))
        as_list = rng.random() < 0.5
        as_array = rng.random() < 0.4
        # every fifth grid has a history: saved, moved to another layout (where the axes sit at other positions) and restored; the
        # extrema asked for afterwards are those of the restored field in the restored layout
        hist = it % 5 == 2
        other = [n for n in sorted(lays) if n != name][it // 5 % (len(lays) - 1)]

        def body():
            comm = MPI.COMM_WORLD
            h = getLayoutHandler(comm, lays, list(P), eta)
            coords = [int(x) for x in h.mpiCoords] + [0] * (nd - 2)
            g = Grid(eta, [None] * nd, h, name, comm, dtype=(np.complex128 if cplx else float), allocateSaveMemory=hist)
            L = g.getLayout(name)
            g.getAllData()[:] = lu.expected_block(G, L)
            if hist:
                g.saveGridValues()
                g.setLayout(other)
                g.restoreGridValues()
            if not sel:
                a = (root,)
            elif len(sel) == 1 and not as_list:
                a = (root, sel[0][0], sel[0][1])
            elif as_array:
                # index arrays kept by the caller and used for both calls (the colour range of a plot)
                a = (root, np.array([s[0] for s in sel]), np.array([s[1] for s in sel]))
            else:
                a = (root, [s[0] for s in sel], [s[1] for s in sel])
            mn = g.getMin(*a)
            mx = g.getMax(*a)
            if sel and isinstance(a[1], np.ndarray) and ([int(x) for x in a[1]] != [s[0] for s in sel] or [int(x) for x in a[2]] != [s[1] for s in sel]):
                raise ValueError('getMin/getMax changed the index arrays of the caller: %s %s' % (a[1], a[2]))
            lmn = lmx = None
            if not cplx:
                # a process that owns no points contributes the neutral elements (finding F23: it used to raise, and the other
                # processes then waited for it in the reduction); the model marks such a block as 'raise' = "no value"
                lmn, lmx = float(g.getMin()), float(g.getMax())
                if g.getAllData().size == 0 and lmn == float('inf') and lmx == float('-inf'):
                    lmn = lmx = 'raise'
            return {'min': None if mn is None else float(mn), 'max': None if mx is None else float(mx),
                    'lmin': lmn, 'lmax': lmx, 'coords': coords, 'rank': comm.Get_rank(), 'size': int(g.getAllData().size)}
        res = lu.run_ranks(int(np.prod(P)), body, policy=rng.choice(['inorder', 'reverse', 'random']), seed=it,
                           reduce_order=rng.choice(['rank', 'reverse', 'random']))
        case = {'P': list(P), 'npts': npts, 'layout': name, 'sel': sel, 'root': root, 'complex': cplx,
                'history': ['saveGridValues', 'setLayout(%s)' % other, 'restoreGridValues'] if hist else []}
        if not res.ok:
            chk.fail('C17:minmax-crash', 'getMin/getMax raised: ' + str(res.first_error())[:200], case)
            continue
        vals = res.values()
        # oracle: numpy on the global array
        sl = [slice(None)] * nd
        for a, f in sel:
            sl[a] = f
        sub = np.real(G)[tuple(sl)]
        emin, emax = float(sub.min()), float(sub.max())
        for o in vals:
            if o['rank'] == root:
                if o['min'] != emin or o['max'] != emax:
                    chk.fail('C17:minmax', 'getMin/getMax at the drawing rank differ from min/max of the global field (slice)', case,
                             expected=[emin, emax], actual=[o['min'], o['max']])
            elif o['min'] is not None or o['max'] is not None:
                chk.fail('C17:minmax-nonroot', 'a process other than the drawing rank received a result', case)
        mo = drv.call({'op': 'minmax', 'nd': nd, 'ext': npts, 'ord': ord_, 'ps': list(P), 'vals': common.rats(np.real(G).ravel()),
                       'sel': sel, 'coords': [o['coords'] for o in vals]})
        if 'error' in mo:
            raise RuntimeError('Lean driver: ' + mo['error'])
        rt = [o for o in vals if o['rank'] == root][0]
        if fr(mo['rmin']) != fr(rt['min']) or fr(mo['rmax']) != fr(rt['max']):
            chk.diff('getMin/getMax reduced value', case, [mo['rmin'], mo['rmax']], [rt['min'], rt['max']])
        if mo['rmin'] != mo['gmin'] or mo['rmax'] != mo['gmax']:
            chk.diff('model: reduction != global extremum (contradicts min_max_of_blocks)', case, mo)
        if not cplx:
            for ri, o in enumerate(vals):
                ml, mx_ = mo['lmin'][ri], mo['lmax'][ri]
                if (ml == 'raise') != (o['lmin'] == 'raise') or (ml != 'raise' and (fr(ml) != fr(o['lmin']) or fr(mx_) != fr(o['lmax']))):
                    chk.diff('local getMin()/getMax()', dict(case, rank=ri), [ml, mx_], [o['lmin'], o['lmax']])
            have = [o for o in vals if o['lmin'] != 'raise']
            gl = [min(o['lmin'] for o in have), max(o['lmax'] for o in have)]
            if gl != [float(np.min(G)), float(np.max(G))]:
                chk.fail('C17:local-extrema', 'min/max over ranks of getMin()/getMax() differ from the global extrema', case)
        owners = sum(1 for m in mo['min'] if m is not None)
        if empty:
            chk.count('minmax with empty blocks')
        chk.count('minmax %s, owners %s' % (kind, 'all' if owners == len(vals) else ('one' if owners == 1 else 'some')))
        chk.case(('minmax', nd, tuple(P), tuple(npts), name, json_key(sel), cplx), nontrivial=max(P) > 1 and owners < len(vals),
                 sample=dict(case, result=[rt['min'], rt['max']]) if it == 3 else None)


def json_key(x):
    return str(x)


def fr(x):
    """exact value of a float / rational string; None for +-inf, null (the model's neutral element) and None"""
    if x is None or (isinstance(x, float) and math.isinf(x)):
        return None
    return Fraction(x)


# ------------------------------------------------------------------------------------------------
# D. DiagnosticCollector: collect / reduce on rank 0, slot index

def collector_cases(chk, drv):
    from pygyro.model.layout import getLayoutHandler, LayoutSwapper
    from pygyro.model.grid import Grid
    from pygyro.diagnostics.diagnostic_collector import DiagnosticCollector
    rng = chk.rng
    layout_poisson = {'v_parallel_2d': [0, 2, 1], 'mode_solve': [1, 2, 0]}
    layout_vpar = {'v_parallel_1d': [0, 2, 1]}
    layout_poloidal = {'poloidal': [2, 1, 0]}
    Ps = [p for p in proc_grids(chk.n(6, 8)) if p[0] != p[1] or p == (1, 1)]
    for it in range(chk.n(8, 40)):
        P = rng.choice(Ps)
        if it % 4 == 0:
            P = (1, 1)                                # one process: the reduction may take a different path there
        npts = npts_for(rng, P)
        eta = rand_grids(rng, npts)
        saveStep = rng.randint(1, 4)
        dt = rng.choice([1, 2, 3, 5])
        k0 = rng.randint(0, 12)
        off = rng.choice([0, 0, dt - 1])             # times that are not multiples of dt (a run saved with another time step and resumed)
        steps = list(range(k0, k0 + rng.randint(1, saveStep)))      # fewer than saveStep steps apart: no slot is reused
        Fs = [rand_field(rng, npts, False) for _ in steps]
        Phis = [rand_field(rng, npts[:3], True) for _ in steps]
        order = rng.choice(['rank', 'reverse', 'random'])
        n_reduce = rng.choice([1, 1, 2, 3])          # reduce() more than once over the same window (live monitoring, then the final one)
        if it % 4 in (0, 1):
            n_reduce = 3 - it % 4
        renumbered = it % 3 == 2 and P[0] * P[1] > 1

        def body():
            comm = MPI.COMM_WORLD
            h = getLayoutHandler(comm, STD4, list(P), eta)
            f = Grid(eta, [None] * 4, h, 'v_parallel', comm)
            sw = LayoutSwapper(comm, [layout_poisson, layout_vpar, layout_poloidal], [list(P), P[0], P[1]], eta[:3], 'mode_solve')
            phi = Grid(eta[:3], [None] * 3, sw, 'v_parallel_2d', comm, dtype=np.complex128)
            ccomm = comm
            if renumbered:
                # the diagnostics are collected on a communicator with the same members in another numbering (a Split of the world, as
                # the set-up with a plot-only process makes one): root 0 of THAT communicator holds the results
                ccomm = comm.Split(0, comm.Get_size() - comm.Get_rank())
            dc = DiagnosticCollector(ccomm, saveStep, dt, f, phi)
            for k, F, Ph in zip(steps, Fs, Phis):
                f.getAllData()[:] = lu.expected_block(F, f.getLayout('v_parallel'))
                phi.getAllData()[:] = lu.expected_block(Ph, phi.getLayout('v_parallel_2d'))
                dc.collect(f, phi, k * dt + off)
            times = dc.diagnostics[0, :].copy()
            for _ in range(n_reduce):
                dc.reduce()
            return {'rank': ccomm.Get_rank(), 'times': times.tolist(),
                    'rows': [np.array(x, dtype=float).tolist() for x in (dc.l2PhiResult, dc.l2GridResult, dc.l1Result, dc.nPartResult,
                                                                         dc.min_val, dc.max_val, dc.KE_val)]}
        res = lu.run_ranks(int(np.prod(P)), body, policy=rng.choice(['inorder', 'reverse', 'random']), seed=it, reduce_order=order)
        case = {'P': list(P), 'npts': npts, 'saveStep': saveStep, 'dt': dt, 'steps': steps, 'time_offset': off, 'reduce_order': order,
                'reduce_calls': n_reduce, 'collector_communicator': 'the world renumbered in reverse' if renumbered else 'the world'}
        if not res.ok:
            chk.fail('C17:collector-crash', 'DiagnosticCollector raised: ' + str(res.first_error())[:200], case)
            continue
        r0 = [o for o in res.values() if o['rank'] == 0][0]
        for k, F, Ph in zip(steps, Fs, Phis):
            slot = ((k * dt + off) // dt) % saveStep                 # oracle: Python integer arithmetic
            mo = drv.call({'op': 'slot', 't': {'int': k * dt + off}, 'dt': {'int': dt}, 'saveStep': saveStep})
            if mo['slot'] != slot:
                chk.diff('model slot', dict(case, k=k), mo['slot'], slot)
            if r0['times'][slot] != k * dt + off:
                chk.fail('C17:slot', 'collect() did not write step k to slot (t//dt) % saveStep', dict(case, k=k),
                         expected={'slot': slot, 't': k * dt + off}, actual=r0['times'])
                continue
            exp = []
            l2p, sp = serial_quadrature('l2', eta, Ph)
            l2f, sf = serial_quadrature('l2', eta, F)
            l1f, s1 = serial_quadrature('l1', eta, F)
            npf, sn = serial_quadrature('nPart', eta, F)
            kef, sk = serial_quadrature('ke', eta, F)
            got = [row[slot] for row in r0['rows']]
            checks = [('l2 phi', got[0] ** 2, l2p, sp), ('l2 f', got[1] ** 2, l2f, sf), ('l1', got[2], l1f, s1),
                      ('nParticles', got[3], npf, sn), ('KE', got[6], kef, sk)]
            for nm, g_, e_, s_ in checks:
                if abs(g_ - e_) > 2 * FACTOR * common.EPS * s_:
                    chk.fail('C17:reduce-%s' % nm.replace(' ', '_'), 'DiagnosticCollector.reduce on rank 0: %s differs from the serial quadrature' % nm,
                             dict(case, k=k), expected=e_, actual=g_)
            if got[4] != float(F.min()) or got[5] != float(F.max()):
                chk.fail('C17:reduce-minmax', 'DiagnosticCollector.reduce on rank 0: min/max differ from those of the global field', dict(case, k=k),
                         expected=[float(F.min()), float(F.max())], actual=[got[4], got[5]])
        chk.count('collector reduce_order=%s' % order)
        chk.case(('collector', tuple(P), tuple(npts), saveStep, dt, tuple(steps), order), nontrivial=int(np.prod(P)) > 1,
                 sample=dict(case, rank0_l2phi=r0['rows'][0]) if it == 0 else None)
    # slot arithmetic alone, larger box + float refusal
    from pygyro.diagnostics import diagnostic_collector as dcm

    class _G:  # minimal stand-ins so that collect() reaches the indexing statement only
        pass
    for saveStep in range(1, chk.n(6, 9)):
        for dt in (1, 2, 3, 7):
            for k in range(0, chk.n(14, 40)):
                mo = drv.call({'op': 'slot', 't': {'int': k * dt}, 'dt': {'int': dt}, 'saveStep': saveStep})
                if mo['slot'] != k % saveStep:
                    chk.diff('model slot (box)', {'k': k, 'dt': dt, 'saveStep': saveStep}, mo['slot'], k % saveStep)
                chk.evaluations += 1
    float_refusal(chk, drv)


def float_refusal(chk, drv):
    """non-integer dt / t: the real collect() must not write into a wrong slot (it raises IndexError today)"""
    from pygyro.model.layout import getLayoutHandler, LayoutSwapper
    from pygyro.model.grid import Grid
    from pygyro.diagnostics.diagnostic_collector import DiagnosticCollector
    eta = rand_grids(chk.rng, [3, 3, 3, 3])
    layout_poisson = {'v_parallel_2d': [0, 2, 1], 'mode_solve': [1, 2, 0]}
    for (k, dt, saveStep) in [(3, 0.1, 5), (7, 2.0, 3), (4, 0.5, 4), (6, 0.3, 7)]:
        def body():
            comm = MPI.COMM_WORLD
            h = getLayoutHandler(comm, STD4, [1, 1], eta)
            f = Grid(eta, [None] * 4, h, 'v_parallel', comm)
            sw = LayoutSwapper(comm, [layout_poisson, {'v_parallel_1d': [0, 2, 1]}, {'poloidal': [2, 1, 0]}], [[1, 1], 1, 1], eta[:3], 'mode_solve')
            phi = Grid(eta[:3], [None] * 3, sw, 'v_parallel_2d', comm, dtype=np.complex128)
            f.getAllData()[:] = 1.0
            phi.getAllData()[:] = 1.0
            dc = DiagnosticCollector(comm, saveStep, dt, f, phi)
            dc.collect(f, phi, k * dt)
            return dc.diagnostics[0, :].tolist()
        res = lu.run_ranks(1, body)
        t = k * dt
        mo = drv.call({'op': 'slot', 't': {'float': common.rat(t)}, 'dt': {'float': common.rat(dt)}, 'saveStep': saveStep})
        case = {'k': k, 'dt': dt, 'saveStep': saveStep}
        if mo['slot'] is not None:
            chk.diff('model accepts a float time step', case, mo['slot'])
        if res.ok:
            times = res.values()[0]
            good = times[k % saveStep] == t and sum(1 for x in times if x != 0) <= 1
            if good:
                chk.count('float dt accepted by the code, slot correct')
            else:
                chk.fail('C17:slot-float', 'non-integer dt: collect() wrote step k into the wrong slot', case,
                         expected={'slot': k % saveStep}, actual=times)
        else:
            chk.count('float dt refused (%s)' % res.error_kind())
        chk.case(('float', k, dt, saveStep), nontrivial=True)


def run(chk):
    chk.rule = ('diag: (dims, process grid, extents, dims_order, complex?, f==1?) with >1 process and a non-constant random field; '
                'minmax: selector leaves some process without data; replicated: R>1; collector: >1 process')
    chk.proof_side(build=not getattr(chk, 'no_build', False))
    drv = common.LeanDriver('C17.lean')
    try:
        diag_cases(chk, drv)
        replicated_cases(chk, drv)
        minmax_cases(chk, drv)
        collector_cases(chk, drv)
    finally:
        drv.close()
    chk.assumptions = [
        'theta and z grids are uniform (the constructors take dq = q[2]-q[1], dz = z[2]-z[1]); r and v arbitrary increasing grids',
        'np.sum is modelled as an exact sum; the float result is compared within %g*eps*sum|terms|' % FACTOR,
        'the pi-assert of the constructors (dq*n_theta - 2*pi < 1e-7) is not modelled; generated theta grids satisfy it',
        'a float time step is read as "refused" (IndexError); a future code that accepts it is only required to hit the right slot']
    return chk.finish()
