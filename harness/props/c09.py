"""C09 — spline quadrature weights integrate the interpolant exactly.

proof side : Props/C09.lean (quad_duality, weights_sum_domain, periodic_full_integral, uniform_periodic_equal_weights_partial …)
correspondence: real BSplines.integrals, SplineInterpolator1D.get_quadrature_coefficients(), compute_interpolant of /repo vs.
             the ℚ model (Drivers/C08.lean, op "quad"): integrals of every branch of _build_integrals, right-hand side
             basis_quads, exact residual Mᵀw - basis_quads of the transposed solve (contract), w·u and I·c.
oracle     : (no model) exact piecewise-polynomial integration in Fractions of the cell polynomials of every basis function
             (Cox-de Boor on polynomials, independent of the code's degree-raising trick and of the model):
             stored integrals = true integrals; weights·data = exact integral of the real interpolant; sum of the weights =
             domain length; equal weights on uniform periodic spaces.
"""
from fractions import Fraction as F

import numpy as np

import common
from props import c08 as H

LEVEL = 'proof'
CN = H.CN
EPS = H.EPS

LOCAL_KNOWN = {}   # every finding of the build phase has been decided in KNOWN_FINDINGS.json (fixed or known)


def is_uniform(sp):
    d = np.diff(sp.breaks)
    return bool(np.all(np.abs(d - d[0]) <= 8 * common.EPS * max(abs(sp.breaks[0]), abs(sp.breaks[-1]), 1.0)))


def classify(sp, Ir=None, Ie=None, full=None):
    """signature of a quadrature failure on this space: the two recorded findings are recognised by the *specific* wrong
    values they produce on the real `integrals` array (pure numpy, no model); anything else gets the generic signature"""
    if Ir is None or len(Ir) != sp.ncoef:
        return None
    n, d = sp.nb, sp.p

    def near(a, b, sc):
        return abs(F(float(a)) - F(b)) <= F(64) * EPS * 2 * sc
    if sp.per and not sp.cu and not is_uniform(sp):
        # F5a: first n entries right, tail mirrored from integrals[d-i-1]
        if all(near(Ir[k], Ie[k], full[k]) for k in range(n)) and \
                all(near(Ir[n + i], F(float(Ir[d - i - 1])), full[n + i]) for i in range(d)):
            return 'C09:periodic-nonuniform-integrals'
    if sp.cu and not sp.per and sp.nc <= 2:
        dx = sp.T[4] - sp.T[3]
        pat = {1: [F(1, 24), F(23, 24), F(23, 24), F(1, 24)], 2: [F(1, 24), F(1, 2), F(23, 24), F(1, 2), F(1, 24)]}[sp.nc]
        if all(near(Ir[k], pat[k] * dx, dx) for k in range(sp.ncoef)):
            return 'C09:cubic-uniform-few-cells'
    return None


SINGLE_COUNT = [0]


def check_space(chk, drv, sp, stats, ndata):
    from pygyro.splines.splines import Spline1D
    from pygyro.splines.spline_interpolators import SplineInterpolator1D
    rng = chk.rng
    case = sp.desc()
    known = None
    try:
        itp = SplineInterpolator1D(sp.basis)
        w = np.array(itp.get_quadrature_coefficients(), dtype=float)
    except Exception as e:  # noqa: BLE001
        chk.fail('C09:raises', 'get_quadrature_coefficients raised %s: %s' % (type(e).__name__, e), case)
        return
    # the weights handed out belong to the caller: interpolating with the same interpolator afterwards (and asking for the weights
    # again) must not change the array that was returned
    w_held = itp.get_quadrature_coefficients()
    w_first = np.array(w_held, dtype=float, copy=True)
    try:
        sref = Spline1D(sp.basis)
        for _ in range(2):
            itp.compute_interpolant(np.array([rng.uniform(-1, 1) for _ in range(sp.nb)]), sref)
    except Exception as e:  # noqa: BLE001
        chk.fail('C09:raises', 'compute_interpolant after get_quadrature_coefficients raised %s: %s' % (type(e).__name__, e), case)
        return
    held_after = np.array(w_held, dtype=float, copy=True)
    again = np.array(itp.get_quadrature_coefficients(), dtype=float)
    if not np.array_equal(held_after, w_first) or not np.array_equal(w_first, w) or not np.array_equal(again, w):
        chk.fail('C09:weights-aliased', 'the weight vector returned by get_quadrature_coefficients changes when the interpolator is used afterwards '
                 '(or differs between two calls)', case, expected=[float(x) for x in w_first], actual=[float(x) for x in held_after])
        return
    # the caller may do what it likes with the vector it was given (scale it, normalise it in place)
    w_mod = itp.get_quadrature_coefficients()
    try:
        w_mod *= -3.0
        w_mod[:] += 7.0
    except (ValueError, TypeError):
        pass
    again2 = np.array(itp.get_quadrature_coefficients(), dtype=float)
    if not np.array_equal(again2, w):
        chk.fail('C09:weights-aliased', 'get_quadrature_coefficients returns different weights after the vector returned by an earlier call was '
                 'modified in place by its owner', case, expected=[float(x) for x in w], actual=[float(x) for x in again2])
        return
    # ... nor on a single-precision element type named at construction (the weights are the double-precision ones: the matrix is built
    # and factorised in double precision whatever the data will be); one spelling per clamped space, by position
    if not sp.per:
        SINGLE_COUNT[0] += 1
        t32 = [np.float32, 'float32', np.complex64][SINGLE_COUNT[0] % 3]
        try:
            w32 = np.asarray(SplineInterpolator1D(sp.basis, t32).get_quadrature_coefficients())
        except Exception as e:  # noqa: BLE001
            chk.fail('C09:raises', 'get_quadrature_coefficients of an interpolator built with dtype=%r raised %s: %s' % (t32, type(e).__name__, e), case)
            return
        if w32.shape != w.shape or not np.all(np.abs(w32 - w) <= 1e-12 * float(np.abs(w).max())):
            chk.fail('C09:weights-single-precision-interpolator', 'the quadrature weights of an interpolator built with dtype=%r differ from the '
                     'double-precision weights' % (t32,), dict(case, dtype=str(t32)), expected=[float(x) for x in w], actual=[complex(x) for x in np.ravel(w32)])
            return
        chk.count('weights of interpolators built for single-precision data')
    # the weights do not depend on the element type the interpolator was built for (the quasi-neutrality solver builds a complex one)
    if not sp.per:
        try:
            wc = np.asarray(SplineInterpolator1D(sp.basis, complex).get_quadrature_coefficients())
        except Exception as e:  # noqa: BLE001
            chk.fail('C09:raises', 'get_quadrature_coefficients of a complex interpolator raised %s: %s' % (type(e).__name__, e), case)
            return
        tol = 1e-9 * float(np.abs(w).max())
        if wc.shape != w.shape or not np.all(np.abs(np.real(wc) - w) <= tol) or not np.all(np.abs(np.imag(wc)) <= tol):
            chk.fail('C09:weights-complex-interpolator', 'the quadrature weights of an interpolator built for complex data differ from those of the real one',
                     case, expected=[float(x) for x in w], actual=[complex(x) for x in np.ravel(wc)])
            return
    Ir = np.array(sp.basis.integrals, dtype=float)
    xs = np.asarray(sp.basis.greville, dtype=float)
    if not H.all_finite(w, Ir, xs):
        chk.fail('C09:non-finite', 'quadrature weights / integrals / points are not finite', case, actual=[float(x) for x in w])
        return
    n, p = sp.nb, sp.p
    L = sp.b - sp.a
    c08_affected = False     # (periodic ncells == degree was excluded here until the collocation matrix was repaired, fix b4f719e)
    failed = set()

    def fail(sig, what, expected=None, actual=None, extra=None):
        s = known or sig
        if s not in failed:
            chk.fail(s, what, dict(case, **(extra or {})), expected, actual)
        failed.add(s)

    # ------------------------------------------------------------------ oracle (Fractions, no model)
    Ie = H.exact_basis_integrals(sp)                 # unwrapped, length ncells+p
    full = [(sp.T[j + p + 1] - sp.T[j]) / (p + 1) for j in range(sp.ncoef)]
    known = classify(sp, Ir, Ie, full)
    if len(Ir) != sp.ncoef:
        fail('C09:integrals', 'BSplines.integrals has the wrong length', sp.ncoef, len(Ir))
    else:
        def fold(v):
            return [v[j] + (v[n + j] if (sp.per and j < p) else 0) for j in range(n)]
        fe, fr = fold(Ie), fold(H.frs(Ir))
        for j in range(n):
            sc = 2 * full[j] * (2 if sp.per and j < p else 1)
            if abs(fr[j] - fe[j]) > F(64) * EPS * sc:
                fail('C09:integrals', 'stored integral of basis function %d (wrapped parts added) is not its integral over the domain' % j,
                     float(fe[j]), float(fr[j]))
                break
        if sp.per and not sp.cu:
            # general branch stores the two parts of a wrapped function separately: each must be the integral of the
            # unwrapped function over the domain
            for k in list(range(p)) + list(range(n, n + p)):
                if abs(F(float(Ir[k])) - Ie[k]) > F(64) * EPS * 2 * full[k]:
                    fail('C09:integrals', 'stored integral of the unwrapped basis function %d is not its integral over the domain' % k,
                         float(Ie[k]), float(Ir[k]))
                    break
    Mo = H.oracle_matrix(sp, H.frs(xs))
    wf = H.frs(w)
    sw = sum(abs(x) for x in wf)
    # sum of the weights
    if not c08_affected:
        d = abs(sum(wf) - L)
        stats['sum'] = max(stats.get('sum', 0.0), float(d / (EPS * (sw + L)))) if not known else stats.get('sum', 0.0)
        if d > F(CN) * EPS * (sw + L):
            fail('C09:weights-sum', 'quadrature weights do not sum to the domain length', float(L), float(sum(wf)))
    # equal weights on uniform periodic spaces
    if sp.per and is_uniform(sp) and not c08_affected:
        Mn = np.array([[float(v) for v in r] for r in Mo])
        kappa = H.inv_norm(Mn.T)
        tgt = L / n
        # break points that are equidistant only up to the rounding of the coordinates (far from the origin): the cells, and with them
        # the weights, differ by that much
        dbr = np.diff(sp.breaks)
        uneven = F(float(np.max(np.abs(dbr - dbr.mean())))) * 4
        if kappa is None:
            fail('C09:equal-weights', 'interpolation points of a uniform periodic space are not unisolvent')
        for i in range(n if kappa is not None else 0):
            d = abs(wf[i] - tgt)
            if d > F(CN) * EPS * F(kappa) * tgt + F(kappa) * uneven:
                fail('C09:equal-weights', 'weights of a uniform periodic space are not all equal to L/n', float(tgt), float(w[i]))
                break
            stats['equal'] = max(stats.get('equal', 0.0), float(d / (EPS * F(kappa) * tgt)))
        chk.count('uniform periodic: equal weights checked')
    # weights · data = exact integral of the real interpolant
    datas = []
    for k in range(ndata):
        dk = rng.choice(['normal', 'normal', 'scaled', 'big', 'small', 'ints'])
        u = H.gen_data(rng, n, dk)
        spl = Spline1D(sp.basis)
        itp.compute_interpolant(u, spl)
        c = np.array(spl.coeffs, dtype=float)
        if not H.all_finite(c):
            fail('C09:non-finite', 'interpolation coefficients are not finite')
            continue
        cf = H.frs(c)
        exact, esc = H.exact_spline_integral(sp, cf)
        wu = float(np.dot(w, u))
        wMc = sum(abs(wf[i]) * sum(abs(Mo[i][j]) * abs(cf[j]) for j in range(n)) for i in range(n))
        wus = sum(abs(wf[i]) * abs(F(float(u[i]))) for i in range(n))
        bound = F(CN) * EPS * (wMc + esc + wus)
        d = abs(F(wu) - exact)
        if not known and not c08_affected and (wMc + esc + wus) > 0:
            stats['quad'] = max(stats.get('quad', 0.0), float(d / (EPS * (wMc + esc + wus))))
        if d > bound and not c08_affected:
            fail('C09:quadrature', 'weights·data differs from the exact integral of the interpolant of the data', float(exact), wu,
                 extra={'data': dk, 'u': [float(x) for x in u]})
        datas.append((dk, u, c, wu))
        chk.count('data ' + dk)
    # ------------------------------------------------------------------ correspondence
    if not datas:
        return
    dk, u, c, wu = datas[0]
    mo = drv.call({'op': 'quad', 'space': sp.req, 'xgrid': common.rats(xs), 'w': common.rats(w), 'u': common.rats(u),
                   'sol': common.rats(c[:n])})
    if mo.get('integrals') is None:
        chk.diff('model could not compute integrals / matrix', case, mo)
        return
    Im = common.unrats(mo['integrals'])
    # the model itself against the independent exact integration (model-validity test; cu periodic stores the folded value)
    if not (sp.cu and sp.per):
        # periodic knots rounded by make_knots are periodic only up to rounding; the repaired tail `full - integrals[i]` is the
        # exact integral only for exactly periodic knots (dyadic family), otherwise within rounding of the knots
        exactly_periodic = (not sp.per) or all(sp.T[n + k] - sp.T[k] == L for k in range(2 * p + 1))
        if exactly_periodic:
            chk.count('model integrals == exact piecewise integration (exact)')
        if (Im != Ie) if exactly_periodic else \
                any(abs(a - b) > F(64) * EPS * 2 * f for a, b, f in zip(Im, Ie, full)):
            chk.diff('model integrals differ from exact piecewise integration', case, [str(x) for x in Im], [str(x) for x in Ie])
    else:
        if [Im[j] + (Im[n + j] if j < p else 0) for j in range(n)] != [Ie[j] + (Ie[n + j] if j < p else 0) for j in range(n)]:
            chk.diff('model integrals (folded) differ from exact piecewise integration', case)
    same = len(Ir) == len(Im) and all(common.close(r, m, 2 * f, 64) for r, m, f in zip(Ir, Im, full))
    if not same:
        old = mo['integrals_old']
        is_old = len(Ir) == len(old) and all(o is not None and common.close(r, F(o), 2 * f, 64) for r, o, f in zip(Ir, old, full))
        if known and known in failed:
            chk.count('integrals equal the model of the unpatched code' if is_old else 'integrals differ from both models')
        else:
            chk.diff('BSplines.integrals', case, [str(x) for x in Im], [float(x) for x in Ir])
    else:
        chk.count('integrals equal the (repaired) model')
    if not failed and not c08_affected:
        bq = common.unrats(mo['bq'])
        qres, qsc = common.unrats(mo['qres']), common.unrats(mo['qscale'])
        for j in range(n):
            b = qsc[j] + abs(bq[j])
            if b > 0:
                stats['qres'] = max(stats.get('qres', 0.0), float(abs(qres[j]) / (EPS * b)))
            if abs(qres[j]) > F(CN) * EPS * b:
                chk.diff('transposed-solve contract: residual of column %d' % j, case, float(qres[j]), float(b))
                if abs(qres[j]) > F(10 ** 6) * EPS * b:
                    # far beyond what any backward-stable solve leaves: the weights belong to another matrix.  Failing input: the data u
                    # of this case, interpolated EXACTLY (fractions, the exact collocation matrix) and integrated exactly
                    cstar = H.solve_exact([list(r) for r in Mo], H.frs(u))
                    if cstar is not None:
                        cfull = list(cstar) + (list(cstar[:p]) if sp.per else [])
                        iex, _ = H.exact_spline_integral(sp, cfull[:len(H.exact_basis_integrals(sp))])
                        if abs(F(wu) - iex) > F(1, 10 ** 6) * (wus + abs(iex)):
                            fail('C09:weights-vs-exact-interpolant', 'weights·data is not the integral of the spline that interpolates the data '
                                 '(interpolated exactly with the exact collocation matrix)', float(iex), wu, extra={'data': [float(x) for x in u]})
                break
        if not common.close(wu, F(mo['wu']), F(mo['wu_scale']), 64):
            chk.diff('weights·data', case, mo['wu'], wu)
        # duality on the model side: w·u and I·c (exact) agree up to the two measured residuals
        Mm_scale = sum(abs(wf[i]) * sum(abs(Mo[i][j]) * abs(F(float(c[j]))) for j in range(n)) for i in range(n))
        if abs(F(mo['wu']) - F(mo['Ic'])) > F(CN) * EPS * (2 * Mm_scale + F(mo['Ic_scale'])):
            chk.diff('model: w·u and I·c differ by more than the residuals allow', case, mo['wu'], mo['Ic'])
        if abs(F(mo['bqsum']) - L) > F(64) * EPS * (abs(sp.a) + abs(sp.b)):
            chk.diff('model: folded integrals do not sum to the domain length', case, mo['bqsum'], float(L))
    chk.case(('quad',) + sp.key(), nontrivial=True,
             sample={'space': case, 'weights': [float(x) for x in w], 'w.u': wu, 'exact integral of interpolant':
                     float(H.exact_spline_integral(sp, H.frs(c))[0])} if not chk.samples else None)
    chk.count('%s %s deg%d' % ('periodic' if sp.per else 'clamped', 'cu' if sp.cu else ('uniform' if is_uniform(sp) else 'non-uniform'), p))


def run(chk):
    common.use_repo(sim_mpi=False)
    chk.rule = ('spaces: degree 1-5, clamped/periodic, uniform (cubic fast path and general path), dyadic and random non-uniform, '
                '1..12 cells incl. every minimal size (1,2,3 cells for clamped uniform cubic, ncells = degree+1 periodic); per space '
                'several data vectors (normal, per-entry 2^±30, 2^30, 2^-30, integers); distinct by (degree, boundary, kind, cells)')
    chk.proof_side(build=not getattr(chk, 'no_build', False), extra_props=('C09Extra',))
    rng = chk.rng
    drv = common.LeanDriver('C08.lean')
    stats = {}
    try:
        fixed = []
        for p in range(1, 6):
            for per in (False, True):
                for kind in ('uniform', 'dyadic', 'random'):
                    for nc in ((p, p + 1, p + 2) if per else (1, 2, 3)):
                        fixed.append((p, per, kind, nc))
        for kind in ('cu', 'cu-dyadic'):
            for per, ncs in ((False, (1, 2, 3, 4)), (True, (3, 4, 5))):
                for nc in ncs:
                    fixed.append((3, per, kind, nc))
        if chk.quick():
            fixed = [f for k, f in enumerate(fixed) if (k + chk.seed) % 3 == 0 or f[2].startswith('cu')]
        todo = [H.gen_space(rng, p, per, kind, nc) for (p, per, kind, nc) in fixed]
        # uniform cubic spaces (fast path) with generic origins / lengths and up to 30 cells: quotients like (x - xmin)/dx are then
        # not exact, e.g. the simulation's radial domain [0.1, 14.5]
        for k in range(chk.n(90, 400)):
            a = rng.choice([0.1, 0.1, 0.3, 1.1, rng.uniform(-10, 10), rng.uniform(0, 2)])
            L_ = rng.choice([1.0, 14.4, rng.uniform(0.5, 20.0)])
            todo.append(H.Sp(3, k % 3 == 2, 'cu', np.linspace(a, a + L_, rng.randint(4, 30) + 1)))
        # periodic spaces FAR from the origin whose cells are small compared with the coordinates (a window of a long domain): the knots are
        # as far apart as anywhere else, only a comparison relative to the size of the coordinates takes them for equal
        for k, (a_, L_) in enumerate([(2000.0, 0.125), (-50000.0, 1.0), (4096.0, 0.5), (1.0e6, 8.0)]):
            pdeg = [2, 3, 4, 5][k]
            w_ = np.array([1.0 + 0.5 * (j % 3) for j in range(pdeg + 5)]) if k % 2 else np.ones(pdeg + 5)
            todo.append(H.Sp(pdeg, True, 'random' if k % 2 else 'uniform', a_ + L_ * np.concatenate([[0.0], np.cumsum(w_)]) / w_.sum()))
        # locally refined / strongly graded PERIODIC grids (neighbouring cells that differ by factors 5-50): the interpolation point of
        # basis function i is then not in "its" cell i, and the cut functions at the seam have very different supports
        for k, pdeg in enumerate([2, 4, 5, 3, 4]):
            w_ = np.array([[1, 1, 0.1, 0.1, 0.1, 1, 5, 1, 0.2, 3], [4, 0.2, 0.2, 6, 0.1, 2, 9, 0.3], [0.1, 3, 0.1, 3, 0.1, 3, 0.1, 3, 7],
                           [5, 1, 0.2, 0.04, 0.2, 1, 5], [0.05, 0.05, 8, 0.05, 8, 2, 0.4, 0.4, 10, 1, 1]][k], dtype=float)
            todo.append(H.Sp(pdeg, True, 'random', [-1.0, 0.0, 0.3, 2.0, -7.5][k] + np.concatenate([[0.0], np.cumsum(w_)])))
        # knot vectors of whole numbers handed over as integer arrays (hand-built with np.arange): the same spaces as with float knots
        for k in range(chk.n(12, 60)):
            pdeg = 3 if k % 2 == 0 else rng.randint(1, 5)
            per = k % 4 == 1
            a0 = rng.randint(-3, 3)
            ncell = rng.randint(max(pdeg + 1, 4) if per else 1, 9)
            step = rng.choice([1, 1, 2, 3])
            todo.append(H.Sp(pdeg, per, 'cu' if pdeg == 3 and k % 2 == 0 else 'uniform', np.arange(a0, a0 + step * ncell + 1, step), int_knots=True))
        # pairs of DIFFERENT non-uniform spaces that agree in degree, number of cells, boundary condition and domain (two stretched
        # velocity grids over the same interval, a refinement loop): nothing may be remembered per (degree, cells, domain)
        for k in range(chk.n(6, 24)):
            pdeg = [1, 2, 3, 5, 3, 4][k % 6]
            per = k % 2 == 1
            ncell = max(pdeg + 1, 4) + k % 3
            a0, L0 = rng.choice([(0.0, 1.0), (-7.32, 14.64), (0.0, 10.0)])
            for variant in range(2):
                w_ = np.array([1.0 + (0.6 * j if variant == 0 else 0.6 * (ncell - 1 - j) + 0.3 * (j % 2)) for j in range(ncell)])
                br_ = a0 + L0 * np.concatenate([[0.0], np.cumsum(w_)]) / w_.sum()
                br_[-1] = a0 + L0
                todo.append(H.Sp(pdeg, per, 'random', br_))
        # break points that are non-uniform but exactly mirror-symmetric about the middle of the domain (a grid refined symmetrically
        # about v = 0), every degree, periodic and clamped
        for k in range(chk.n(10, 40)):
            pdeg = 1 + k % 5
            per = k % 2 == 0
            half = [rng.choice([0.25, 0.5, 1.0, 1.5, 2.0]) for _ in range(rng.randint(max(2, (pdeg + 2) // 2), 4))]
            w_ = half + ([rng.choice([0.5, 1.0])] if k % 3 == 0 else []) + half[::-1]
            L_ = float(sum(w_))
            todo.append(H.Sp(pdeg, per, 'dyadic', -L_ / 2 + np.concatenate([[0.0], np.cumsum(w_)])))
        # strongly graded clamped spaces (one very short cell, high degree on few cells): some weights are NEGATIVE there
        for k in range(chk.n(10, 60)):
            pdeg = rng.choice([3, 3, 4, 5])
            ncell = rng.randint(1, 5)
            w_ = [rng.uniform(0.5, 1.5) for _ in range(ncell)]
            w_[rng.randrange(ncell)] *= rng.choice([0.01, 0.003])
            todo.append(H.Sp(pdeg if ncell > 1 else rng.choice([5, 5, 4]), False, 'random', np.concatenate([[0.0], np.cumsum(w_)])))
        todo += [H.gen_space(rng) for _ in range(chk.n(180, 3000))]
        for sp in todo:
            check_space(chk, drv, sp, stats, chk.n(2, 4))
    finally:
        drv.close()
    chk.notes['contract_and_oracle_ratios'] = dict(stats, CN=CN, meaning='largest |difference|/(eps*scale) seen on spaces without a known finding')
    chk.assumptions = [
        'LAPACK dgbtrs(trans) and SuperLU solve(trans="T") are contracts: Mᵀ w = basis_quads; the exact residual is measured on every '
        'space and accepted within CN*eps*(sum_i|M_ij||w_i| + |rhs_j|) (CN = %g)' % CN,
        'the integral of a spline is defined algebraically: sum over cells of the increments of the formal antiderivative of the cell '
        'polynomials (Fractions); integrals_antiderivative is not proved in Lean (statement kept as a Prop), the identity is covered by '
        'the exact agreement model = piecewise integration on every generated space',
        'the model follows the repaired _build_integrals (two patches in /verif/notes); the unpatched behaviour is kept as '
        'integralsGeneralOld / cuIntegralsClampedOld with evaluated witnesses in Props/C09.lean',
        'uniform-cubic periodic spaces store the folded integral (dx, …, 0, 0, 0); only the folded value is claimed there',
    ]
    return H.finish_local(chk, LOCAL_KNOWN)
