"""C20 — process-grid selection returns a valid factorisation or reports none exists.

proof side : Props/C20.lean (procgrid_terminates, procgrid_valid, nondivisor_never_accepted, procgrid_error_iff,
             procgrid_returns_iff, standard_layouts_buildable, ...) about Model/ProcGrid.lean.
correspondence: the real `compute_2d_process_grid_from_max` / `compute_2d_process_grid` of /repo vs. the Lean model
             (Drivers/C20.lean): returned pair or refusal kind, exactly; exhaustive box + random up to 10^6;
             the real `setupCylindricalGrid` under the simulated MPI vs. the model's standard-layout facts.
oracle     : brute-force divisor enumeration (no model): a returned pair is a valid factorisation, RuntimeError iff
             none exists, the call returns (watchdog), the standard layouts build and nobody is empty.

Floats: the code compares binary64 ratios, the model exact ones.  They can only disagree when two candidate ratios
are equal or agree to ~2^-50; a model/implementation difference on an input with an exact tie or a near-tie
(relative gap < 2^-40) between two candidate ratios is discarded and counted, never reported.
"""
import math
import os
import signal
from fractions import Fraction

import numpy as np

import common

LEVEL = 'proof'
MSG = 'There is no valid combination of processors for this grid'
NAMES = ['flux_surface', 'v_parallel', 'poloidal']      # order of the dictionary in setups.py
ORDERS = {'flux_surface': [0, 3, 1, 2], 'v_parallel': [0, 2, 1, 3], 'poloidal': [3, 2, 1, 0]}


class Hang(Exception):
    pass


def _alarm(*a):
    raise Hang()


HANGS = [0]
MAX_HANGS = 8


def guarded(fn, args, budget=3.0):
    """run the real function with a watchdog -> ('grid',(n1,n2)) | ('error',) | ('hang',) | ('exc', text) | ('bad', repr)
    (a call on arguments <= 10^6 takes < 0.5 s; after three time-outs the budget shrinks, after MAX_HANGS the sections stop)"""
    if HANGS[0] >= 3:
        budget = min(budget, 1.0)
    try:
        signal.setitimer(signal.ITIMER_REAL, budget)
        try:
            r = fn(*args)
        finally:
            signal.setitimer(signal.ITIMER_REAL, 0)
    except Hang:
        HANGS[0] += 1
        return ('hang',)
    except RuntimeError as e:
        return ('error',) if str(e) == MSG else ('exc', 'RuntimeError: %s' % e)
    except Exception as e:  # noqa: BLE001
        return ('exc', '%s: %s' % (type(e).__name__, e))
    try:
        a, b = r
        if int(a) != a or int(b) != b:
            return ('bad', repr(r))
        return ('grid', (int(a), int(b)))
    except Exception:  # noqa: BLE001
        return ('bad', repr(r))


def divisors(s):
    out = []
    for a in range(1, int(math.isqrt(s)) + 1):
        if s % a == 0:
            out.append(a)
            if a * a != s:
                out.append(s // a)
    return sorted(out)


def valid_set(m1, m2, s, divs=None):
    return [(a, s // a) for a in (divs if divs is not None else divisors(s)) if a <= m1 and s // a <= m2]


def oracle(chk, what, case, out, valid):
    """the property on the real code, decided by divisor enumeration; True when it holds"""
    k = out[0]
    if k == 'grid':
        if not valid:
            chk.fail('C20:grid-but-none-exists', what + ': a grid is returned although no factorisation n1*n2=size with n1<=max1, n2<=max2 exists',
                     case, expected='RuntimeError', actual=list(out[1]))
            return False
        if tuple(out[1]) not in valid:
            chk.fail('C20:invalid-grid', what + ': returned pair is not a valid factorisation (n1*n2=size, n1<=max1, n2<=max2)',
                     case, expected={'one of': [list(v) for v in valid[:8]]}, actual=list(out[1]))
            return False
        return True
    if k == 'error':
        if valid:
            chk.fail('C20:error-but-exists', what + ': RuntimeError although a valid factorisation exists',
                     case, expected={'one of': [list(v) for v in valid[:8]]}, actual=MSG)
            return False
        return True
    if k == 'hang':
        chk.fail('C20:no-termination', what + ': the call did not return within the watchdog budget (search does not terminate)', case)
    elif k == 'exc':
        chk.fail('C20:other-exception', what + ': raised ' + out[1][:160], case,
                 expected=('one of ' + str(valid[:4])) if valid else 'RuntimeError(' + MSG + ')')
    else:
        chk.fail('C20:not-a-pair-of-ints', what + ': returned ' + out[1][:80], case)
    return False


def exact_ratio(m1, m2, a, b):
    d1, d2 = Fraction(m1, a), Fraction(m2, b)
    return max(d1, d2) / min(d1, d2)


def tie_present(m1, m2, s):
    """two candidates of the second search whose exact ratios are equal or within 2^-40 (relative)"""
    cands = [a for a in divisors(s) if a <= m1 and s // a <= m2]
    if m1 <= s and s // m1 >= 1 and s // m1 <= m2 and m1 not in cands:
        cands.append(m1)
    rs = sorted(exact_ratio(m1, m2, a, s // a) for a in cands)
    return any(r2 - r1 <= r2 * Fraction(1, 2 ** 40) for r1, r2 in zip(rs, rs[1:]))


def model_out(mo):
    if 'error' in mo and 'kind' not in mo:
        return ('driver-error', mo['error'])
    if mo['kind'] == 'grid':
        return ('grid', (mo['n1'], mo['n2']))
    return (mo['kind'],)


def decode(code):
    if code == 0:
        return ('error',)
    if code == 1:
        return ('fuel',)
    return ('grid', (code >> 20, code & ((1 << 20) - 1)))


def compare(chk, what, case, impl, model, m1, m2, s):
    if impl[0] in ('hang', 'exc', 'bad'):
        return          # reported by the oracle; the model has no such outcome
    if impl != model:
        if model[0] == 'grid' and impl[0] == 'grid' and tie_present(m1, m2, s):
            chk.count('discarded: differs from the model on an (almost) exact tie of two ratios')
            return
        chk.diff(what, case, list(model), list(impl))


def next_candidate_is_nondivisor(m1, s, n1, divs):
    """does the second search, standing at n1, meet the non-divisor candidate new_n1 = max1 ?"""
    if m1 > s or s % m1 == 0 or n1 >= m1:
        return False
    return not any(n1 < d < m1 for d in divs)


# ----------------------------------------------------------------------------------------------

def box(chk, drv, f):
    M1, M2, S = chk.n((30, 30, 64), (60, 60, 128))
    divs = {s: divisors(s) for s in range(1, S + 1)}
    for m1 in range(1, M1 + 1):
        codes = drv.call({'op': 'box', 'm1': m1, 'M2': M2, 'S': S})['codes']
        i = 0
        for m2 in range(1, M2 + 1):
            for s in range(1, S + 1):
                mo = decode(codes[i])
                i += 1
                out = guarded(f, (m1, m2, s), budget=2.0)
                V = valid_set(m1, m2, s, divs[s])
                case = {'max_proc1': m1, 'max_proc2': m2, 'mpi_size': s}
                oracle(chk, 'compute_2d_process_grid_from_max', case, out, V)
                compare(chk, 'from_max (box)', case, out, mo, m1, m2, s)
                if mo[0] == 'fuel':
                    chk.diff('model ran out of fuel', case, list(mo), list(out))
                nd = out[0] == 'grid' and next_candidate_is_nondivisor(m1, s, out[1][0], divs[s])
                chk.case((m1, m2, s), nontrivial=len(V) >= 2 or (not V and s <= m1 * m2),
                         sample=dict(case, result=[list(x) if isinstance(x, tuple) else x for x in out], valid=[list(v) for v in V]) if (m1, m2, s) == (5, 3, 12) else None)
                chk.count('box: ' + ('error' if out[0] == 'error' else 'grid, %s' % ('only one factorisation' if len(V) == 1 else 'several') if out[0] == 'grid' else out[0]))
                if nd:
                    chk.count('box: search stops on the non-divisor candidate new_n1 = max_proc1')
            if HANGS[0] > MAX_HANGS:
                break
        if HANGS[0] > MAX_HANGS:
            chk.notes['box_aborted'] = 'too many calls exceeded the watchdog'
            break
    chk.exhaustive = HANGS[0] == 0
    chk.notes['box'] = 'all 1<=max1<=%d, 1<=max2<=%d, 1<=size<=%d' % (M1, M2, S)


def lu(rng, hi):
    return max(1, min(hi, int(math.exp(rng.uniform(0, math.log(hi + 1))))))


def smooth(rng, hi):
    s = 1
    while True:
        p = rng.choice([2, 2, 2, 3, 3, 5, 7, 11, 13])
        if s * p > hi:
            return s
        s *= p
        if rng.random() < 0.12:
            return s


def rand_case(rng, hi=10 ** 6):
    fam = rng.randrange(5)
    if fam == 0:
        return 'log-uniform', (lu(rng, hi), lu(rng, hi), lu(rng, hi))
    if fam == 1:                                   # many divisors, maxima around the balanced split
        s = smooth(rng, hi)
        r = max(1, int(math.sqrt(s) * math.exp(rng.uniform(-1.5, 1.5))))
        return 'smooth size', (min(hi, max(1, r + rng.randint(-2, 2))), min(hi, max(1, s // r + rng.randint(-2, 40))), s)
    if fam == 2:                                   # max1 <= size, max1 does not divide size, nothing between n1 and max1
        a, b = lu(rng, 1000), lu(rng, 1000)
        s = a * b
        m1 = a + rng.randint(1, 3)
        return 'max1 just above a divisor', (m1, b + rng.randint(0, 3), s)
    if fam == 3:                                   # boundary of existence
        a, b = lu(rng, 1000), lu(rng, 1000)
        return 'existence boundary', (max(1, a - rng.randint(0, 1)), max(1, b - rng.randint(0, 1)), a * b)
    s = smooth(rng, hi)                            # exact ties: equal maxima / one a multiple of the other
    m = lu(rng, 3000)
    return 'tie-prone maxima', (m * rng.choice([1, 1, 2, 3]), m, s)


def randoms(chk, drv, f):
    rng = chk.rng
    N = chk.n(2500, 25000)
    cases = [rand_case(rng) for _ in range(N)]
    models = drv.batch([{'op': 'frommax', 'm1': a, 'm2': b, 's': s} for _, (a, b, s) in cases])
    for it, ((fam, (m1, m2, s)), mo) in enumerate(zip(cases, models)):
        if HANGS[0] > MAX_HANGS:
            break
        mo = model_out(mo)
        # the numbers as a caller may hold them: Python ints or numpy integers (an element of an array of process counts, the product
        # of a topology); every fifth case the latter
        args_ = (np.int64(m1), np.int64(m2), np.int64(s)) if it % 5 == 3 else (m1, m2, s)
        out = guarded(f, args_, budget=20.0)
        if out[0] == 'grid':
            out = ('grid', tuple(int(x) for x in out[1]))
        dv = divisors(s)
        V = valid_set(m1, m2, s, dv)
        case = {'max_proc1': m1, 'max_proc2': m2, 'mpi_size': s}
        oracle(chk, 'compute_2d_process_grid_from_max', case, out, V)
        compare(chk, 'from_max (random)', case, out, mo, m1, m2, s)
        if mo[0] in ('fuel', 'driver-error'):
            chk.diff('model: ' + mo[0], case, list(mo), list(out))
        chk.case(('r', m1, m2, s), nontrivial=len(V) >= 2 or (not V and s <= m1 * m2),
                 sample=dict(case, result=[list(x) if isinstance(x, tuple) else x for x in out], n_valid=len(V)) if it == 0 else None)
        chk.count('random %s: %s' % (fam, out[0]))
        if out[0] == 'grid' and next_candidate_is_nondivisor(m1, s, out[1][0], dv):
            chk.count('random: search stops on the non-divisor candidate new_n1 = max_proc1')


def from_npts(chk, drv, g):
    """compute_2d_process_grid(npts, size): which maxima are passed on"""
    rng = chk.rng
    P, S = chk.n((5, 24), (7, 48))
    reqs, meta = [], []
    for p0 in range(1, P + 1):
        for p2 in range(1, P + 1):
            for p3 in range(1, P + 1):
                for s in range(1, S + 1):
                    npts = [p0, rng.randint(1, 40), p2, p3]
                    reqs.append({'op': 'grid', 'npts': npts, 's': s})
                    meta.append((npts, s, 'small box'))
    for _ in range(chk.n(400, 4000)):
        npts = [lu(rng, 600) for _ in range(4)]
        m1, m2 = min(npts[0], npts[3]), min(npts[2], npts[3])
        s = rng.choice([lu(rng, 4096), smooth(rng, 4096), rng.randint(1, m1) * rng.randint(1, m2), rng.randint(1, m1) * rng.randint(1, m2)])
        reqs.append({'op': 'grid', 'npts': npts, 's': s})
        meta.append((npts, s, 'random'))
    for (npts, s, fam), mo in zip(meta, drv.batch(reqs)):
        if HANGS[0] > MAX_HANGS:
            break
        mo = model_out(mo)
        out = guarded(g, (list(npts), s), budget=10.0)
        m1, m2 = min(npts[0], npts[3]), min(npts[2], npts[3])
        V = valid_set(m1, m2, s)
        case = {'npts': npts, 'mpi_size': s}
        oracle(chk, 'compute_2d_process_grid (n1 <= min(npts[0],npts[3]), n2 <= min(npts[2],npts[3]))', case, out, V)
        compare(chk, 'compute_2d_process_grid', case, out, mo, m1, m2, s)
        distinct_maxima = len({npts[0], npts[2], npts[3]}) == 3
        chk.case(('g', tuple(npts), s), nontrivial=distinct_maxima and (len(V) >= 1),
                 sample=dict(case, result=[list(x) if isinstance(x, tuple) else x for x in out]) if (fam == 'random' and len(V) > 2 and len(chk.samples) < 3) else None)
        chk.count('npts %s: %s' % (fam, out[0]))


def setups(chk, drv, g):
    """really build the standard layouts with setupCylindricalGrid on simulated ranks"""
    from mpi4py import MPI
    from pygyro.initialisation.setups import setupCylindricalGrid
    rng = chk.rng

    def body(npts, lay, deg, plot=False, draw=0):
        comm = MPI.COMM_WORLD
        # the flag as a caller may spell it: True, 1, a numpy bool (an element of an array of options)
        kw = {'plotThread': [True, 1, np.True_][sum(npts) % 3], 'drawRank': draw} if plot else {}
        grid, consts, t = setupCylindricalGrid(layout=lay, npts=list(npts), comm=comm, splineDegrees=list(deg), **kw)
        lm = grid._layout_manager
        return {'nprocs': [int(x) for x in lm.nProcs],
                'ext': [len(e) for e in grid.eta_grid],
                'shapes': {n: [int(x) for x in lm.getLayout(n).shape] for n in NAMES},
                'orders': {n: [int(x) for x in lm.getLayout(n).dims_order] for n in NAMES},
                'compat': [[bool(lm.compatible(lm.getLayout(a), lm.getLayout(b))) for b in NAMES] for a in NAMES],
                'own': [int(x) for x in grid._f.shape]}

    for it in range(chk.n(30, 240)):
        if rng.random() < 0.6:
            deg = [1, 1, 1, 1]
            npts = [rng.randint(2, 6) for _ in range(4)]
        else:
            deg = [rng.randint(1, 3) for _ in range(4)]
            npts = [rng.randint(d + 1, 9) for d in deg]
        size = rng.randint(1, 8)
        if it < 6:
            # only a degenerate grid is admissible: (1, p) resp. (p, 1) with p prime and larger than the extent of the other direction
            deg = [1, 1, 1, 1]
            small, big = rng.choice([2, 3]), [rng.randint(7, 9) for _ in range(2)]
            npts = [small, rng.randint(2, 6), big[0], big[1]] if it % 2 == 0 else [big[0], rng.randint(2, 6), small, big[1]]
            size = rng.choice([5, 7])
        lay = rng.choice(NAMES)
        if HANGS[0] > MAX_HANGS:
            break
        m1, m2 = min(npts[0], npts[3]), min(npts[2], npts[3])
        V = valid_set(m1, m2, size)
        case = {'npts': npts, 'mpi_size': size, 'layout': lay, 'degrees': deg}
        pre = guarded(g, (list(npts), size), budget=10.0)       # watchdog outside the rank threads
        if pre[0] in ('hang', 'bad'):
            oracle(chk, 'compute_2d_process_grid', case, pre, V)
            continue
        # with a process that is only there for plotting: `size` computing processes + the drawing rank (any position)
        plot = rng.random() < 0.35
        draw = rng.randrange(size + 1) if plot else 0
        if plot:
            case.update(plotThread=True, drawRank=draw)
        res = MPI.run(size + (1 if plot else 0), body, npts, lay, deg, plot, draw, policy='random', seed=it)
        chk.count('setup ranks=%d: %s' % (size, 'built' if res.ok else 'refused'))
        chk.case(('setup', tuple(npts), size), nontrivial=size > 1 and bool(V), sample=dict(case, nprocs=res.values()[0]['nprocs']) if (res.ok and size == 6) else None)
        chk.traces_validated += 1
        if not res.ok:
            err = str(res.first_error())
            if V:
                chk.fail('C20:setup-raises', 'setupCylindricalGrid raises although a valid process grid exists: ' + err[:160], case,
                         expected={'one of': [list(v) for v in V]})
            elif MSG not in err:
                chk.fail('C20:setup-other-error', 'no factorisation exists, expected RuntimeError(%s), got %s' % (MSG, err[:160]), case)
            if model_out(drv.call({'op': 'grid', 'npts': npts, 's': size})) != ('error',) and not V:
                chk.diff('setup refusal', case, 'grid', 'error')
            continue
        vals = res.values()
        if plot:
            dv = vals[draw]
            vals = [v for r, v in enumerate(vals) if r != draw]
            if any(int(np.prod(dv['shapes'][n])) != 0 for n in NAMES):
                chk.fail('C20:plot-rank-owns-data', 'the process that is only there for plotting owns grid points', case, actual=dv['shapes'])
        if not V:
            chk.fail('C20:grid-but-none-exists', 'setupCylindricalGrid builds layouts although no valid factorisation exists', case,
                     actual=vals[0]['nprocs'])
            continue
        # (a direction with one process may be left out of the handler's grid: it distributes nothing)
        n1, n2 = (list(vals[0]['nprocs']) + [1, 1])[:2]
        if n1 * n2 != size or any(v['nprocs'] != vals[0]['nprocs'] for v in vals) or any(v['ext'] != npts for v in vals):
            chk.fail('C20:invalid-grid', 'process grid of the built layouts does not multiply to the process count / differs between ranks', case,
                     actual=[v['nprocs'] for v in vals])
            continue
        empty = [(r, n) for r, v in enumerate(vals) for n in NAMES if min(v['shapes'][n]) < 1]
        if empty:
            chk.fail('C20:empty-block', 'a process owns no point in some dimension of a standard layout', case,
                     actual={'nprocs': [n1, n2], 'rank, layout': empty[:4]})
        # the three layouts tile the whole index box over the ranks
        for n in NAMES:
            tot = sum(int(np.prod(v['shapes'][n])) for v in vals)
            if tot != int(np.prod(npts)):
                chk.fail('C20:layout-not-a-partition', 'blocks of layout %s over all ranks do not add up to the global size' % n, case,
                         expected=int(np.prod(npts)), actual=tot)
        c = vals[0]['compat']
        if not (c[0][1] and c[1][2]):
            chk.fail('C20:not-connected', 'consecutive standard layouts are not directly connected', case, actual=c)
        # correspondence with the model
        mo = drv.call({'op': 'standard', 'npts': npts, 'n1': n1, 'n2': n2})
        im_min = [[min(v['shapes'][n][i] for v in vals) for i in range(4)] for n in NAMES]
        im = {'orders': [vals[0]['orders'][n] for n in NAMES], 'minlen': im_min, 'compatible': c}
        if mo != im:
            chk.diff('standard layouts on the grid', case, mo, im)
        mg = model_out(drv.call({'op': 'grid', 'npts': npts, 's': size}))
        if mg != ('grid', (n1, n2)):
            if not tie_present(m1, m2, size):
                chk.diff('grid used by setupCylindricalGrid', case, list(mg), [n1, n2])


def restart_setups(chk, drv, g):
    """the restart path builds its process grid itself (setupFromFile): same requirements as for setupCylindricalGrid, for process
    counts close to the number of points of the distributed dimensions"""
    import shutil
    import tempfile
    from mpi4py import MPI
    common.use_repo(sim_mpi=True, h5=True)
    from pygyro.initialisation.setups import setupCylindricalGrid, setupFromFile
    from pygyro.utilities.savingTools import setupSave
    rng = chk.rng
    work = tempfile.mkdtemp(prefix='pgc20r')
    try:
        for it in range(chk.n(10, 60)):
            npts = [rng.randint(4, 9), rng.randint(4, 8), rng.randint(4, 6), rng.randint(4, 9)]
            folder = os.path.join(work, 'r%d' % it)

            def prepare():
                comm = MPI.COMM_WORLD
                grid, consts, t = setupCylindricalGrid(layout='v_parallel', npts=list(npts), comm=comm, allocateSaveMemory=True)
                setupSave(consts, folder, comm)
                grid.writeH5Dataset(folder, 0)
                return True
            w = MPI.run(1, prepare)
            if not w.ok:
                chk.fail('C20:setup-raises', 'serial set-up + save raised: ' + str(w.first_error())[:160], {'npts': npts})
                continue
            m1, m2 = min(npts[0], npts[3]), min(npts[2], npts[3])
            # process counts around the admissible maxima
            for size in sorted({m1, m2, m1 * m2 if m1 * m2 <= 12 else m1 + 1, max(1, m2 - 1), rng.randint(2, 10)}):
                if size > 12:
                    continue
                V = valid_set(m1, m2, size)
                case = {'npts': npts, 'mpi_size': size, 'path': 'setupFromFile'}
                if HANGS[0] > MAX_HANGS:
                    break
                pre = guarded(g, (list(npts), size), budget=10.0)       # watchdog outside the rank threads
                if pre[0] in ('hang', 'bad'):
                    oracle(chk, 'compute_2d_process_grid', case, pre, V)
                    continue

                # several simulations side by side: the world is split into `groups` communicators of `size` processes, each restarts on its own
                groups = 2 if (size <= 5 and rng.random() < 0.5) else 1
                if groups > 1:
                    case['simulations_side_by_side'] = groups

                # ... or one simulation with a process that is only there for plotting, at any position of the communicator
                plot = groups == 1 and (it + size) % 3 == 0
                draw = (it + 1) % (size + 1) if plot else 0
                if plot:
                    case.update(plotThread=True, drawRank=draw)

                def body():
                    world = MPI.COMM_WORLD
                    comm = world if groups == 1 else world.Split(world.Get_rank() // size, world.Get_rank())
                    kw = {'plotThread': [True, 1, np.True_][(it // 3) % 3], 'drawRank': draw} if plot else {}
                    grid, consts, t = setupFromFile(folder, comm=comm, allocateSaveMemory=True, **kw)
                    lm = grid._layout_manager
                    return {'nprocs': [int(x) for x in lm.nProcs], 'shapes': {n: [int(x) for x in lm.getLayout(n).shape] for n in NAMES},
                            'own': int(np.prod(grid._f.shape))}
                res = MPI.run(size * groups + (1 if plot else 0), body, policy='random', seed=it)
                chk.count('restart set-up ranks=%d: %s' % (size, 'built' if res.ok else 'refused'))
                chk.case(('restart-setup', tuple(npts), size), nontrivial=size > 1 and bool(V))
                if not res.ok:
                    err = str(res.first_error())
                    if V:
                        chk.fail('C20:setup-raises', 'setupFromFile raises although a valid process grid exists: ' + err[:160], case,
                                 expected={'one of': [list(v) for v in V]})
                    elif MSG not in err:
                        chk.fail('C20:setup-other-error', 'no factorisation exists, expected RuntimeError(%s), got %s' % (MSG, err[:160]), case)
                    continue
                vals = res.values()
                if plot:
                    dv = vals[draw]
                    vals = [v for r_, v in enumerate(vals) if r_ != draw]
                    if dv['own'] != 0:
                        chk.fail('C20:plot-rank-owns-data', 'after setupFromFile the process that is only there for plotting owns grid points', case,
                                 actual=dv['shapes'])
                        continue
                if groups > 1 and vals[size:] != vals[:size]:
                    chk.fail('C20:invalid-grid', 'two simulations restarted side by side on equal communicators get different layouts', case,
                             actual=[v['nprocs'] for v in vals])
                    continue
                vals = vals[:size]
                if V and sum(v['own'] for v in vals) != int(np.prod(npts)):
                    chk.fail('C20:layout-not-a-partition', 'after setupFromFile the blocks held by the processes of one simulation do not add up to the global size',
                             case, expected=int(np.prod(npts)), actual=sum(v['own'] for v in vals))
                    continue
                if not V:
                    chk.fail('C20:grid-but-none-exists', 'setupFromFile builds layouts although no valid factorisation exists', case, actual=vals[0]['nprocs'])
                    continue
                n1, n2 = (list(vals[0]['nprocs']) + [1, 1])[:2]
                if n1 * n2 != size or (n1, n2) not in V:
                    chk.fail('C20:invalid-grid', 'process grid chosen by setupFromFile is not a valid factorisation', case, actual=[n1, n2])
                    continue
                empty = [(r, n) for r, v in enumerate(vals) for n in NAMES if min(v['shapes'][n]) < 1]
                if empty:
                    chk.fail('C20:empty-block', 'after setupFromFile a process owns no point in some dimension of a standard layout', case,
                             actual={'nprocs': [n1, n2], 'rank, layout': empty[:4]})
    finally:
        shutil.rmtree(work, ignore_errors=True)


def source_facts(chk):
    """the facts of setups.py the theorem is stated about: both set-up routines use the same three layouts and call
    compute_2d_process_grid(constants.npts, mpi_size)"""
    import re
    src = (common.REPO / 'pygyro' / 'initialisation' / 'setups.py').read_text()
    found = re.findall(r"layouts\s*=\s*\{\s*'flux_surface':\s*\[([^\]]*)\],\s*'v_parallel':\s*\[([^\]]*)\],\s*'poloidal':\s*\[([^\]]*)\]\s*\}", src)
    want = tuple(ORDERS[n] for n in NAMES)
    got = [tuple([int(x) for x in g.split(',')] for g in f) for f in found]
    calls = re.findall(r'nprocs\s*=\s*compute_2d_process_grid\(\s*constants\.npts\s*,\s*mpi_size\s*\)', src)
    if len(got) != 2 or any(g != want for g in got) or len(calls) != 2:
        chk.diff('setups.py: standard layouts / call of compute_2d_process_grid', {'file': 'pygyro/initialisation/setups.py'},
                 {'layouts': [list(w) for w in want], 'calls': 2}, {'layouts': [list(map(list, g)) for g in got], 'calls': len(calls)})
    chk.count('setups.py layout dictionaries read', len(got))


def run(chk):
    chk.rule = ('box: every (max1, max2, size); non-trivial = at least two valid factorisations, or none although size <= max1*max2; '
                'random: five families up to 10^6 (log-uniform, smooth sizes, max1 just above a divisor, existence boundary, '
                'tie-prone maxima); npts: all (npts0, npts2, npts3, size) in a small box + random, non-trivial = three different '
                'extents and a grid exists; setups: random npts/degrees/size<=8 ranks really built')
    # Props/C20Gen.lean is about the functions REGENERATED from pygyro/model/process_grid.py: run the translator first
    common.run_translator(chk, 'translate_pure.py', '--only', 'procgrid')
    chk.proof_side(build=not getattr(chk, 'no_build', False), extra_props=('C20Gen',))
    common.use_repo()
    from pygyro.model.process_grid import compute_2d_process_grid, compute_2d_process_grid_from_max
    old = signal.signal(signal.SIGALRM, _alarm)
    drv = common.LeanDriver('C20.lean')
    try:
        source_facts(chk)
        box(chk, drv, compute_2d_process_grid_from_max)
        randoms(chk, drv, compute_2d_process_grid_from_max)
        from_npts(chk, drv, compute_2d_process_grid)
        setups(chk, drv, compute_2d_process_grid)
        restart_setups(chk, drv, compute_2d_process_grid)
    finally:
        signal.setitimer(signal.ITIMER_REAL, 0)
        signal.signal(signal.SIGALRM, old)
        drv.close()
    chk.assumptions = ['admissible inputs: maxima >= 1 and process count >= 1 (npts >= 1); zero extents make the code divide by zero and are outside the claim',
                       'binary64 ratio comparisons agree with exact ones except on (near-)ties, which only affect which valid grid is chosen (nondivisor_strictly_worse covers the one case where validity is at stake)',
                       'Python int // and % on positive ints = Nat division']

    def search():
        # proof/correspondence broken without an oracle failure so far: look harder for a failing input (oracle only)
        import random
        rng = random.Random(chk.seed + 77)
        before = len(chk.failures)
        for _ in range(60000):
            if HANGS[0] > MAX_HANGS + 3:
                break
            _, (m1, m2, s) = rand_case(rng, hi=20000)
            out = guarded(compute_2d_process_grid_from_max, (m1, m2, s), budget=5.0)
            if not oracle(chk, 'compute_2d_process_grid_from_max', {'max_proc1': m1, 'max_proc2': m2, 'mpi_size': s}, out, valid_set(m1, m2, s)):
                break
        return chk.failures[before] if len(chk.failures) > before else None
    old = signal.signal(signal.SIGALRM, _alarm)
    try:
        return chk.finish(search)
    finally:
        signal.signal(signal.SIGALRM, old)
